#!/usr/bin/env python3
"""Regenerate MANIFEST.json from checks.json (+ per-property texts in checks.json)."""
import json, os
ROOT = os.path.dirname(os.path.abspath(__file__))
checks = json.load(open(os.path.join(ROOT, "checks.json")))
props = [json.loads(l) for l in open(os.path.join(ROOT, "properties.jsonl"))]
na_reasons = json.load(open(os.path.join(ROOT, "not_applicable.json"))) if os.path.exists(os.path.join(ROOT, "not_applicable.json")) else {}
m = {
 "version": 1,
 "setup_cmd": "cd engine && GOFLAGS=-mod=mod GOPROXY=off GOSUMDB=off GOTOOLCHAIN=local go build -o ../bin/gosym .",
 "hooks": {"guard": "verif", "enable": "no source hooks: harnesses and the replay runtime enter through go/packages and `go test -overlay` overlays; nothing is written into /repo",
           "baseline_off_cmd": "cd /repo && go test -mod=mod -vet=off -count=1 -timeout 25m ./...", "source_commits": [], "add_only": True},
 "engines": [{"name": "gosym", "path": "engine", "serves_properties": sorted(checks.keys()),
              "kind_free_text": "bounded symbolic executor for the go/ssa form of /repo's current working tree (own interpreter: symbolic scalars, concrete heap, decision variables for branch outcomes, map orders, append capacities, goroutine schedules); every assertion is discharged by an SMT solver (z3 5.1.0 over an SMT-LIB2 pipe); counterexamples are replayed natively with go test -overlay"}],
 "checks": [], "not_applicable": [],
 "notes": "All checks: ./check <id> quick|thorough. Exit 0 = held within bounds, 1 = VIOLATION (replay file under evidence/replay), 3 = INCONCLUSIVE. Known findings: KNOWN_FINDINGS.txt. Design: DESIGN.md."
}
for p in props:
    pid = p["id"]
    if pid in checks:
        c = checks[pid]
        m["checks"].append({
            "property_id": pid,
            "quick_cmd": "./check %s quick" % pid,
            "thorough_cmd": "./check %s thorough" % pid,
            "evidence_file": "evidence/%s.json" % pid,
            "replay_cmd_template": "see engine_replay_cmd inside {path} (bin/gosym ... -replay <decision list>)",
            "engine": "gosym",
            "level_claimed": {"category": "model_checking",
                              "text": c.get("level_text", "Bounded symbolic execution of the real code: within the stated bounds every path of the harness is explored and every assertion is decided by the SMT solver for all values of the symbolic inputs; nothing is claimed outside the bounds."),
                              "design_ref": "DESIGN.md section 5, " + pid},
            "level_note": c.get("level_note", "Trusted: the gosym interpreter and its library models (" + ", ".join(c.get("trusted_base", [])) + "), go/ssa lowering, z3. Bounds: " + json.dumps(c.get("bounds"))),
            "technique": c.get("technique", "solver-based bounded symbolic execution of go/ssa (gosym + z3), native replay of counterexamples"),
        })
    else:
        m["not_applicable"].append({"property_id": pid, "reason": na_reasons.get(pid, "check not built yet (work in progress in this session)")})
json.dump(m, open(os.path.join(ROOT, "MANIFEST.json"), "w"), indent=1)
print("manifest:", len(m["checks"]), "checks,", len(m["not_applicable"]), "not applicable")
