package main

import (
	"bufio"
	"fmt"
	"io"
	"os/exec"
	"strings"
	"time"
)

// Term is an SMT-LIB2 term (as text) with a sort tag.
type Term struct {
	S    string // smtlib text
	Sort string // "Bool", "BV64", "BV8", ..., "String", "Int"
}

func bvSort(bits int) string { return fmt.Sprintf("BV%d", bits) }
func sortDecl(s string) string {
	switch {
	case s == "Bool":
		return "Bool"
	case s == "String":
		return "String"
	case s == "Int":
		return "Int"
	case strings.HasPrefix(s, "BV"):
		return "(_ BitVec " + s[2:] + ")"
	}
	panic("sort " + s)
}
func bvConst(v uint64, bits int) *Term {
	if bits < 64 {
		v &= (1 << uint(bits)) - 1
	}
	return &Term{fmt.Sprintf("(_ bv%d %d)", v, bits), bvSort(bits)}
}
func boolConst(b bool) *Term {
	if b {
		return &Term{"true", "Bool"}
	}
	return &Term{"false", "Bool"}
}
func app(sort, op string, args ...*Term) *Term {
	var sb strings.Builder
	sb.WriteString("(" + op)
	for _, a := range args {
		sb.WriteString(" " + a.S)
	}
	sb.WriteString(")")
	return &Term{sb.String(), sort}
}
func tnot(a *Term) *Term {
	if a.S == "true" {
		return boolConst(false)
	}
	if a.S == "false" {
		return boolConst(true)
	}
	if strings.HasPrefix(a.S, "(not ") {
		return &Term{a.S[5 : len(a.S)-1], "Bool"}
	}
	return app("Bool", "not", a)
}

type Solver struct {
	bin     string
	cmd     *exec.Cmd
	in      io.WriteCloser
	out     *bufio.Reader
	decl    map[string]string
	Queries int
	Sat     int
	Unsat   int
	Unknown int
	Time    time.Duration
	log     io.Writer
	isCVC   bool
	dead    bool
	hardMs  int // wall-clock limit per query enforced by killing the process (soft limit x3 + 5 s)
}

func NewSolver(bin string, timeoutMs int) *Solver {
	var args []string
	isCVC := strings.Contains(bin, "cvc5")
	if isCVC {
		args = []string{"--incremental", "--lang=smt2", "--strings-exp", fmt.Sprintf("--tlimit-per=%d", timeoutMs)}
	} else {
		// hard memory cap per solver process (MB): string constraints occasionally make z3 ignore its soft timeout and
		// grow without bound; an exhausted cap ends the process, which counts as "solver died" (path inconclusive)
		args = []string{"-in", "-memory:3000"}
	}
	cmd := exec.Command(bin, args...)
	in, _ := cmd.StdinPipe()
	outp, _ := cmd.StdoutPipe()
	cmd.Stderr = cmd.Stdout
	if err := cmd.Start(); err != nil {
		panic(err)
	}
	s := &Solver{bin: bin, cmd: cmd, in: in, out: bufio.NewReader(outp), decl: map[string]string{}, isCVC: isCVC, hardMs: 3*timeoutMs + 5000}
	if isCVC {
		s.send("(set-logic ALL)")
		s.send("(set-option :produce-models true)")
		s.send("(set-option :global-declarations true)")
	} else {
		s.send("(set-option :global-declarations true)")
		s.send("(set-option :produce-models true)")
		s.send(fmt.Sprintf("(set-option :timeout %d)", timeoutMs))
	}
	return s
}
func (s *Solver) Close() {
	if s.dead {
		return
	}
	s.dead = true
	s.in.Close()
	s.cmd.Process.Kill()
	s.cmd.Wait()
}
func (s *Solver) send(l string) {
	if s.log != nil {
		fmt.Fprintln(s.log, l)
	}
	io.WriteString(s.in, l+"\n")
}
func (s *Solver) Declare(name, sort string) {
	if _, ok := s.decl[name]; ok {
		return
	}
	s.decl[name] = sort
	s.send(fmt.Sprintf("(declare-const %s %s)", name, sortDecl(sort)))
}
func (s *Solver) DeclareFun(name string, argSorts []string, ret string) {
	if _, ok := s.decl[name]; ok {
		return
	}
	s.decl[name] = "fun"
	var as []string
	for _, a := range argSorts {
		as = append(as, sortDecl(a))
	}
	s.send(fmt.Sprintf("(declare-fun %s (%s) %s)", name, strings.Join(as, " "), sortDecl(ret)))
}
func (s *Solver) Push()          { s.send("(push 1)") }
func (s *Solver) Pop()           { s.send("(pop 1)") }
func (s *Solver) Assert(t *Term) { s.send("(assert " + t.S + ")") }
func (s *Solver) readLine() string {
	l, err := s.out.ReadString('\n')
	if err != nil {
		panic(solverDied{"solver died: " + err.Error()})
	}
	return strings.TrimSpace(l)
}

type solverDied struct{ msg string }

// Check returns "sat", "unsat" or "unknown" (timeouts, errors and anything else map to "unknown").
func (s *Solver) Check() string {
	t0 := time.Now()
	s.send("(check-sat)")
	done := make(chan struct{})
	go func() {
		select {
		case <-done:
		case <-time.After(time.Duration(s.hardMs) * time.Millisecond):
			s.cmd.Process.Kill() // readLine below fails: the path ends inconclusive and the worker starts a new solver
		}
	}()
	r := func() string {
		defer close(done)
		return s.readLine()
	}()
	s.Queries++
	s.Time += time.Since(t0)
	switch r {
	case "sat":
		s.Sat++
		return r
	case "unsat":
		s.Unsat++
		return r
	}
	s.Unknown++
	if strings.HasPrefix(r, "(error") {
		return "unknown:" + r
	}
	return "unknown"
}

// CheckWith: is (asserted stack) /\ extra satisfiable?
func (s *Solver) CheckWith(extra *Term) string {
	s.Push()
	s.Assert(extra)
	r := s.Check()
	s.Pop()
	return r
}

// Model reads values of the named constants after a sat answer.
func (s *Solver) Model(names []string) map[string]string {
	m := map[string]string{}
	for _, n := range names {
		s.send("(get-value (" + n + "))")
		depth, started := 0, false
		var sb strings.Builder
		inStr := false
		for !started || depth > 0 {
			l := s.readLine()
			for _, c := range l {
				if c == '"' {
					inStr = !inStr
				}
				if inStr {
					continue
				}
				if c == '(' {
					depth++
					started = true
				} else if c == ')' {
					depth--
				}
			}
			sb.WriteString(l)
		}
		v := sb.String()
		// strip "((name value))"
		v = strings.TrimSpace(v)
		if strings.HasPrefix(v, "((") && strings.HasSuffix(v, "))") {
			v = strings.TrimSpace(v[2 : len(v)-2])
			if strings.HasPrefix(v, n) {
				v = strings.TrimSpace(v[len(n):])
			} else if i := strings.Index(v, " "); i >= 0 {
				v = strings.TrimSpace(v[i:])
			}
		}
		m[n] = v
	}
	return m
}

func smtStr(s string) string {
	var sb strings.Builder
	sb.WriteByte('"')
	for _, r := range []byte(s) {
		if r == '"' {
			sb.WriteString("\"\"")
		} else if r < 32 || r > 126 || r == '\\' {
			sb.WriteString(fmt.Sprintf("\\u{%x}", r))
		} else {
			sb.WriteByte(r)
		}
	}
	sb.WriteByte('"')
	return sb.String()
}

// parseSMTString decodes an SMT-LIB string literal as printed by z3/cvc5.
func parseSMTString(s string) (string, bool) {
	s = strings.TrimSpace(s)
	if len(s) < 2 || s[0] != '"' || s[len(s)-1] != '"' {
		return "", false
	}
	s = s[1 : len(s)-1]
	var out []byte
	for i := 0; i < len(s); i++ {
		if s[i] == '"' && i+1 < len(s) && s[i+1] == '"' {
			out = append(out, '"')
			i++
			continue
		}
		if s[i] == '\\' && i+2 < len(s) && s[i+1] == 'u' && s[i+2] == '{' {
			j := strings.IndexByte(s[i:], '}')
			if j > 0 {
				var v int
				fmt.Sscanf(s[i+3:i+j], "%x", &v)
				if v < 256 {
					out = append(out, byte(v))
				} else {
					out = append(out, []byte(string(rune(v)))...)
				}
				i += j
				continue
			}
		}
		out = append(out, s[i])
	}
	return string(out), true
}

// parseBV decodes "#x..." / "#b..." / "(_ bvN w)".
func parseBV(s string) (uint64, bool) {
	s = strings.TrimSpace(s)
	var v uint64
	switch {
	case strings.HasPrefix(s, "#x"):
		_, err := fmt.Sscanf(s[2:], "%x", &v)
		return v, err == nil
	case strings.HasPrefix(s, "#b"):
		for _, c := range s[2:] {
			v = v<<1 | uint64(c-'0')
		}
		return v, true
	case strings.HasPrefix(s, "(_ bv"):
		_, err := fmt.Sscanf(s[5:], "%d", &v)
		return v, err == nil
	}
	return 0, false
}
