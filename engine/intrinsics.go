package main

import (
	"fmt"
	"go/token"
	"go/types"
	"sort"
	"strconv"
	"strings"

	"golang.org/x/tools/go/ssa"
)

func (e *Exec) freshSym(name, sort_, kind string) *Term {
	// the SMT name carries the sort: solver processes are shared by all paths and harnesses of a run
	switch sort_ {
	case "String":
		name = "s$" + sanitize(name)
	case "Bool":
		name = "b$" + sanitize(name)
	default:
		name = sanitize(name)
	}
	e.symCount[name]++
	n := name
	if e.symCount[name] > 1 {
		n = fmt.Sprintf("%s!%d", n, e.symCount[name])
	}
	e.solver.Declare(n, sort_)
	e.syms = append(e.syms, symInfo{n, sort_, kind})
	return &Term{n, sort_}
}

func sanitize(s string) string {
	var sb strings.Builder
	for _, c := range s {
		if c >= 'a' && c <= 'z' || c >= 'A' && c <= 'Z' || c >= '0' && c <= '9' || c == '_' || c == '.' {
			sb.WriteRune(c)
		} else {
			sb.WriteByte('_')
		}
	}
	return sb.String()
}

func (e *Exec) concStr(v Value) string {
	s := v.(StrV)
	if s.Sym != nil {
		panic("harness runtime: name/label argument must be a concrete string")
	}
	return s.C
}

func (e *Exec) concInt(v Value) int {
	i := v.(IntV)
	if i.Sym != nil {
		panic("harness runtime: argument must be a concrete int")
	}
	return int(int64(i.C))
}

func (e *Exec) sliceElems(v Value) []Value {
	s, ok := v.(SliceV)
	if !ok {
		return nil
	}
	out := make([]Value, s.Len)
	for i := 0; i < s.Len; i++ {
		out[i] = e.load(mkPtr(s.Arr, []int{s.Off + i}))
	}
	return out
}

func (e *Exec) mkSlice(et types.Type, vals []Value) SliceV {
	arr := &ArrayV{E: make([]Value, len(vals))}
	for i, v := range vals {
		arr.E[i] = copyVal(v)
	}
	if len(vals) == 0 {
		return SliceV{Arr: e.newCell(arr)}
	}
	return SliceV{Arr: e.newCell(arr), Len: len(vals), Cap: len(vals)}
}

// harnessIntrinsic implements the v* runtime used by harnesses.
func (e *Exec) harnessIntrinsic(short string, args []Value) (Value, bool) {
	switch short {
	case "vsymInt":
		return IntV{Sym: e.freshSym(e.concStr(args[0]), "BV64", "int")}, true
	case "vsymBool":
		return BoolV{Sym: e.freshSym(e.concStr(args[0]), "Bool", "bool")}, true
	case "vsymStr":
		t := e.freshSym(e.concStr(args[0]), "String", "str")
		// bound on every symbolic string: length <= 4, printable ASCII letters only (keeps replay simple)
		e.addPC(app("Bool", "<=", app("Int", "str.len", t), &Term{"4", "Int"}))
		e.addPC(app("Bool", "str.in_re", t, &Term{"(re.* (re.range \"a\" \"z\"))", "RegLan"}))
		return StrV{Sym: t}, true
	case "vrange":
		name := e.concStr(args[0])
		lo, hi := e.concInt(args[1]), e.concInt(args[2])
		t := e.freshSym(name, "BV64", "range")
		e.addPC(app("Bool", "bvsge", t, bvConst(uint64(int64(lo)), 64)))
		e.addPC(app("Bool", "bvsle", t, bvConst(uint64(int64(hi)), 64)))
		k := e.concretize(IntV{Sym: t}, 64, lo, hi)
		return IntV{C: uint64(int64(k))}, true
	case "vchoose":
		n := e.concInt(args[1])
		if n <= 1 {
			return IntV{}, true
		}
		return IntV{C: uint64(e.choose(n, "choose:"+e.concStr(args[0])))}, true
	case "vsymUF":
		name := sanitize(e.concStr(args[0]))
		ops := e.sliceElems(args[1])
		var as []string
		var ts []*Term
		for _, o := range ops {
			as = append(as, "BV64")
			ts = append(ts, intTerm(o.(IntV), 64))
		}
		fname := fmt.Sprintf("%s_%d", name, len(ops))
		if len(ops) == 0 {
			e.solver.Declare(fname, "BV64")
			e.noteUF(fname)
			return IntV{Sym: &Term{fname, "BV64"}}, true
		}
		e.solver.DeclareFun(fname, as, "BV64")
		e.noteUF(fname)
		return IntV{Sym: app("BV64", fname, ts...)}, true
	case "vsymUFStr":
		name := sanitize(e.concStr(args[0]))
		ops := e.sliceElems(args[1])
		var as []string
		var ts []*Term
		for _, o := range ops {
			as = append(as, "String")
			ts = append(ts, strTerm(o.(StrV)))
		}
		fname := fmt.Sprintf("%s_s%d", name, len(ops))
		if len(ops) == 0 {
			e.solver.Declare(fname, "String")
			return StrV{Sym: &Term{fname, "String"}}, true
		}
		e.solver.DeclareFun(fname, as, "String")
		e.noteUF(fname)
		return StrV{Sym: app("String", fname, ts...)}, true
	case "vassume":
		if !e.truth(args[0]) {
			panic(pathEnd{"assume false"})
		}
		return nil, true
	case "vassert":
		e.vassert(args[0].(BoolV), e.concStr(args[1]))
		return nil, true
	case "vfail":
		e.cexModel = e.modelNow()
		panic(violationFound{e.concStr(args[0])})
	case "vyield":
		e.yield(nil, "vyield")
		return nil, true
	case "vquiesce":
		e.quiesce()
		return nil, true
	case "vreach":
		e.reached[e.concStr(args[0])] = true
		return nil, true
	case "vlog":
		var parts []string
		for _, o := range e.sliceElems(args[0]) {
			parts = append(parts, e.render(o))
		}
		e.vlogs = append(e.vlogs, strings.Join(parts, " "))
		return nil, true
	case "vconcrete":
		// is the int argument concrete on this path? (harness-side optimisation aid)
		return BoolV{C: args[0].(IntV).Sym == nil}, true
	case "vcfg":
		key := e.concStr(args[0])
		val := e.concInt(args[1])
		switch key {
		case "preempt":
			e.sch.maxPreempt = val
		case "delaybound":
			e.sch.delayBound = val
		case "maporder":
			e.mapOrderAll = val != 0
		case "appendcap":
			e.nondetCap = val != 0
		case "fifo":
			e.fifoSched = val != 0
		case "selectfirst":
			e.selectFirst = val != 0
		case "race":
			e.raceOn = val != 0
		case "maxsteps":
			e.maxSteps = val
		case "depthviolation":
			// a call stack deeper than this is reported as a violation (unbounded recursion: natively a stack
			// overflow, which kills the process) instead of as an unwinding failure
			e.depthViol = val
		default:
			panic("vcfg: unknown key " + key)
		}
		return nil, true
	case "vcfgMapOrderIn":
		name := e.concStr(args[0])
		if strings.HasPrefix(name, "-") { // "-fn": stop exploring the map orders of fn from here on
			delete(e.mapOrderFn, name[1:])
		} else {
			e.mapOrderFn[name] = true
		}
		return nil, true
	case "vcfgAppendCapIn":
		e.appendCapFn[e.concStr(args[0])] = true
		return nil, true
	case "vnative":
		return BoolV{C: false}, true
	case "vtier":
		return IntV{C: uint64(e.w.tier)}, true
	}
	return nil, false
}

func (e *Exec) noteUF(name string) {
	if e.uninterp == nil {
		e.uninterp = map[string]bool{}
	}
	e.uninterp[name] = true
}

func (e *Exec) vassert(b BoolV, msg string) {
	e.asserts++
	if b.Sym == nil {
		if !b.C {
			e.cexModel = e.modelNow()
			panic(violationFound{msg})
		}
		return
	}
	e.assertsSym++
	r := e.check(tnot(b.Sym))
	switch {
	case r == "sat":
		e.solver.Push()
		e.solver.Assert(tnot(b.Sym))
		e.solver.Check()
		e.cexModel = e.readModel()
		e.solver.Pop()
		panic(violationFound{msg})
	case r == "unsat":
		e.addPC(b.Sym)
	default:
		e.inconcl = append(e.inconcl, "solver "+r+" on assertion: "+msg)
		e.addPC(b.Sym)
	}
}

func (e *Exec) readModel() map[string]string {
	var names []string
	for _, s := range e.syms {
		names = append(names, s.Name)
	}
	if len(names) == 0 {
		return map[string]string{}
	}
	return e.solver.Model(names)
}

func (e *Exec) modelNow() map[string]string {
	if len(e.syms) == 0 && e.unknownBranches == 0 {
		return map[string]string{}
	}
	r := e.solver.Check()
	if strings.HasPrefix(r, "unknown") {
		r = e.solver.Check()
	}
	switch {
	case r == "unsat":
		// this path was only entered because a feasibility query came back unknown: it does not exist
		panic(pathEnd{"infeasible (path condition unsatisfiable)"})
	case r != "sat":
		panic(inconclusive{"solver " + r + " when validating the path condition of a counterexample"})
	}
	if len(e.syms) == 0 {
		return map[string]string{}
	}
	return e.readModel()
}

func (e *Exec) intrinsic(fn *ssa.Function, args []Value) (Value, bool) {
	short := fn.Name()
	if len(short) > 1 && short[0] == 'v' && fn.Pkg != nil && strings.HasPrefix(fn.Pkg.Pkg.Path(), "github.com/cloudwego/eino") {
		if r, ok := e.harnessIntrinsic(short, args); ok {
			return r, true
		}
	}
	if fn.Synthetic == "package initializer" {
		return e.pkgInit(fn)
	}
	if fn.Pkg != nil && strings.HasPrefix(fn.Pkg.Pkg.Path(), "github.com/cloudwego/eino") {
		// fast path: eino code is interpreted (only a few exceptions)
		return nil, false
	}
	name := fn.String()
	if o := fn.Origin(); o != nil {
		name = o.String()
	}
	if r, ok := e.reflectIntrinsic(name, fn, args); ok {
		return r, true
	}
	if r, ok := e.ctxIntrinsic(name, args); ok {
		return r, true
	}
	if name == "sync.NewCond" {
		// a condition variable: a fresh object whose locker is remembered by the engine (see syncIntrinsic)
		t := fn.Signature.Results().At(0).Type().(*types.Pointer).Elem()
		p := Ptr{C: e.newCell(zero(t))}
		e.conds[ptrKey(p)] = &condState{locker: args[0]}
		return p, true
	}
	if r, ok := e.syncIntrinsic(name, args); ok {
		return r, true
	}
	if r, ok := e.jsonIntrinsic(name, fn, args); ok {
		return r, true
	}
	switch name {
	case "runtime/debug.Stack":
		return e.mkSlice(types.Typ[types.Uint8], nil), true
	case "fmt.Errorf":
		return e.errorf(args), true
	case "fmt.Sprintf":
		return e.sprintf(args[0].(StrV).C, e.sliceElems(args[1])), true
	case "fmt.Sprint":
		var parts []StrV
		for _, o := range e.sliceElems(args[0]) {
			parts = append(parts, e.fmtValue(o, 'v'))
		}
		return joinStr(parts, ""), true
	case "fmt.Sprintln":
		var parts []StrV
		for _, o := range e.sliceElems(args[0]) {
			parts = append(parts, e.fmtValue(o, 'v'))
		}
		return joinStr(append([]StrV{joinStr(parts, " ")}, StrV{C: "\n"}), ""), true
	case "fmt.Println", "fmt.Printf", "fmt.Print", "log.Printf", "log.Println":
		return Tuple{IntV{}, Iface{}}, true
	case "errors.Is":
		return BoolV{C: e.errorsIs(args[0].(Iface), args[1].(Iface))}, true
	case "errors.As":
		return BoolV{C: e.errorsAs(args[0].(Iface), args[1].(Iface))}, true
	case "(*strings.Builder).WriteString":
		k := ptrKey(args[0].(Ptr))
		e.builders[k] = catStr(e.builders[k], args[1].(StrV))
		return Tuple{IntV{}, Iface{}}, true
	case "(*strings.Builder).WriteByte":
		k := ptrKey(args[0].(Ptr))
		e.builders[k] = catStr(e.builders[k], StrV{C: string([]byte{byte(args[1].(IntV).C)})})
		return Iface{}, true
	case "(*strings.Builder).WriteRune":
		k := ptrKey(args[0].(Ptr))
		e.builders[k] = catStr(e.builders[k], StrV{C: string(rune(args[1].(IntV).C))})
		return Tuple{IntV{}, Iface{}}, true
	case "(*strings.Builder).String":
		return e.builders[ptrKey(args[0].(Ptr))], true
	case "(*strings.Builder).Len":
		return e.builtinLenStr(e.builders[ptrKey(args[0].(Ptr))]), true
	case "(*strings.Builder).Grow":
		return nil, true
	case "(*strings.Builder).Reset":
		delete(e.builders, ptrKey(args[0].(Ptr)))
		return nil, true
	case "strings.Join":
		var parts []StrV
		for _, o := range e.sliceElems(args[0]) {
			parts = append(parts, o.(StrV))
		}
		sep := args[1].(StrV)
		if len(parts) == 0 {
			return StrV{}, true
		}
		r := parts[0]
		for _, p := range parts[1:] {
			r = catStr(catStr(r, sep), p)
		}
		return r, true
	case "strings.Split":
		s, sep := args[0].(StrV), args[1].(StrV)
		if s.Sym != nil || sep.Sym != nil {
			panic(unsupported{"strings.Split on symbolic string"})
		}
		var vals []Value
		for _, p := range strings.Split(s.C, sep.C) {
			vals = append(vals, StrV{C: p})
		}
		return e.mkSlice(types.Typ[types.String], vals), true
	case "strings.Contains", "strings.HasPrefix", "strings.HasSuffix":
		s, sub := args[0].(StrV), args[1].(StrV)
		if s.Sym == nil && sub.Sym == nil {
			switch name {
			case "strings.Contains":
				return BoolV{C: strings.Contains(s.C, sub.C)}, true
			case "strings.HasPrefix":
				return BoolV{C: strings.HasPrefix(s.C, sub.C)}, true
			}
			return BoolV{C: strings.HasSuffix(s.C, sub.C)}, true
		}
		op := map[string]string{"strings.Contains": "str.contains", "strings.HasPrefix": "str.prefixof", "strings.HasSuffix": "str.suffixof"}[name]
		if name == "strings.Contains" {
			return BoolV{Sym: app("Bool", op, strTerm(s), strTerm(sub))}, true
		}
		return BoolV{Sym: app("Bool", op, strTerm(sub), strTerm(s))}, true
	case "strings.ToUpper", "strings.ToLower", "strings.TrimSpace", "strings.Title":
		s := args[0].(StrV)
		if s.Sym != nil {
			panic(unsupported{name + " on symbolic string"})
		}
		switch name {
		case "strings.ToUpper":
			return StrV{C: strings.ToUpper(s.C)}, true
		case "strings.ToLower":
			return StrV{C: strings.ToLower(s.C)}, true
		}
		return StrV{C: strings.TrimSpace(s.C)}, true
	case "strings.LastIndex", "strings.Index":
		s, sub := args[0].(StrV), args[1].(StrV)
		if s.Sym != nil || sub.Sym != nil {
			panic(unsupported{name + " on symbolic string"})
		}
		if name == "strings.Index" {
			return IntV{C: uint64(int64(strings.Index(s.C, sub.C)))}, true
		}
		return IntV{C: uint64(int64(strings.LastIndex(s.C, sub.C)))}, true
	case "strings.TrimPrefix", "strings.TrimSuffix":
		s, sub := args[0].(StrV), args[1].(StrV)
		if s.Sym != nil || sub.Sym != nil {
			panic(unsupported{name + " on symbolic string"})
		}
		if name == "strings.TrimPrefix" {
			return StrV{C: strings.TrimPrefix(s.C, sub.C)}, true
		}
		return StrV{C: strings.TrimSuffix(s.C, sub.C)}, true
	case "strings.ReplaceAll":
		s, a, b := args[0].(StrV), args[1].(StrV), args[2].(StrV)
		if s.Sym != nil || a.Sym != nil || b.Sym != nil {
			panic(unsupported{name + " on symbolic string"})
		}
		return StrV{C: strings.ReplaceAll(s.C, a.C, b.C)}, true
	case "strings.EqualFold":
		s, a := args[0].(StrV), args[1].(StrV)
		if s.Sym != nil || a.Sym != nil {
			panic(unsupported{name + " on symbolic string"})
		}
		return BoolV{C: strings.EqualFold(s.C, a.C)}, true
	case "strconv.Itoa":
		v := args[0].(IntV)
		if v.Sym != nil {
			return StrV{Sym: app("String", "str.from_int", app("Int", "bv2nat", v.Sym))}, true
		}
		return StrV{C: strconv.Itoa(int(int64(v.C)))}, true
	case "strconv.Quote":
		s := args[0].(StrV)
		if s.Sym != nil {
			return s, true
		}
		return StrV{C: strconv.Quote(s.C)}, true
	case "sort.Strings":
		e.sortSlice(args[0].(SliceV), func(a, b Value) bool {
			return e.truth(e.binop(token.LSS, types.Typ[types.String], types.Typ[types.String], a, b))
		})
		return nil, true
	case "sort.Ints":
		e.sortSlice(args[0].(SliceV), func(a, b Value) bool {
			return e.truth(e.binop(token.LSS, types.Typ[types.Int], types.Typ[types.Int], a, b))
		})
		return nil, true
	case "sort.SliceStable", "sort.Slice":
		s := args[0].(Iface).V.(SliceV)
		less := args[1]
		// sort.Slice does not promise stability: besides the stable outcome the path is explored with the other
		// extreme legal outcome, every run of equal elements reversed (one decision per path, taken at the first call)
		reverseEqual := false
		if name == "sort.Slice" && s.Len > 1 {
			if e.sortMode == 0 {
				e.sortMode = 1 + e.choose(2, "sortorder")
			}
			reverseEqual = e.sortMode == 2
		}
		// insertion sort with swaps in place, calling the interpreted less(i, j)
		for i := 1; i < s.Len; i++ {
			for j := i; j > 0; j-- {
				var move bool
				if reverseEqual {
					// move left unless the left neighbour is strictly smaller
					move = !e.truth(e.call(less, []Value{IntV{C: uint64(j - 1)}, IntV{C: uint64(j)}}))
				} else {
					move = e.truth(e.call(less, []Value{IntV{C: uint64(j)}, IntV{C: uint64(j - 1)}}))
				}
				if !move {
					break
				}
				pa, pb := mkPtr(s.Arr, []int{s.Off + j}), mkPtr(s.Arr, []int{s.Off + j - 1})
				va, vb := e.load(pa), e.load(pb)
				e.store(pa, vb)
				e.store(pb, va)
			}
		}
		return nil, true
	case "runtime.FuncForPC":
		return Ptr{}, true
	case "(*runtime.Func).Name":
		return StrV{C: "func"}, true
	case "time.Now":
		panic(unsupported{"time.Now"})
	case "(*sync.Pool).Get":
		return Iface{}, true
	case "(*sync.Pool).Put":
		return nil, true
	case "unicode/utf8.ValidString":
		s := args[0].(StrV)
		if s.Sym != nil {
			return BoolV{C: true}, true // symbolic strings are constrained to ASCII letters
		}
		return BoolV{C: strings.ToValidUTF8(s.C, "") == s.C}, true
	case "unicode/utf8.RuneCountInString":
		s := args[0].(StrV)
		if s.Sym != nil {
			return e.builtinLenStr(s), true
		}
		return IntV{C: uint64(len([]rune(s.C)))}, true
	}
	return nil, false
}

func (e *Exec) builtinLenStr(x StrV) Value {
	if x.Sym != nil {
		return IntV{Sym: app("BV64", "(_ int2bv 64)", app("Int", "str.len", x.Sym))}
	}
	return IntV{C: uint64(len(x.C))}
}

func (e *Exec) sortSlice(s SliceV, less func(a, b Value) bool) {
	vals := make([]Value, s.Len)
	for i := range vals {
		vals[i] = e.load(mkPtr(s.Arr, []int{s.Off + i}))
	}
	// insertion sort (stable); comparisons may fork on symbolic values
	for i := 1; i < len(vals); i++ {
		for j := i; j > 0 && less(vals[j], vals[j-1]); j-- {
			vals[j], vals[j-1] = vals[j-1], vals[j]
		}
	}
	for i := range vals {
		e.store(mkPtr(s.Arr, []int{s.Off + i}), vals[i])
	}
}

func catStr(a, b StrV) StrV {
	if a.Sym == nil && b.Sym == nil {
		return StrV{C: a.C + b.C}
	}
	if a.Sym == nil && a.C == "" {
		return b
	}
	if b.Sym == nil && b.C == "" {
		return a
	}
	return StrV{Sym: app("String", "str.++", strTerm(a), strTerm(b))}
}

func joinStr(parts []StrV, sep string) StrV {
	r := StrV{}
	for i, p := range parts {
		if i > 0 && sep != "" {
			r = catStr(r, StrV{C: sep})
		}
		r = catStr(r, p)
	}
	return r
}

// pkgInit decides whether a package initialiser is interpreted.
func (e *Exec) pkgInit(fn *ssa.Function) (Value, bool) {
	p := fn.Pkg.Pkg.Path()
	if strings.HasPrefix(p, "github.com/cloudwego/eino") || interpretedStd[p] {
		return nil, false // interpret it (guarded by init$guard)
	}
	return nil, true // skip
}

var interpretedStd = map[string]bool{"errors": true, "io": true, "container/list": true, "context": true}

// ---------------------------------------------------------------- fmt

// fmtValue renders a value for %v / %s / %d (approximation of fmt; exact for strings, ints, bools, errors).
func (e *Exec) fmtValue(v Value, verb byte) StrV {
	switch x := v.(type) {
	case Iface:
		if x.T == nil {
			if verb == 's' {
				return StrV{C: "%!s(<nil>)"}
			}
			return StrV{C: "<nil>"}
		}
		if verb == 'T' {
			return StrV{C: e.typeString(x.T)}
		}
		if x.T == rtypeMarker {
			return StrV{C: e.typeString(x.V.(RType).t)}
		}
		if x.T == ctxMarker {
			return StrV{C: "context"}
		}
		if verb != 'd' && verb != 'p' && verb != 'T' {
			// error / Stringer
			if m := e.findMethod(x.T, "Error"); m != nil && m.Signature.Params().Len() == 0 {
				return e.callStrMethod(m, x)
			}
			if m := e.findMethod(x.T, "String"); m != nil && m.Signature.Params().Len() == 0 {
				return e.callStrMethod(m, x)
			}
		}
		return e.fmtTyped(x.T, x.V, verb)
	case StrV:
		return x
	}
	return e.fmtTyped(nil, v, verb)
}

func (e *Exec) callStrMethod(m *ssa.Function, x Iface) (res StrV) {
	// a nil pointer receiver with a pointer-receiver method may panic: fmt prints <nil> then
	defer func() {
		if r := recover(); r != nil {
			if _, ok := r.(goPanic); ok {
				res = StrV{C: "<nil>"}
				return
			}
			panic(r)
		}
	}()
	r := e.callFn(m, []Value{x.V}, nil)
	if s, ok := r.(StrV); ok {
		return s
	}
	return StrV{C: "?"}
}

func (e *Exec) findMethod(t types.Type, name string) *ssa.Function {
	lookupMu.Lock()
	defer lookupMu.Unlock()
	ms := e.prog.MethodSets.MethodSet(t)
	for i := 0; i < ms.Len(); i++ {
		if ms.At(i).Obj().Name() == name {
			return e.prog.MethodValue(ms.At(i))
		}
	}
	return nil
}

func (e *Exec) fmtTyped(t types.Type, v Value, verb byte) StrV {
	switch x := v.(type) {
	case StrV:
		if verb == 'q' && x.Sym == nil {
			return StrV{C: strconv.Quote(x.C)}
		}
		return x
	case IntV:
		if x.Sym != nil {
			return StrV{Sym: app("String", "str.from_int", app("Int", "bv2nat", x.Sym))}
		}
		if t != nil {
			if bits, signed, ok := intBits(t); ok {
				if signed {
					return StrV{C: strconv.FormatInt(sext(x.C, bits), 10)}
				}
				return StrV{C: strconv.FormatUint(x.C, 10)}
			}
		}
		return StrV{C: strconv.FormatInt(int64(x.C), 10)}
	case BoolV:
		if x.Sym != nil {
			return StrV{Sym: app("String", "ite", x.Sym, &Term{"\"true\"", "String"}, &Term{"\"false\"", "String"})}
		}
		return StrV{C: strconv.FormatBool(x.C)}
	case float64:
		return StrV{C: fmtFloat(x)}
	case Ptr:
		if x.IsNil() {
			return StrV{C: "<nil>"}
		}
		if t != nil {
			if pt, ok := under(t).(*types.Pointer); ok {
				if _, ok := under(pt.Elem()).(*types.Struct); ok && verb != 'p' {
					return catStr(StrV{C: "&"}, e.fmtTyped(pt.Elem(), loadRaw(x), verb))
				}
			}
		}
		return StrV{C: fmt.Sprintf("0xc%07d", x.C.id)}
	case SliceV:
		var et types.Type
		if t != nil {
			if st, ok := under(t).(*types.Slice); ok {
				et = st.Elem()
			}
		}
		parts := []StrV{}
		for i := 0; i < x.Len; i++ {
			parts = append(parts, e.fmtElem(et, loadRaw(mkPtr(x.Arr, []int{x.Off + i})), verb))
		}
		return catStr(catStr(StrV{C: "["}, joinStr(parts, " ")), StrV{C: "]"})
	case *ArrayV:
		parts := []StrV{}
		var et types.Type
		if t != nil {
			if at, ok := under(t).(*types.Array); ok {
				et = at.Elem()
			}
		}
		for _, el := range x.E {
			parts = append(parts, e.fmtElem(et, el, verb))
		}
		return catStr(catStr(StrV{C: "["}, joinStr(parts, " ")), StrV{C: "]"})
	case *StructV:
		parts := []StrV{}
		var st *types.Struct
		if t != nil {
			st, _ = under(t).(*types.Struct)
		}
		for i, f := range x.F {
			var ft types.Type
			if st != nil {
				ft = st.Field(i).Type()
			}
			parts = append(parts, e.fmtElem(ft, f, verb))
		}
		return catStr(catStr(StrV{C: "{"}, joinStr(parts, " ")), StrV{C: "}"})
	case *MapObj:
		if x == nil {
			return StrV{C: "map[]"}
		}
		var kt, vt types.Type
		if t != nil {
			if mt, ok := under(t).(*types.Map); ok {
				kt, vt = mt.Key(), mt.Elem()
			}
		}
		// fmt sorts map keys; do so for concrete string keys
		ents := append([]*MapEntry{}, x.E...)
		sort.SliceStable(ents, func(i, j int) bool {
			a, ok1 := ents[i].K.(StrV)
			b, ok2 := ents[j].K.(StrV)
			return ok1 && ok2 && a.Sym == nil && b.Sym == nil && a.C < b.C
		})
		parts := []StrV{}
		for _, en := range ents {
			parts = append(parts, catStr(catStr(e.fmtElem(kt, en.K, verb), StrV{C: ":"}), e.fmtElem(vt, en.V, verb)))
		}
		return catStr(catStr(StrV{C: "map["}, joinStr(parts, " ")), StrV{C: "]"})
	case nil:
		return StrV{C: "<nil>"}
	case RType:
		return StrV{C: e.typeString(x.t)}
	case RValue:
		if !x.valid {
			return StrV{C: "<invalid reflect.Value>"}
		}
		return e.fmtElem(x.t, e.rvGet(x), verb)
	case *Closure, *ssa.Function:
		return StrV{C: "0xfunc"}
	case *ChanObj:
		return StrV{C: "0xchan"}
	}
	return StrV{C: fmt.Sprintf("<%T>", v)}
}

func (e *Exec) fmtElem(t types.Type, v Value, verb byte) StrV {
	if i, ok := v.(Iface); ok {
		return e.fmtValue(i, verb)
	}
	if t != nil {
		if _, isIface := under(t).(*types.Interface); !isIface {
			// a typed value with methods (error/Stringer)
			return e.fmtValue(Iface{T: t, V: v}, verb)
		}
	}
	return e.fmtTyped(t, v, verb)
}

func (e *Exec) sprintf(f string, ops []Value) StrV {
	var parts []StrV
	argN := 0
	lit := strings.Builder{}
	flush := func() {
		if lit.Len() > 0 {
			parts = append(parts, StrV{C: lit.String()})
			lit.Reset()
		}
	}
	for i := 0; i < len(f); i++ {
		if f[i] != '%' {
			lit.WriteByte(f[i])
			continue
		}
		i++
		for i < len(f) && strings.ContainsRune("+-# 0123456789.[]*", rune(f[i])) {
			i++
		}
		if i >= len(f) {
			lit.WriteString("%!(NOVERB)")
			break
		}
		if f[i] == '%' {
			lit.WriteByte('%')
			continue
		}
		if argN >= len(ops) {
			lit.WriteString("%!" + string(f[i]) + "(MISSING)")
			continue
		}
		flush()
		parts = append(parts, e.fmtValue(ops[argN], f[i]))
		argN++
	}
	flush()
	return joinStr(parts, "")
}

// errorf models fmt.Errorf: %w wrapping is exact: the result is a real *fmt.wrapError /
// *fmt.wrapErrors / *fmt.errorString-like value whose methods are interpreted from their SSA bodies.
func (e *Exec) errorf(args []Value) Value {
	f := args[0].(StrV).C
	ops := e.sliceElems(args[1])
	msg := e.sprintf(f, ops)
	var wIdx []int
	argN := 0
	for i := 0; i < len(f); i++ {
		if f[i] != '%' {
			continue
		}
		i++
		for i < len(f) && strings.ContainsRune("+-# 0123456789.[]*", rune(f[i])) {
			i++
		}
		if i >= len(f) {
			break
		}
		if f[i] == '%' {
			continue
		}
		if f[i] == 'w' && argN < len(ops) {
			if iv, ok := ops[argN].(Iface); ok && iv.T != nil {
				wIdx = append(wIdx, argN)
			}
		}
		argN++
	}
	fmtPkg := e.prog.ImportedPackage("fmt")
	switch {
	case len(wIdx) == 1:
		wt := fmtPkg.Type("wrapError").Type()
		st := zero(wt).(*StructV)
		st.F[0] = msg
		st.F[1] = ops[wIdx[0]]
		return Iface{T: types.NewPointer(wt), V: Ptr{C: e.newCell(st)}}
	case len(wIdx) > 1:
		wt := fmtPkg.Type("wrapErrors").Type()
		st := zero(wt).(*StructV)
		st.F[0] = msg
		var errs []Value
		for _, i := range wIdx {
			errs = append(errs, ops[i])
		}
		st.F[1] = e.mkSlice(under(wt).(*types.Struct).Field(1).Type().(*types.Slice).Elem(), errs)
		return Iface{T: types.NewPointer(wt), V: Ptr{C: e.newCell(st)}}
	}
	et := e.prog.ImportedPackage("errors").Type("errorString").Type()
	st := zero(et).(*StructV)
	st.F[0] = msg
	return Iface{T: types.NewPointer(et), V: Ptr{C: e.newCell(st)}}
}

// ---------------------------------------------------------------- errors.Is / errors.As

func (e *Exec) unwrapOnce(err Iface) (single *Iface, multi []Iface) {
	if err.T == nil {
		return nil, nil
	}
	m := e.findMethod(err.T, "Unwrap")
	if m == nil || m.Signature.Params().Len() != 0 || m.Signature.Results().Len() != 1 {
		return nil, nil
	}
	r := e.callFn(m, []Value{err.V}, nil)
	switch x := r.(type) {
	case Iface:
		return &x, nil
	case SliceV:
		for _, el := range e.sliceElems(x) {
			multi = append(multi, el.(Iface))
		}
		return nil, multi
	}
	return nil, nil
}

func (e *Exec) errorsIs(err, target Iface) bool {
	if err.T == nil || target.T == nil {
		return err.T == nil && target.T == nil
	}
	comparable := types.Comparable(target.T)
	for {
		if comparable && types.Identical(err.T, target.T) && e.truth(e.equal(err.T, err.V, target.V)) {
			return true
		}
		if m := e.findMethod(err.T, "Is"); m != nil && m.Signature.Params().Len() == 1 && m.Signature.Results().Len() == 1 {
			if b, ok := e.callFn(m, []Value{err.V, target}, nil).(BoolV); ok && e.truth(b) {
				return true
			}
		}
		single, multi := e.unwrapOnce(err)
		if multi != nil {
			for _, x := range multi {
				if x.T != nil && e.errorsIs(x, target) {
					return true
				}
			}
			return false
		}
		if single == nil || single.T == nil {
			return false
		}
		err = *single
	}
}

func (e *Exec) errorsAs(err, target Iface) bool {
	if err.T == nil {
		return false
	}
	if target.T == nil {
		panic(goPanic{Iface{T: types.Typ[types.String], V: StrV{C: "errors: target cannot be nil"}}})
	}
	pt, ok := under(target.T).(*types.Pointer)
	tp := target.V.(Ptr)
	if !ok || tp.IsNil() {
		panic(goPanic{Iface{T: types.Typ[types.String], V: StrV{C: "errors: target must be a non-nil pointer"}}})
	}
	tt := pt.Elem()
	it, isIface := under(tt).(*types.Interface)
	for {
		if isIface {
			if types.Implements(err.T, it) {
				e.store(tp, err)
				return true
			}
		} else if types.Identical(err.T, tt) {
			e.store(tp, err.V)
			return true
		}
		if m := e.findMethod(err.T, "As"); m != nil && m.Signature.Params().Len() == 1 {
			if b, ok := e.callFn(m, []Value{err.V, target}, nil).(BoolV); ok && e.truth(b) {
				return true
			}
		}
		single, multi := e.unwrapOnce(err)
		if multi != nil {
			for _, x := range multi {
				if x.T != nil && e.errorsAs(x, target) {
					return true
				}
			}
			return false
		}
		if single == nil || single.T == nil {
			return false
		}
		err = *single
	}
}

// render: debugging / log text for a value (symbolic parts shown as SMT terms).
func (e *Exec) render(v Value) string {
	switch x := v.(type) {
	case Iface:
		if x.T == nil {
			return "<nil>"
		}
		s := e.fmtValue(x, 'v')
		return e.render(s)
	case StrV:
		if x.Sym != nil {
			return "‹" + x.Sym.S + "›"
		}
		return x.C
	case IntV:
		if x.Sym != nil {
			return "‹" + x.Sym.S + "›"
		}
		return fmt.Sprint(int64(x.C))
	case BoolV:
		if x.Sym != nil {
			return "‹" + x.Sym.S + "›"
		}
		return fmt.Sprint(x.C)
	case rtError:
		return x.msg
	case nil:
		return "<nil>"
	}
	return e.render(e.fmtTyped(nil, v, 'v'))
}

func (e *Exec) typeString(t types.Type) string {
	return types.TypeString(t, func(p *types.Package) string { return p.Name() })
}
