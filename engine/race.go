package main

import (
	"fmt"
	"strings"
)

// Happens-before race monitor (vector clocks) over the engine's own loads and stores.
type vclock map[int]int

func (v vclock) copy() vclock {
	n := make(vclock, len(v))
	for k, x := range v {
		n[k] = x
	}
	return n
}
func (v vclock) join(o vclock) {
	for k, x := range o {
		if x > v[k] {
			v[k] = x
		}
	}
}

type access struct {
	path  string
	tid   int
	clk   int
	write bool
	where string
}
type shadow struct{ acc []access }

type raceState struct {
	reported map[string]bool
}

func (e *Exec) acquire(vc *vclock) {
	if !e.raceOn || *vc == nil {
		return
	}
	e.sch.cur.vc.join(*vc)
}
func (e *Exec) release(vc *vclock) {
	if !e.raceOn {
		return
	}
	t := e.sch.cur
	if *vc == nil {
		*vc = vclock{}
	}
	vc.join(t.vc)
	t.vc[t.id]++
}

func (e *Exec) atomicVC(p Ptr) *vclock {
	k := "atomic:" + ptrKey(p)
	m := e.mutexes[k]
	if m == nil {
		m = &mutexState{}
		e.mutexes[k] = m
	}
	return &m.vc
}

func overlap(a, b string) bool {
	return strings.HasPrefix(a, b) || strings.HasPrefix(b, a)
}

func (e *Exec) raceAccess(c *Cell, path string, write bool) {
	t := e.sch.cur
	if len(e.sch.threads) == 1 {
		return
	}
	if c.shd == nil {
		c.shd = &shadow{}
	}
	sh := c.shd
	clk := t.vc[t.id]
	kept := sh.acc[:0]
	for _, a := range sh.acc {
		if a.tid == t.id {
			if a.path == path && (a.write == write || write) {
				continue // superseded
			}
			kept = append(kept, a)
			continue
		}
		if overlap(a.path, path) && (a.write || write) && a.clk > t.vc[a.tid] {
			where := e.stack()
			panic(violationFound{fmt.Sprintf("data race: goroutine g%d %s and goroutine g%d %s the same memory (cell %d%s) without happens-before ordering; now at %s; earlier at %s",
				t.id, rw(write), a.tid, rw(a.write), c.id, path, where, a.where)})
		}
		if a.clk <= t.vc[a.tid] && overlap(a.path, path) && write {
			continue // ordered before this write: no longer needed
		}
		kept = append(kept, a)
	}
	where := ""
	if len(t.stack) > 0 {
		where = t.stack[len(t.stack)-1].fn.String()
	}
	sh.acc = append(kept, access{path, t.id, clk, write, where})
}

func rw(w bool) string {
	if w {
		return "writes"
	}
	return "reads"
}

func (e *Exec) raceMap(m *MapObj, write bool) {
	if !e.raceOn || m == nil {
		return
	}
	if m.cell == nil {
		m.cell = &Cell{id: m.id}
	}
	e.raceAccess(m.cell, "", write)
}
