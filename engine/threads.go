package main

import (
	"fmt"
	"go/types"

	"golang.org/x/tools/go/ssa"
)

// Cooperative threads: each interpreted goroutine is a host goroutine; exactly one runs at a time.
type Thread struct {
	id                int
	resume            chan struct{}
	done              bool
	pred              func() bool // nil = runnable
	blockedOn         string
	stack             []*frame
	pendingDeferPanic *panicState
	waitRecv          []*ChanObj
	vc                vclock
	spawnSite         string
}

type schedState struct {
	threads    []*Thread
	cur        *Thread
	preempts   int
	maxPreempt int
	delayBound int // >= 0: delay-bounded scheduling (deterministic default choice, at most delayBound deviations)
	delays     int
	aborted    interface{}
	schedPts   int
	finished   bool
}

func (e *Exec) initThreads(maxPreempt int) {
	main := &Thread{id: 0, resume: make(chan struct{}, 1), vc: vclock{0: 1}}
	e.sch = &schedState{threads: []*Thread{main}, cur: main, maxPreempt: maxPreempt, delayBound: -1}
}

func (t *Thread) enabled() bool { return !t.done && (t.pred == nil || t.pred()) }

// yield is called by the running thread before a synchronisation operation whose
// enabledness is pred (nil = always enabled). Returns when this thread is scheduled and pred holds.
func (e *Exec) yield(pred func() bool, what string) {
	s := e.sch
	me := s.cur
	if e.aloneNow() {
		// single-threaded fast path
		if pred != nil && !pred() {
			me.blockedOn = what
			panic(violationFound{"deadlock: the only goroutine blocks forever on " + what + " at " + e.stack()})
		}
		return
	}
	me.pred = pred
	me.blockedOn = what
	s.schedPts++
	for {
		var opts []*Thread
		meEnabled := me.enabled()
		if meEnabled {
			opts = append(opts, me)
		}
		if s.delayBound >= 0 {
			for _, t := range s.threads {
				if t != me && t.enabled() {
					opts = append(opts, t)
				}
			}
			if s.delays >= s.delayBound && len(opts) > 1 {
				opts = opts[:1]
			}
		} else if !meEnabled || s.preempts < s.maxPreempt {
			for _, t := range s.threads {
				if t != me && t.enabled() {
					opts = append(opts, t)
				}
			}
		}
		if len(opts) == 0 {
			panic(violationFound{"deadlock: no goroutine can proceed; " + e.blockedSummary()})
		}
		k := 0
		if len(opts) > 1 && !e.fifoSched {
			k = e.choose(len(opts), "sched")
			if s.delayBound >= 0 && k > 0 {
				s.delays++
			}
		}
		next := opts[k]
		if next == me {
			me.pred = nil
			me.waitRecv = nil
			return
		}
		if meEnabled {
			s.preempts++
		}
		e.switchTo(me, next)
		if me.enabled() {
			me.pred = nil
			me.waitRecv = nil
			return
		}
	}
}

func (e *Exec) aloneNow() bool {
	for _, t := range e.sch.threads {
		if t != e.sch.cur && !t.done {
			return false
		}
	}
	return true
}

func (e *Exec) switchTo(me, next *Thread) {
	s := e.sch
	s.cur = next
	next.resume <- struct{}{}
	<-me.resume
	if s.aborted != nil {
		panic(threadAbort{})
	}
	s.cur = me
}

func (e *Exec) blockedSummary() string {
	r := ""
	for _, t := range e.sch.threads {
		if !t.done {
			top := ""
			if len(t.stack) > 0 {
				top = t.stack[len(t.stack)-1].fn.String()
			}
			r += fmt.Sprintf("[g%d blocked on %s in %s] ", t.id, t.blockedOn, top)
		}
	}
	return r
}

func (e *Exec) spawn(fnv Value, args []Value, site string) {
	s := e.sch
	parent := s.cur
	t := &Thread{id: len(s.threads), resume: make(chan struct{}, 1), spawnSite: site}
	t.vc = parent.vc.copy()
	t.vc[t.id] = 1
	parent.vc[parent.id]++
	s.threads = append(s.threads, t)
	main := s.threads[0]
	go func() {
		<-t.resume
		if s.aborted != nil {
			return
		}
		s.cur = t
		defer func() {
			if r := recover(); r != nil {
				if _, ok := r.(threadAbort); ok {
					return
				}
				if gp, ok := r.(goPanic); ok {
					r = violationFound{"uncaught panic in goroutine (process would crash): " + e.render(gp.v)}
				}
				if s.aborted == nil {
					s.aborted = r
				}
				t.done = true
				main.resume <- struct{}{}
				return
			}
		}()
		e.call(fnv, args)
		t.done = true
		e.exitThread(t)
	}()
	e.yield(nil, "go") // spawn is a scheduling point
}

func (e *Exec) exitThread(t *Thread) {
	s := e.sch
	var opts []*Thread
	for _, o := range s.threads {
		if o.enabled() {
			opts = append(opts, o)
		}
	}
	if len(opts) == 0 {
		if s.finished {
			// harness body finished and is collecting leftovers: hand back to main
			s.threads[0].resume <- struct{}{}
			return
		}
		panic(violationFound{"deadlock: all remaining goroutines blocked; " + e.blockedSummary()})
	}
	k := 0
	if s.delayBound >= 0 && s.delays >= s.delayBound && len(opts) > 1 {
		opts = opts[:1]
	}
	if len(opts) > 1 && !e.fifoSched {
		k = e.choose(len(opts), "sched")
		if s.delayBound >= 0 && k > 0 {
			s.delays++
		}
	}
	s.cur = opts[k]
	opts[k].resume <- struct{}{}
}

// quiesce: main waits until every other thread has finished; a thread that can never proceed is a leak.
func (e *Exec) quiesce() {
	s := e.sch
	me := s.cur
	if me.id != 0 {
		panic("vquiesce must be called from the harness goroutine")
	}
	for {
		all := true
		for _, t := range s.threads[1:] {
			if !t.done {
				all = false
			}
		}
		if all {
			// like a join: everything the finished goroutines did happens-before what follows
			for _, t := range s.threads[1:] {
				me.vc.join(t.vc)
			}
			return
		}
		anyEnabled := false
		for _, t := range s.threads[1:] {
			if t.enabled() {
				anyEnabled = true
			}
		}
		if !anyEnabled {
			panic(violationFound{"goroutine leak: blocked forever after the run finished; " + e.blockedSummary()})
		}
		// let the others run; main is enabled only when nobody else is
		e.yield(func() bool {
			for _, t := range s.threads[1:] {
				if t.enabled() {
					return false
				}
			}
			return true
		}, "quiesce")
	}
}

// ---------------------------------------------------------------- sync models

type mutexState struct {
	locked bool
	owner  int
	vc     vclock
	rlocks int
}
type onceState struct {
	done, running bool
	vc            vclock
}
type wgState struct {
	n  int
	vc vclock
}

func ptrKey(p Ptr) string { return fmt.Sprintf("%d%s", p.C.id, p.Path) }

func (e *Exec) mutex(p Ptr) *mutexState {
	k := ptrKey(p)
	m := e.mutexes[k]
	if m == nil {
		m = &mutexState{}
		e.mutexes[k] = m
	}
	return m
}

// condState models a sync.Cond: Signal is treated like Broadcast (every waiter re-checks its condition, which the
// contract of Cond.Wait makes callers do anyway)
type condState struct {
	locker Value
	gen    int
	vc     vclock
}

func (e *Exec) condLock(cs *condState, lock bool) {
	v := cs.locker
	if i, ok := v.(Iface); ok {
		v = i.V
	}
	p, ok := v.(Ptr)
	if !ok {
		panic(unsupported{"sync.Cond with a locker that is not a *sync.Mutex / *sync.RWMutex"})
	}
	if lock {
		e.syncIntrinsic("(*sync.Mutex).Lock", []Value{p})
	} else {
		e.syncIntrinsic("(*sync.Mutex).Unlock", []Value{p})
	}
}

func (e *Exec) syncIntrinsic(name string, args []Value) (Value, bool) {
	switch name {
	case "(*sync.Cond).Wait":
		cs := e.conds[ptrKey(args[0].(Ptr))]
		if cs == nil {
			panic(unsupported{"sync.Cond not created by sync.NewCond"})
		}
		g := cs.gen
		e.condLock(cs, false)
		e.yield(func() bool { return cs.gen != g }, "Cond.Wait")
		e.acquire(&cs.vc)
		e.condLock(cs, true)
		return nil, true
	case "(*sync.Cond).Signal", "(*sync.Cond).Broadcast":
		cs := e.conds[ptrKey(args[0].(Ptr))]
		if cs == nil {
			panic(unsupported{"sync.Cond not created by sync.NewCond"})
		}
		e.release(&cs.vc)
		cs.gen++
		return nil, true
	case "(*sync.Mutex).Lock", "(*sync.RWMutex).Lock":
		m := e.mutex(args[0].(Ptr))
		e.yield(func() bool { return !m.locked && m.rlocks == 0 }, "Mutex.Lock")
		m.locked = true
		m.owner = e.sch.cur.id
		e.acquire(&m.vc)
		return nil, true
	case "(*sync.Mutex).TryLock":
		m := e.mutex(args[0].(Ptr))
		e.yield(nil, "Mutex.TryLock")
		if m.locked {
			return BoolV{C: false}, true
		}
		m.locked = true
		e.acquire(&m.vc)
		return BoolV{C: true}, true
	case "(*sync.Mutex).Unlock", "(*sync.RWMutex).Unlock":
		m := e.mutex(args[0].(Ptr))
		if !m.locked {
			panic(goPanic{Iface{T: types.Typ[types.String], V: StrV{C: "fatal error: sync: unlock of unlocked mutex"}}})
		}
		e.release(&m.vc)
		m.locked = false
		return nil, true
	case "(*sync.RWMutex).RLock":
		m := e.mutex(args[0].(Ptr))
		e.yield(func() bool { return !m.locked }, "RWMutex.RLock")
		m.rlocks++
		e.acquire(&m.vc)
		return nil, true
	case "(*sync.RWMutex).RUnlock":
		m := e.mutex(args[0].(Ptr))
		e.release(&m.vc)
		m.rlocks--
		return nil, true
	case "(*sync.Once).Do":
		p := args[0].(Ptr)
		k := ptrKey(p)
		o := e.onces[k]
		if o == nil {
			o = &onceState{}
			e.onces[k] = o
		}
		e.yield(func() bool { return !o.running }, "Once.Do")
		if o.done {
			e.acquire(&o.vc)
			return nil, true
		}
		o.running = true
		func() {
			defer func() {
				o.running = false
				o.done = true
				e.release(&o.vc)
			}()
			e.call(args[1], nil)
		}()
		return nil, true
	case "(*sync.WaitGroup).Add":
		w := e.wg(args[0].(Ptr))
		w.n += int(int64(args[1].(IntV).C))
		if w.n < 0 {
			panic(goPanic{Iface{T: types.Typ[types.String], V: StrV{C: "sync: negative WaitGroup counter"}}})
		}
		return nil, true
	case "(*sync.WaitGroup).Done":
		w := e.wg(args[0].(Ptr))
		e.release(&w.vc)
		w.n--
		if w.n < 0 {
			panic(goPanic{Iface{T: types.Typ[types.String], V: StrV{C: "sync: negative WaitGroup counter"}}})
		}
		return nil, true
	case "(*sync.WaitGroup).Wait":
		w := e.wg(args[0].(Ptr))
		e.yield(func() bool { return w.n == 0 }, "WaitGroup.Wait")
		e.acquire(&w.vc)
		return nil, true
	case "sync/atomic.AddUint32", "sync/atomic.AddInt32", "sync/atomic.AddInt64", "sync/atomic.AddUint64":
		p := args[0].(Ptr)
		e.yield(nil, "atomic")
		bits := 32
		if name[len(name)-2:] == "64" {
			bits = 64
		}
		vc := e.atomicVC(p)
		e.acquire(vc)
		old := loadRaw(p).(IntV)
		d := args[1].(IntV)
		var nv IntV
		if old.Sym == nil && d.Sym == nil {
			nv = IntV{C: trunc(old.C+d.C, bits)}
		} else {
			nv = IntV{Sym: app(bvSort(bits), "bvadd", intTerm(old, bits), intTerm(d, bits))}
		}
		storeRaw(p, nv)
		e.release(vc)
		return nv, true
	case "sync/atomic.LoadUint32", "sync/atomic.LoadInt32", "sync/atomic.LoadInt64", "sync/atomic.LoadUint64":
		p := args[0].(Ptr)
		e.yield(nil, "atomic")
		e.acquire(e.atomicVC(p))
		return loadRaw(p), true
	case "sync/atomic.StoreUint32", "sync/atomic.StoreInt32", "sync/atomic.StoreInt64", "sync/atomic.StoreUint64":
		p := args[0].(Ptr)
		e.yield(nil, "atomic")
		storeRaw(p, args[1])
		e.release(e.atomicVC(p))
		return nil, true
	case "sync/atomic.CompareAndSwapUint32", "sync/atomic.CompareAndSwapInt32", "sync/atomic.CompareAndSwapInt64":
		p := args[0].(Ptr)
		e.yield(nil, "atomic")
		vc := e.atomicVC(p)
		e.acquire(vc)
		old := loadRaw(p).(IntV)
		if e.truth(e.equal(nil, old, args[1])) {
			storeRaw(p, args[2])
			e.release(vc)
			return BoolV{C: true}, true
		}
		return BoolV{C: false}, true
	case "time.Sleep", "runtime.Gosched":
		e.yield(nil, "sleep")
		return nil, true
	}
	return nil, false
}

func (e *Exec) wg(p Ptr) *wgState {
	k := ptrKey(p)
	w := e.wgs[k]
	if w == nil {
		w = &wgState{}
		e.wgs[k] = w
	}
	return w
}

var _ = ssa.BuilderMode(0)
