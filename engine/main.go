package main

import (
	"encoding/json"
	"flag"
	"fmt"
	"os"
	"path/filepath"
	"runtime/debug"
	"sort"
	"strings"
	"sync"
	"time"

	"golang.org/x/tools/go/packages"
	"golang.org/x/tools/go/ssa"
	"golang.org/x/tools/go/ssa/ssautil"
)

// World = loaded program.
type World struct {
	prog     *ssa.Program
	pkg      *ssa.Package
	cfg      Config
	tier     int
	loadS    float64
	deadline time.Time // wall-clock end of the exploration of the current harness; also checked inside paths
}

type Violation struct {
	Harness   string            `json:"harness"`
	Msg       string            `json:"msg"`
	Model     map[string]string `json:"model"`
	Decisions []int             `json:"decisions"`
	Kinds     []string          `json:"kinds"`
	Logs      []string          `json:"logs,omitempty"`
	Count     int               `json:"count"`
	Threads   int               `json:"threads"`
}

type HarnessResult struct {
	Harness       string         `json:"harness"`
	Paths         int            `json:"paths"`
	DecisionPts   int            `json:"decision_points"`
	Ended         map[string]int `json:"ended"`
	PathsWithAsrt int            `json:"paths_ok_with_asserts"`
	Asserts       int            `json:"asserts"`
	AssertsSym    int            `json:"asserts_symbolic"`
	Queries       int            `json:"queries"`
	Sat           int            `json:"sat"`
	Unsat         int            `json:"unsat"`
	Unknown       int            `json:"unknown"`
	SolverS       float64        `json:"solver_s"`
	WallS         float64        `json:"wall_s"`
	Steps         int64          `json:"instructions"`
	Violations    []*Violation   `json:"violations"`
	Inconclusive  []string       `json:"inconclusive"`
	Functions     []string       `json:"functions"`
	Reached       []string       `json:"reached"`
	Samples       []PathSample   `json:"samples"`
	Truncated     bool           `json:"truncated"`
	DecisionKinds map[string]int `json:"decision_kinds"`
	UFs           []string       `json:"uninterpreted_functions"`
	MaxPathLen    int            `json:"max_decisions_on_a_path"`
}

type PathSample struct {
	Decisions []int             `json:"decisions"`
	Kinds     []string          `json:"kinds,omitempty"`
	Model     map[string]string `json:"model,omitempty"`
	Logs      []string          `json:"logs,omitempty"`
	End       string            `json:"end"`
}

type pathResult struct {
	taken    []int
	widths   []int
	kinds    []string
	reason   string
	viol     *Violation
	inconcl  []string
	funcs    map[*ssa.Function]bool
	asserts  int
	asrtSym  int
	steps    int
	reached  map[string]bool
	logs     []string
	model    map[string]string
	ufs      map[string]bool
	replayOK bool
}

func load(dir, pkgPath string, overlay map[string][]byte) (*World, error) {
	t0 := time.Now()
	cfg := &packages.Config{Mode: packages.LoadAllSyntax, Dir: dir, Overlay: overlay,
		Env: append(os.Environ(), "GOFLAGS=-mod=mod", "GOPROXY=off", "GOSUMDB=off", "GOTOOLCHAIN=local")}
	pkgs, err := packages.Load(cfg, pkgPath)
	if err != nil {
		return nil, err
	}
	nerr := 0
	packages.Visit(pkgs, nil, func(p *packages.Package) {
		for _, e := range p.Errors {
			fmt.Fprintln(os.Stderr, "load error:", e)
			nerr++
		}
	})
	if nerr > 0 {
		return nil, fmt.Errorf("%d package errors (harness does not compile against this tree?)", nerr)
	}
	prog, spkgs := ssautil.AllPackages(pkgs, ssa.InstantiateGenerics)
	var wg sync.WaitGroup
	for _, p := range prog.AllPackages() {
		pp := p.Pkg.Path()
		if strings.HasPrefix(pp, "github.com/cloudwego/eino") || pp == "errors" || pp == "fmt" || pp == "container/list" || pp == "context" || pp == "io" || pp == "reflect" {
			wg.Add(1)
			go func(p *ssa.Package) { defer wg.Done(); p.Build() }(p)
		}
	}
	wg.Wait()
	w := &World{prog: prog, pkg: spkgs[0], loadS: time.Since(t0).Seconds()}
	return w, nil
}

func (w *World) runPath(solver *Solver, fn *ssa.Function, dec []int, wantModel bool) (pr pathResult) {
	e := &Exec{w: w, prog: w.prog, solver: solver, decisions: dec, maxSteps: w.cfg.MaxSteps,
		funcs: map[*ssa.Function]bool{}, symCount: map[string]int{}, globals: map[*ssa.Global]*Cell{},
		builders: map[string]StrV{}, mutexes: map[string]*mutexState{}, conds: map[string]*condState{}, onces: map[string]*onceState{},
		wgs: map[string]*wgState{}, mapOrderFn: map[string]bool{}, appendCapFn: map[string]bool{}, reached: map[string]bool{},
		nativeObjs: map[string]Value{}, raceOn: true}
	e.initThreads(w.cfg.MaxPreempt)
	solver.Push()
	reason := "ok"
	func() {
		defer func() {
			if r := recover(); r != nil {
				if e.sch.aborted != nil {
					if _, ok := r.(threadAbort); ok {
						r = e.sch.aborted
					}
				}
				switch x := r.(type) {
				case pathEnd:
					reason = x.reason
				case violationFound, goPanic:
					// validate the path condition (a path entered after an 'unknown' feasibility answer may not exist)
					msg := ""
					if v, ok := x.(violationFound); ok {
						msg = v.msg
					} else {
						msg = "uncaught Go panic: " + e.render(x.(goPanic).v)
					}
					func() {
						defer func() {
							if r2 := recover(); r2 != nil {
								switch y := r2.(type) {
								case pathEnd:
									reason = y.reason
								case inconclusive:
									reason = "INCONCLUSIVE: " + y.what
								default:
									panic(r2)
								}
							}
						}()
						if e.cexModel == nil {
							e.cexModel = e.modelNow()
						}
						reason = "VIOLATION"
						pr.viol = &Violation{Harness: fn.Name(), Msg: msg, Model: e.cexModel}
					}()
				case inconclusive:
					reason = "INCONCLUSIVE: " + x.what
				case unsupported:
					reason = "UNSUPPORTED: " + x.what
				case solverDied:
					reason = "INCONCLUSIVE: " + x.msg
				case threadAbort:
					reason = "aborted"
				default:
					reason = fmt.Sprintf("ENGINE-ERROR: %v\n%s", r, debug.Stack())
				}
			}
		}()
		// package initialisers, then the harness
		e.inInit = true
		e.callFn(w.pkg.Func("init"), nil, nil)
		e.inInit = false
		e.callFn(fn, nil, nil)
		if e.sch.aborted != nil {
			panic(e.sch.aborted)
		}
	}()
	if reason == "ok" && wantModel && len(e.syms) > 0 {
		pr.model = e.modelNow()
	}
	// release parked threads of this path
	if e.sch.aborted == nil {
		e.sch.aborted = threadAbort{}
	}
	for _, t := range e.sch.threads[1:] {
		if !t.done {
			select {
			case t.resume <- struct{}{}:
			default:
			}
		}
	}
	solver.Pop()
	pr.taken, pr.widths, pr.kinds, pr.reason = e.taken, e.widths, e.kinds, reason
	pr.inconcl = e.inconcl
	pr.funcs = e.funcs
	pr.asserts, pr.asrtSym, pr.steps = e.asserts, e.assertsSym, e.steps
	pr.reached = e.reached
	pr.logs = e.vlogs
	pr.ufs = e.uninterp
	if pr.viol != nil {
		pr.viol.Decisions = e.taken
		pr.viol.Kinds = e.kinds
		pr.viol.Logs = e.vlogs
		pr.viol.Threads = len(e.sch.threads)
	}
	return pr
}

func (w *World) explore(fn *ssa.Function, workers, maxPaths int, deadline time.Time, seed int64) *HarnessResult {
	w.deadline = deadline
	t0 := time.Now()
	res := &HarnessResult{Harness: fn.Name(), Ended: map[string]int{}, DecisionKinds: map[string]int{}}
	var mu sync.Mutex
	cond := sync.NewCond(&mu)
	queue := [][]int{{}}
	active := 0
	stop := false
	funcs := map[*ssa.Function]bool{}
	reached := map[string]bool{}
	ufs := map[string]bool{}
	viols := map[string]*Violation{}
	inconcl := map[string]int{}
	var wg sync.WaitGroup
	for i := 0; i < workers; i++ {
		wg.Add(1)
		go func(wid int) {
			defer wg.Done()
			solver := NewSolver(w.cfg.SolverBin, w.cfg.SolverTimeMs)
			defer func() {
				mu.Lock()
				res.Queries += solver.Queries
				res.Sat += solver.Sat
				res.Unsat += solver.Unsat
				res.Unknown += solver.Unknown
				res.SolverS += solver.Time.Seconds()
				mu.Unlock()
				solver.Close()
			}()
			for {
				mu.Lock()
				for len(queue) == 0 && active > 0 && !stop {
					cond.Wait()
				}
				if stop || (len(queue) == 0 && active == 0) {
					mu.Unlock()
					cond.Broadcast()
					return
				}
				dec := queue[len(queue)-1]
				queue = queue[:len(queue)-1]
				active++
				npaths := res.Paths
				mu.Unlock()

				wantModel := npaths < 3
				pr := w.runPath(solver, fn, dec, wantModel)
				if strings.HasPrefix(pr.reason, "INCONCLUSIVE: solver died") {
					solver.Close()
					solver = NewSolver(w.cfg.SolverBin, w.cfg.SolverTimeMs)
				}

				mu.Lock()
				active--
				res.Paths++
				res.Steps += int64(pr.steps)
				res.DecisionPts += len(pr.taken) - len(dec)
				if len(pr.taken) > res.MaxPathLen {
					res.MaxPathLen = len(pr.taken)
				}
				for i := len(dec); i < len(pr.kinds); i++ {
					k := pr.kinds[i]
					if j := strings.IndexByte(k, ':'); j > 0 {
						k = k[:j]
					}
					res.DecisionKinds[k]++
				}
				key := pr.reason
				if j := strings.IndexByte(key, '\n'); j > 0 {
					key = key[:j]
				}
				res.Ended[key]++
				res.Asserts += pr.asserts
				res.AssertsSym += pr.asrtSym
				if pr.reason == "ok" && pr.asserts > 0 {
					res.PathsWithAsrt++
				}
				for f := range pr.funcs {
					funcs[f] = true
				}
				for r := range pr.reached {
					reached[r] = true
				}
				for r := range pr.ufs {
					ufs[r] = true
				}
				for _, ic := range pr.inconcl {
					inconcl[ic]++
				}
				switch {
				case strings.HasPrefix(pr.reason, "UNSUPPORTED"), strings.HasPrefix(pr.reason, "ENGINE-ERROR"),
					strings.HasPrefix(pr.reason, "INCONCLUSIVE"), strings.HasPrefix(pr.reason, "unwind"):
					inconcl[pr.reason]++
				}
				if pr.viol != nil {
					if v, ok := viols[pr.viol.Msg]; ok {
						v.Count++
					} else {
						pr.viol.Count = 1
						viols[pr.viol.Msg] = pr.viol
					}
				}
				if len(res.Samples) < 3 && (pr.reason == "ok" || pr.viol != nil) {
					res.Samples = append(res.Samples, PathSample{Decisions: pr.taken, Kinds: pr.kinds, Model: pr.model, Logs: pr.logs, End: key})
				}
				for i := len(dec); i < len(pr.taken); i++ {
					for alt := pr.taken[i] + 1; alt < pr.widths[i]; alt++ {
						nd := make([]int, i+1)
						copy(nd, pr.taken[:i])
						nd[i] = alt
						queue = append(queue, nd)
					}
				}
				if res.Paths >= maxPaths || time.Now().After(deadline) {
					if len(queue) > 0 || active > 0 {
						res.Truncated = true
					}
					stop = true
				}
				mu.Unlock()
				cond.Broadcast()
			}
		}(i)
	}
	wg.Wait()
	for f := range funcs {
		res.Functions = append(res.Functions, f.String())
	}
	sort.Strings(res.Functions)
	for r := range reached {
		res.Reached = append(res.Reached, r)
	}
	sort.Strings(res.Reached)
	for r := range ufs {
		res.UFs = append(res.UFs, r)
	}
	sort.Strings(res.UFs)
	for _, v := range viols {
		res.Violations = append(res.Violations, v)
	}
	sort.Slice(res.Violations, func(i, j int) bool { return res.Violations[i].Msg < res.Violations[j].Msg })
	for k, n := range inconcl {
		res.Inconclusive = append(res.Inconclusive, fmt.Sprintf("%s (x%d)", k, n))
	}
	sort.Strings(res.Inconclusive)
	if res.Truncated {
		res.Inconclusive = append(res.Inconclusive, fmt.Sprintf("exploration truncated at %d paths / deadline: bound too small for this harness", res.Paths))
	}
	res.WallS = time.Since(t0).Seconds()
	return res
}

func main() {
	repo := flag.String("repo", "/repo", "repository root")
	pkgPath := flag.String("pkg", "github.com/cloudwego/eino/compose", "package under test")
	harness := flag.String("harness", "", "comma separated harness functions")
	ovDir := flag.String("overlay", "", "directory whose *.go files are overlaid into the package directory")
	rtFile := flag.String("rt", "", "harness runtime stub file (package clause is rewritten)")
	only := flag.String("only", "", "comma separated file-name prefixes: overlay only matching files of the overlay directory")
	solverBin := flag.String("solver", "z3-new", "solver binary")
	workers := flag.Int("workers", 16, "")
	maxPaths := flag.Int("maxpaths", 200000, "")
	maxPre := flag.Int("preempt", 2, "")
	maxSteps := flag.Int("maxsteps", 2000000, "")
	timeoutS := flag.Int("timeout", 600, "wall clock budget per harness (s); in the quick tier the whole invocation gets at most twice this")
	solverMs := flag.Int("solver-ms", 10000, "")
	tier := flag.Int("tier", 0, "0 quick, 1 thorough")
	out := flag.String("out", "", "result JSON file")
	replay := flag.String("replay", "", "comma separated decision list: run exactly this path of the (single) harness verbosely")
	flag.Parse()
	t0 := time.Now()

	mod := "github.com/cloudwego/eino"
	rel := strings.TrimPrefix(strings.TrimPrefix(*pkgPath, mod), "/")
	pkgDir := filepath.Join(*repo, rel)
	pkgName := ""
	ov := map[string][]byte{}
	if *ovDir != "" {
		files, _ := filepath.Glob(filepath.Join(*ovDir, "*.go"))
		for _, f := range files {
			b, err := os.ReadFile(f)
			if err != nil {
				panic(err)
			}
			if strings.HasSuffix(f, "_test.go") {
				continue
			}
			if *only != "" {
				keep := false
				for _, p := range strings.Split(*only, ",") {
					if strings.HasPrefix(filepath.Base(f), strings.TrimSpace(p)) {
						keep = true
					}
				}
				if !keep {
					continue
				}
			}
			ov[filepath.Join(pkgDir, filepath.Base(f))] = b
			for _, l := range strings.Split(string(b), "\n") {
				if strings.HasPrefix(l, "package ") {
					pkgName = strings.TrimSpace(strings.TrimPrefix(l, "package "))
					break
				}
			}
		}
	}
	if *rtFile != "" {
		b, err := os.ReadFile(*rtFile)
		if err != nil {
			panic(err)
		}
		s := strings.Replace(string(b), "package PKG", "package "+pkgName, 1)
		ov[filepath.Join(pkgDir, "zz_verif_rt.go")] = []byte(s)
	}
	w, err := load(*repo, *pkgPath, ov)
	for attempt := 0; err != nil && attempt < 2; attempt++ {
		// a concurrent run may have trimmed the go build cache while the packages were being loaded: once more
		time.Sleep(3 * time.Second)
		w, err = load(*repo, *pkgPath, ov)
	}
	if err != nil {
		fmt.Fprintln(os.Stderr, "LOAD-FAILED:", err)
		os.Exit(3)
	}
	w.cfg = Config{MaxSteps: *maxSteps, MaxPreempt: *maxPre, SolverBin: *solverBin, SolverTimeMs: *solverMs}
	w.tier = *tier
	fmt.Fprintf(os.Stderr, "loaded+built SSA in %.1fs\n", time.Since(t0).Seconds())

	var results []*HarnessResult
	for _, h := range strings.Split(*harness, ",") {
		h = strings.TrimSpace(h)
		if h == "" {
			continue
		}
		fn := w.pkg.Func(h)
		if fn == nil {
			fmt.Fprintln(os.Stderr, "no harness function", h)
			os.Exit(3)
		}
		if *replay != "" {
			var dec []int
			for _, s := range strings.Split(*replay, ",") {
				var d int
				fmt.Sscanf(strings.TrimSpace(s), "%d", &d)
				dec = append(dec, d)
			}
			if *replay == "-" {
				dec = nil
			}
			solver := NewSolver(w.cfg.SolverBin, w.cfg.SolverTimeMs)
			pr := w.runPath(solver, fn, dec, true)
			b, _ := json.MarshalIndent(map[string]interface{}{"end": pr.reason, "violation": pr.viol, "logs": pr.logs, "model": pr.model, "decisions": pr.taken, "kinds": pr.kinds, "inconclusive": pr.inconcl}, "", " ")
			fmt.Println(string(b))
			solver.Close()
			continue
		}
		dl := time.Now().Add(time.Duration(*timeoutS) * time.Second)
		if g := t0.Add(2 * time.Duration(*timeoutS) * time.Second); *tier == 0 && dl.After(g) {
			dl = g // quick tier: the whole invocation is bounded; the thorough tier keeps the per-harness budgets
		}
		r := w.explore(fn, *workers, *maxPaths, dl, 0)
		results = append(results, r)
		fmt.Fprintf(os.Stderr, "%-40s paths=%d ended=%v viol=%d inconcl=%d queries=%d solver=%.1fs wall=%.1fs\n", h, r.Paths, r.Ended, len(r.Violations), len(r.Inconclusive), r.Queries, r.SolverS, r.WallS)
	}
	outv := map[string]interface{}{"package": *pkgPath, "load_s": w.loadS, "wall_s": time.Since(t0).Seconds(), "results": results, "solver": *solverBin, "tier": *tier}
	b, _ := json.MarshalIndent(outv, "", " ")
	if *out != "" {
		os.WriteFile(*out, b, 0o644)
	} else if *replay == "" {
		fmt.Println(string(b))
	}
}
