package main

import (
	"go/types"

	"golang.org/x/tools/go/ssa"
)

// ChanObj: bounded FIFO channel model. Unbuffered channels (cap 0) let a send proceed only when
// some other goroutine is blocked receiving from the channel; the item is then handed over through buf.
type ChanObj struct {
	buf    []Value
	cap    int
	closed bool
	et     types.Type
	id     int
	vcs    []vclock // per buffered item: sender's clock
	closeV vclock
}

func (e *Exec) newChan(et types.Type, n int) *ChanObj {
	e.chanCount++
	return &ChanObj{cap: n, et: et, id: e.chanCount}
}

func (c *ChanObj) recvReady() bool { return c != nil && (len(c.buf) > 0 || c.closed) }

func (e *Exec) hasWaitingReceiver(c *ChanObj, me *Thread) bool {
	for _, t := range e.sch.threads {
		if t == me || t.done || t.pred == nil {
			continue
		}
		for _, w := range t.waitRecv {
			if w == c {
				return true
			}
		}
	}
	return false
}

// sendReady: may the current thread complete a send on c now? (panics for closed channels are raised by the caller)
func (e *Exec) sendReady(c *ChanObj, self *Thread) bool {
	if c == nil {
		return false
	}
	if c.closed {
		return true // will panic
	}
	if c.cap == 0 {
		return len(c.buf) == 0 && e.hasWaitingReceiver(c, self)
	}
	return len(c.buf) < c.cap
}

func (e *Exec) doSend(c *ChanObj, v Value) {
	if c.closed {
		panic(goPanic{rtErr("send on closed channel")})
	}
	c.buf = append(c.buf, copyVal(v))
	var vc vclock
	if e.raceOn {
		t := e.sch.cur
		vc = t.vc.copy()
		t.vc[t.id]++
	}
	c.vcs = append(c.vcs, vc)
}

func (e *Exec) doRecv(c *ChanObj) (Value, bool) {
	if len(c.buf) > 0 {
		v := c.buf[0]
		c.buf = c.buf[1:]
		vc := c.vcs[0]
		c.vcs = c.vcs[1:]
		if e.raceOn && vc != nil {
			e.sch.cur.vc.join(vc)
		}
		return v, true
	}
	if c.closed {
		if e.raceOn && c.closeV != nil {
			e.sch.cur.vc.join(c.closeV)
		}
		return zero(c.et), false
	}
	panic("doRecv on non-ready channel")
}

func (e *Exec) chanRecv(c *ChanObj, commaOk bool) Value {
	me := e.sch.cur
	if c != nil {
		me.waitRecv = []*ChanObj{c}
	}
	e.yield(func() bool { return c.recvReady() }, "chan receive")
	me.waitRecv = nil
	v, ok := e.doRecv(c)
	if commaOk {
		return Tuple{v, BoolV{C: ok}}
	}
	return v
}

func (e *Exec) chanClose(c *ChanObj) {
	if c == nil {
		panic(goPanic{rtErr("close of nil channel")})
	}
	if c.closed {
		panic(goPanic{rtErr("close of closed channel")})
	}
	e.yield(nil, "close")
	if c.closed {
		panic(goPanic{rtErr("close of closed channel")})
	}
	c.closed = true
	if e.raceOn {
		t := e.sch.cur
		c.closeV = t.vc.copy()
		t.vc[t.id]++
	}
}

func (e *Exec) visitChan(fr *frame, instr ssa.Instruction) bool {
	switch ins := instr.(type) {
	case *ssa.MakeChan:
		n := e.concretize(e.get(fr, ins.Size).(IntV), 64, 0, 16)
		e.set(fr, ins, e.newChan(under(ins.Type()).(*types.Chan).Elem(), n))
		return true
	case *ssa.Send:
		c, _ := e.get(fr, ins.Chan).(*ChanObj)
		self := e.sch.cur
		e.yield(func() bool { return e.sendReady(c, self) }, "chan send")
		e.doSend(c, e.get(fr, ins.X))
		return true
	case *ssa.Select:
		e.set(fr, ins, e.doSelect(fr, ins))
		return true
	case *ssa.Go:
		fnv, args := e.prepareCall(fr, &ins.Call)
		if nm, ok := fnv.(nativeMethod); ok {
			f := nm
			fnv = nativeFn{name: nm.m, f: func(e *Exec, a []Value) Value { return e.nativeMethodCall(f, a) }}
		}
		e.spawn(fnv, args, fr.fn.String())
		return true
	}
	return false
}

type selCase struct {
	c    *ChanObj
	send bool
	val  Value
}

func (e *Exec) selectReady(cases []selCase, self *Thread) []int {
	var ready []int
	for i, sc := range cases {
		if sc.send {
			if e.sendReady(sc.c, self) {
				ready = append(ready, i)
			}
		} else if sc.c.recvReady() {
			ready = append(ready, i)
		}
	}
	return ready
}

// runSelect performs the choice; returns chosen index (-1 = default), received value and ok flag.
func (e *Exec) runSelect(cases []selCase, blocking bool) (int, Value, bool) {
	me := e.sch.cur
	var wr []*ChanObj
	for _, sc := range cases {
		if !sc.send && sc.c != nil {
			wr = append(wr, sc.c)
		}
	}
	if blocking {
		me.waitRecv = wr
		e.yield(func() bool { return len(e.selectReady(cases, me)) > 0 }, "select")
	} else {
		e.yield(nil, "select(default)")
	}
	me.waitRecv = nil
	ready := e.selectReady(cases, me)
	if len(ready) == 0 {
		if blocking {
			panic("select: nothing ready after yield")
		}
		return -1, nil, false
	}
	idx := ready[0]
	if len(ready) > 1 && !e.selectFirst {
		idx = ready[e.choose(len(ready), "select")]
	}
	sc := cases[idx]
	if sc.send {
		e.doSend(sc.c, sc.val)
		return idx, nil, false
	}
	v, ok := e.doRecv(sc.c)
	return idx, v, ok
}

func (e *Exec) doSelect(fr *frame, ins *ssa.Select) Value {
	cases := make([]selCase, len(ins.States))
	for i, st := range ins.States {
		c, _ := e.get(fr, st.Chan).(*ChanObj)
		cases[i] = selCase{c: c, send: st.Dir == types.SendOnly}
		if cases[i].send {
			cases[i].val = e.get(fr, st.Send)
		}
	}
	idx, v, ok := e.runSelect(cases, ins.Blocking)
	res := Tuple{IntV{C: uint64(int64(idx))}, BoolV{C: ok}}
	for i, st := range ins.States {
		if st.Dir == types.RecvOnly {
			var rv Value = zero(under(st.Chan.Type()).(*types.Chan).Elem())
			if i == idx {
				rv = v
			}
			res = append(res, rv)
		}
	}
	return res
}
