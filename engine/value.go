package main

import (
	"fmt"
	"go/types"
	"strconv"
	"strings"

	"golang.org/x/tools/go/ssa"
)

// Value universe:
//   IntV, BoolV, StrV, float64, complex128
//   *StructV (value semantics: copied on load/store), *ArrayV (same)
//   Ptr, SliceV, *MapObj (nil = nil map), Iface, *Closure, *ssa.Function, *ssa.Builtin
//   *ChanObj (nil = nil chan), Tuple, *MapIter, nil (zero func / untyped nil)
//   native model objects: RType, RValue, *CtxObj
type Value interface{}

type IntV struct {
	C   uint64 // concrete payload (truncated to width) if Sym == nil
	Sym *Term
}
type BoolV struct {
	C   bool
	Sym *Term
}
type StrV struct {
	C   string
	Sym *Term
}
type StructV struct{ F []Value }
type ArrayV struct{ E []Value }

// Cell is an addressable memory object.
type Cell struct {
	V   Value
	id  int
	shd *shadow // race-monitor metadata (lazily allocated)
}

// Ptr = base cell + path of field/element indices into nested StructV/ArrayV.
type Ptr struct {
	C    *Cell
	Path string // "/1/0" for comparability
	path []int
}

func (p Ptr) IsNil() bool { return p.C == nil }

type SliceV struct {
	Arr           *Cell // holds *ArrayV
	Off, Len, Cap int
}
type MapEntry struct {
	K, V Value
}
type MapObj struct {
	E    []*MapEntry
	id   int
	site string // allocation site (function name), used for order marking
	kt   types.Type
	cell *Cell // pseudo cell for race monitor
}
type Iface struct {
	T types.Type // nil => nil interface
	V Value
}
type Closure struct {
	Fn  *ssa.Function
	Env []Value
	id  int
}
type Tuple []Value
type MapIter struct {
	M     *MapObj
	order []int
	snap  []*MapEntry
	pos   int
	str   *StrV
}

func under(t types.Type) types.Type { return t.Underlying() }

func intBits(t types.Type) (bits int, signed bool, ok bool) {
	b, isb := under(t).(*types.Basic)
	if !isb {
		return 0, false, false
	}
	switch b.Kind() {
	case types.Int, types.Int64, types.UntypedInt:
		return 64, true, true
	case types.Int32, types.UntypedRune:
		return 32, true, true
	case types.Int16:
		return 16, true, true
	case types.Int8:
		return 8, true, true
	case types.Uint, types.Uint64, types.Uintptr:
		return 64, false, true
	case types.Uint32:
		return 32, false, true
	case types.Uint16:
		return 16, false, true
	case types.Uint8:
		return 8, false, true
	}
	return 0, false, false
}

func isFloat(t types.Type) bool {
	b, ok := under(t).(*types.Basic)
	return ok && b.Info()&types.IsFloat != 0
}
func isString(t types.Type) bool {
	b, ok := under(t).(*types.Basic)
	return ok && b.Info()&types.IsString != 0
}

func trunc(v uint64, bits int) uint64 {
	if bits >= 64 {
		return v
	}
	return v & ((1 << uint(bits)) - 1)
}
func sext(v uint64, bits int) int64 {
	if bits >= 64 {
		return int64(v)
	}
	sh := uint(64 - bits)
	return int64(v<<sh) >> sh
}

func isNamed(t types.Type, pkg, name string) bool {
	n, ok := t.(*types.Named)
	if !ok {
		return false
	}
	o := n.Obj()
	return o.Name() == name && o.Pkg() != nil && o.Pkg().Path() == pkg
}

func zero(t types.Type) Value {
	if n, ok := t.(*types.Named); ok {
		if o := n.Obj(); o.Pkg() != nil && o.Pkg().Path() == "reflect" && o.Name() == "Value" {
			return RValue{}
		}
	}
	switch u := under(t).(type) {
	case *types.Basic:
		switch {
		case u.Info()&types.IsBoolean != 0:
			return BoolV{}
		case u.Info()&types.IsInteger != 0:
			return IntV{}
		case u.Info()&types.IsString != 0:
			return StrV{}
		case u.Info()&types.IsFloat != 0:
			return float64(0)
		case u.Info()&types.IsComplex != 0:
			return complex128(0)
		case u.Kind() == types.UnsafePointer:
			return Ptr{}
		case u.Kind() == types.UntypedNil:
			return nil
		}
	case *types.Struct:
		s := &StructV{F: make([]Value, u.NumFields())}
		for i := range s.F {
			s.F[i] = zero(u.Field(i).Type())
		}
		return s
	case *types.Array:
		a := &ArrayV{E: make([]Value, u.Len())}
		for i := range a.E {
			a.E[i] = zero(u.Elem())
		}
		return a
	case *types.Pointer:
		return Ptr{}
	case *types.Slice:
		return SliceV{}
	case *types.Map:
		return (*MapObj)(nil)
	case *types.Interface:
		return Iface{}
	case *types.Signature:
		return nil
	case *types.Chan:
		return (*ChanObj)(nil)
	case *types.Tuple:
		tt := make(Tuple, u.Len())
		for i := range tt {
			tt[i] = zero(u.At(i).Type())
		}
		return tt
	case *types.TypeParam:
		panic(unsupported{"zero of type parameter " + t.String()})
	}
	panic(fmt.Sprintf("zero: %v (%T)", t, under(t)))
}

// copyVal implements value semantics for aggregates.
func copyVal(v Value) Value {
	switch x := v.(type) {
	case *StructV:
		n := &StructV{F: make([]Value, len(x.F))}
		for i, f := range x.F {
			n.F[i] = copyVal(f)
		}
		return n
	case *ArrayV:
		n := &ArrayV{E: make([]Value, len(x.E))}
		for i, f := range x.E {
			n.E[i] = copyVal(f)
		}
		return n
	case Tuple:
		n := make(Tuple, len(x))
		for i, f := range x {
			n[i] = copyVal(f)
		}
		return n
	}
	return v
}

func mkPtr(c *Cell, path []int) Ptr {
	if len(path) == 0 {
		return Ptr{C: c}
	}
	var sb strings.Builder
	for _, i := range path {
		sb.WriteByte('/')
		sb.WriteString(strconv.Itoa(i))
	}
	return Ptr{C: c, Path: sb.String(), path: path}
}
func (p Ptr) sub(i int) Ptr {
	np := make([]int, len(p.path)+1)
	copy(np, p.path)
	np[len(p.path)] = i
	return Ptr{C: p.C, Path: p.Path + "/" + strconv.Itoa(i), path: np}
}

func loadRaw(p Ptr) Value {
	if p.C == nil {
		panic(goPanic{rtErr("invalid memory address or nil pointer dereference")})
	}
	v := p.C.V
	for _, i := range p.path {
		switch x := v.(type) {
		case *StructV:
			v = x.F[i]
		case *ArrayV:
			if i < 0 || i >= len(x.E) {
				panic(goPanic{rtErr("index out of range")})
			}
			v = x.E[i]
		default:
			panic(fmt.Sprintf("load path through %T", v))
		}
	}
	return v
}

func storeRaw(p Ptr, nv Value) {
	if p.C == nil {
		panic(goPanic{rtErr("invalid memory address or nil pointer dereference")})
	}
	nv = copyVal(nv)
	if len(p.path) == 0 {
		p.C.V = nv
		return
	}
	v := p.C.V
	for k, i := range p.path {
		last := k == len(p.path)-1
		switch x := v.(type) {
		case *StructV:
			if last {
				x.F[i] = nv
			} else {
				v = x.F[i]
			}
		case *ArrayV:
			if i < 0 || i >= len(x.E) {
				panic(goPanic{rtErr("index out of range")})
			}
			if last {
				x.E[i] = nv
			} else {
				v = x.E[i]
			}
		default:
			panic(fmt.Sprintf("store path through %T", v))
		}
	}
}

// goPanic is a Go-level panic raised by interpreted code (runtime error or explicit panic).
// v is the panic value as an interpreted interface value (Iface) where possible.
type goPanic struct{ v Value }

// rtErr builds a runtime-error-like panic payload (rendered as string; typed as runtime.Error marker).
type rtError struct{ msg string }

func rtErr(msg string) Value { return rtError{"runtime error: " + msg} }
