package main

import (
	"go/types"
	"strings"
	"unicode/utf8"

	"golang.org/x/tools/go/ssa"
)

func (e *Exec) newMap(site string, kt types.Type) *MapObj {
	e.nextID++
	return &MapObj{id: e.nextID, site: site, kt: kt}
}

func (e *Exec) findEntry(m *MapObj, kt types.Type, k Value) *MapEntry {
	if m == nil {
		return nil
	}
	if i, ok := k.(Iface); ok && i.T != nil && i.T != rtypeMarker && i.T != ctxMarker && !types.Comparable(i.T) {
		panic(goPanic{rtErr("hash of unhashable type " + i.T.String())})
	}
	for _, en := range m.E {
		if e.truth(e.equal(kt, en.K, k)) {
			return en
		}
	}
	return nil
}

func (e *Exec) lookup(ins *ssa.Lookup, x, k Value) Value {
	if s, ok := x.(StrV); ok {
		if s.Sym != nil {
			panic(unsupported{"index of symbolic string"})
		}
		i := e.indexIn(k.(IntV), ins.Index.Type(), len(s.C))
		return IntV{C: uint64(s.C[i])}
	}
	mt := under(ins.X.Type()).(*types.Map)
	m := x.(*MapObj)
	e.raceMap(m, false)
	en := e.findEntry(m, mt.Key(), k)
	var v Value
	if en != nil {
		v = copyVal(en.V)
	} else {
		v = zero(mt.Elem())
	}
	if ins.CommaOk {
		return Tuple{v, BoolV{C: en != nil}}
	}
	return v
}

func (e *Exec) mapUpdate(m *MapObj, kt types.Type, k, v Value) {
	e.raceMap(m, true)
	if en := e.findEntry(m, kt, k); en != nil {
		en.V = v
		return
	}
	m.E = append(m.E, &MapEntry{K: copyVal(k), V: v})
}

func (e *Exec) orderMarked(fn string) bool {
	if e.mapOrderAll {
		return true
	}
	for k := range e.mapOrderFn {
		if strings.Contains(fn, k) {
			return true
		}
	}
	return false
}

func (e *Exec) permute(n int, kind string) []int {
	order := make([]int, 0, n)
	if n <= 3 {
		rem := make([]int, n)
		for i := range rem {
			rem[i] = i
		}
		for len(rem) > 0 {
			j := 0
			if len(rem) > 1 {
				j = e.choose(len(rem), kind)
			}
			order = append(order, rem[j])
			rem = append(rem[:j:j], rem[j+1:]...)
		}
		return order
	}
	k := e.choose(2*n, kind)
	rot, rev := k%n, k >= n
	for i := 0; i < n; i++ {
		order = append(order, (i+rot)%n)
	}
	if rev {
		for i, j := 0, n-1; i < j; i, j = i+1, j-1 {
			order[i], order[j] = order[j], order[i]
		}
	}
	return order
}

func (e *Exec) mkIter(fr *frame, x Value) Value {
	if s, ok := x.(StrV); ok {
		if s.Sym != nil {
			panic(unsupported{"range over symbolic string"})
		}
		return &MapIter{str: &s}
	}
	m, ok := x.(*MapObj)
	if !ok {
		panic(unsupported{"range over non-map"})
	}
	it := &MapIter{M: m}
	n := 0
	if m != nil {
		e.raceMap(m, false)
		n = len(m.E)
		it.snap = append(it.snap, m.E...)
	}
	if n > 1 && e.orderMarked(fr.fn.String()) {
		it.order = e.permute(n, "maporder:"+fr.fn.Name())
	} else {
		for i := 0; i < n; i++ {
			it.order = append(it.order, i)
		}
	}
	return it
}

func (e *Exec) next(it *MapIter, ins *ssa.Next) Value {
	if it.str != nil {
		s := it.str.C
		if it.pos >= len(s) {
			return Tuple{BoolV{C: false}, IntV{}, IntV{}}
		}
		r, w := utf8.DecodeRuneInString(s[it.pos:])
		i := it.pos
		it.pos += w
		return Tuple{BoolV{C: true}, IntV{C: uint64(i)}, IntV{C: uint64(uint32(r))}}
	}
	for it.pos < len(it.order) {
		en := it.snap[it.order[it.pos]]
		it.pos++
		// skip entries deleted since the iterator was created
		present := false
		for _, cur := range it.M.E {
			if cur == en {
				present = true
				break
			}
		}
		if present {
			return Tuple{BoolV{C: true}, en.K, copyVal(en.V)}
		}
	}
	return Tuple{BoolV{C: false}, nil, nil}
}
