package main

import (
	"fmt"
	"go/types"
	"reflect"
	"strings"

	"golang.org/x/tools/go/ssa"
)

// RType is the interpreter's reflect.Type: a go/types type (canonical up to types.Identical).
type RType struct{ t types.Type }

var rtypeMarker = types.NewNamed(types.NewTypeName(0, nil, "rtype", nil), types.NewStruct(nil, nil), nil)

func mkRType(t types.Type) Value {
	if t == nil {
		return Iface{}
	}
	return Iface{T: rtypeMarker, V: RType{t}}
}

// RValue is the interpreter's reflect.Value.
type RValue struct {
	valid bool
	t     types.Type
	addr  *Ptr  // addressable location, or nil
	v     Value // value when not addressable
	ro    bool  // obtained through an unexported field
}

type rMapIter struct {
	m    *MapObj
	mt   *types.Map
	ents []*MapEntry
	pos  int
}

func (e *Exec) rvGet(x RValue) Value {
	if !x.valid {
		panic(goPanic{rtErr("reflect: call on zero Value")})
	}
	if x.addr != nil {
		return e.load(*x.addr)
	}
	return x.v
}

func kindOf(t types.Type) reflect.Kind {
	switch u := under(t).(type) {
	case *types.Basic:
		switch u.Kind() {
		case types.Bool, types.UntypedBool:
			return reflect.Bool
		case types.Int, types.UntypedInt:
			return reflect.Int
		case types.Int8:
			return reflect.Int8
		case types.Int16:
			return reflect.Int16
		case types.Int32, types.UntypedRune:
			return reflect.Int32
		case types.Int64:
			return reflect.Int64
		case types.Uint:
			return reflect.Uint
		case types.Uint8:
			return reflect.Uint8
		case types.Uint16:
			return reflect.Uint16
		case types.Uint32:
			return reflect.Uint32
		case types.Uint64:
			return reflect.Uint64
		case types.Uintptr:
			return reflect.Uintptr
		case types.Float32:
			return reflect.Float32
		case types.Float64, types.UntypedFloat:
			return reflect.Float64
		case types.Complex64:
			return reflect.Complex64
		case types.Complex128:
			return reflect.Complex128
		case types.String, types.UntypedString:
			return reflect.String
		case types.UnsafePointer:
			return reflect.UnsafePointer
		}
	case *types.Struct:
		return reflect.Struct
	case *types.Pointer:
		return reflect.Ptr
	case *types.Slice:
		return reflect.Slice
	case *types.Array:
		return reflect.Array
	case *types.Map:
		return reflect.Map
	case *types.Interface:
		return reflect.Interface
	case *types.Signature:
		return reflect.Func
	case *types.Chan:
		return reflect.Chan
	}
	panic(fmt.Sprintf("kindOf %v", t))
}

func rtOf(v Value) types.Type {
	i, ok := v.(Iface)
	if !ok || i.T == nil {
		panic(goPanic{rtErr("invalid memory address or nil pointer dereference (nil reflect.Type)")})
	}
	return i.V.(RType).t
}

func rpanic(msg string) {
	panic(goPanic{Iface{T: types.Typ[types.String], V: StrV{C: msg}}})
}

func (e *Exec) reflectIntrinsic(name string, fn *ssa.Function, args []Value) (Value, bool) {
	if !strings.Contains(name, "reflect") {
		return nil, false
	}
	switch name {
	case "reflect.TypeOf", "internal/reflectlite.TypeOf":
		i := args[0].(Iface)
		if i.T == rtypeMarker || i.T == ctxMarker {
			return mkRType(i.T), true
		}
		return mkRType(i.T), true
	case "reflect.ValueOf":
		i := args[0].(Iface)
		if i.T == nil {
			return RValue{}, true
		}
		return RValue{valid: true, t: i.T, v: i.V}, true
	case "reflect.New":
		t := rtOf(args[0])
		c := e.newCell(zero(t))
		return RValue{valid: true, t: types.NewPointer(t), v: Ptr{C: c}}, true
	case "reflect.Zero":
		t := rtOf(args[0])
		return RValue{valid: true, t: t, v: zero(t)}, true
	case "reflect.MakeMap", "reflect.MakeMapWithSize":
		t := rtOf(args[0])
		mt, ok := under(t).(*types.Map)
		if !ok {
			rpanic("reflect.MakeMap of non-map type " + e.typeString(t))
		}
		return RValue{valid: true, t: t, v: e.newMap("reflect.MakeMap", mt.Key())}, true
	case "reflect.MakeSlice":
		t := rtOf(args[0])
		st, ok := under(t).(*types.Slice)
		if !ok {
			rpanic("reflect.MakeSlice of non-slice type")
		}
		n, cp := e.concInt(args[1]), e.concInt(args[2])
		arr := &ArrayV{E: make([]Value, cp)}
		for i := range arr.E {
			arr.E[i] = zero(st.Elem())
		}
		return RValue{valid: true, t: t, v: SliceV{Arr: e.newCell(arr), Len: n, Cap: cp}}, true
	case "reflect.Append":
		s := args[0].(RValue)
		st := under(s.t).(*types.Slice)
		var add []Value
		for _, x := range e.sliceElems(args[1]) {
			xv := x.(RValue)
			add = append(add, e.assignConv(xv, st.Elem(), "reflect.Append"))
		}
		if len(add) == 0 {
			return s, true
		}
		res := e.appendSlice(e.rvGet(s).(SliceV), e.mkSlice(st.Elem(), add), s.t)
		return RValue{valid: true, t: s.t, v: res}, true
	case "reflect.MapOf":
		return mkRType(types.NewMap(rtOf(args[0]), rtOf(args[1]))), true
	case "reflect.SliceOf":
		return mkRType(types.NewSlice(rtOf(args[0]))), true
	case "reflect.ArrayOf":
		n := args[0].(IntV)
		if n.Sym != nil {
			panic(unsupported{"reflect.ArrayOf with a symbolic length"})
		}
		return mkRType(types.NewArray(rtOf(args[1]), int64(n.C))), true
	case "reflect.PointerTo", "reflect.PtrTo":
		return mkRType(types.NewPointer(rtOf(args[0]))), true
	case "reflect.DeepEqual":
		return e.deepEqual(args[0].(Iface), args[1].(Iface)), true
	case "reflect.Select":
		return e.reflectSelect(args[0].(SliceV)), true
	case "reflect.Indirect":
		v := args[0].(RValue)
		if v.valid && kindOf(v.t) == reflect.Ptr {
			return e.rvElem(v), true
		}
		return v, true
	case "(reflect.StructField).IsExported":
		return BoolV{C: args[0].(*StructV).F[1].(StrV).C == ""}, true
	case "(reflect.StructTag).Get":
		return StrV{C: reflect.StructTag(args[0].(StrV).C).Get(args[1].(StrV).C)}, true
	case "(reflect.StructTag).Lookup":
		s, ok := reflect.StructTag(args[0].(StrV).C).Lookup(args[1].(StrV).C)
		return Tuple{StrV{C: s}, BoolV{C: ok}}, true
	case "(reflect.Kind).String":
		return StrV{C: reflect.Kind(args[0].(IntV).C).String()}, true
	case "(*reflect.MapIter).Next":
		it := args[0].(Ptr).C.V.(*rMapIter)
		it.pos++
		return BoolV{C: it.pos <= len(it.ents)}, true
	case "(*reflect.MapIter).Key":
		it := args[0].(Ptr).C.V.(*rMapIter)
		return RValue{valid: true, t: it.mt.Key(), v: it.ents[it.pos-1].K}, true
	case "(*reflect.MapIter).Value":
		it := args[0].(Ptr).C.V.(*rMapIter)
		return RValue{valid: true, t: it.mt.Elem(), v: copyVal(it.ents[it.pos-1].V)}, true
	case "(*reflect.ValueError).Error":
		return StrV{C: "reflect: ValueError"}, true
	}
	if strings.HasPrefix(name, "(reflect.Value).") {
		return e.rvalueMethod(name[len("(reflect.Value)."):], args[0].(RValue), args[1:]), true
	}
	return nil, false
}

// assignConv converts x for assignment to a location of type dst (wrapping into an interface when needed).
func (e *Exec) assignConv(x RValue, dst types.Type, what string) Value {
	if !x.valid {
		rpanic(what + ": zero Value")
	}
	if !types.AssignableTo(x.t, dst) {
		rpanic(fmt.Sprintf("%s: value of type %s is not assignable to type %s", what, e.typeString(x.t), e.typeString(dst)))
	}
	v := e.rvGet(x)
	_, dstIface := under(dst).(*types.Interface)
	_, srcIface := under(x.t).(*types.Interface)
	if dstIface && !srcIface {
		return Iface{T: x.t, V: copyVal(v)}
	}
	return v
}

func (e *Exec) rvElem(v RValue) RValue {
	val := e.rvGet(v)
	switch kindOf(v.t) {
	case reflect.Ptr:
		p := val.(Ptr)
		if p.IsNil() {
			return RValue{}
		}
		return RValue{valid: true, t: under(v.t).(*types.Pointer).Elem(), addr: &p}
	case reflect.Interface:
		i := val.(Iface)
		if i.T == nil {
			return RValue{}
		}
		return RValue{valid: true, t: i.T, v: i.V, ro: v.ro}
	}
	rpanic("reflect: call of reflect.Value.Elem on " + kindOf(v.t).String() + " Value")
	return RValue{}
}

func (e *Exec) structFieldInfo(t types.Type, i int) Value {
	st := under(t).(*types.Struct)
	f := st.Field(i)
	sft := e.prog.ImportedPackage("reflect").Type("StructField").Type()
	sv := zero(sft).(*StructV)
	// Name, PkgPath, Type, Tag, Offset, Index, Anonymous
	sv.F[0] = StrV{C: f.Name()}
	if !f.Exported() && f.Pkg() != nil {
		sv.F[1] = StrV{C: f.Pkg().Path()}
	}
	sv.F[2] = mkRType(f.Type())
	sv.F[3] = StrV{C: st.Tag(i)}
	sv.F[4] = IntV{C: uint64(i * 8)}
	sv.F[5] = e.mkSlice(types.Typ[types.Int], []Value{IntV{C: uint64(i)}})
	sv.F[6] = BoolV{C: f.Embedded()}
	return sv
}

func fieldIndex(t types.Type, name string) int {
	st, ok := under(t).(*types.Struct)
	if !ok {
		return -1
	}
	for i := 0; i < st.NumFields(); i++ {
		if st.Field(i).Name() == name {
			return i
		}
	}
	return -1
}

func (e *Exec) rvField(v RValue, i int) RValue {
	st, ok := under(v.t).(*types.Struct)
	if !ok {
		rpanic("reflect: call of reflect.Value.Field on " + kindOf(v.t).String() + " Value")
	}
	if i < 0 || i >= st.NumFields() {
		rpanic("reflect: Field index out of range")
	}
	f := st.Field(i)
	ro := v.ro || !f.Exported()
	if v.addr != nil {
		p := v.addr.sub(i)
		return RValue{valid: true, t: f.Type(), addr: &p, ro: ro}
	}
	return RValue{valid: true, t: f.Type(), v: copyVal(e.rvGet(v).(*StructV).F[i]), ro: ro}
}

func (e *Exec) rvalueMethod(m string, v RValue, args []Value) Value {
	switch m {
	case "IsValid":
		return BoolV{C: v.valid}
	case "Kind":
		if !v.valid {
			return IntV{C: uint64(reflect.Invalid)}
		}
		return IntV{C: uint64(kindOf(v.t))}
	case "String":
		if !v.valid {
			return StrV{C: "<invalid Value>"}
		}
		if kindOf(v.t) == reflect.String {
			return e.rvGet(v)
		}
		return StrV{C: "<" + e.typeString(v.t) + " Value>"}
	}
	if !v.valid {
		rpanic("reflect: call of reflect.Value." + m + " on zero Value")
	}
	switch m {
	case "Type":
		return mkRType(v.t)
	case "Elem":
		return e.rvElem(v)
	case "Interface":
		if v.ro {
			rpanic("reflect.Value.Interface: cannot return value obtained from unexported field or method")
		}
		val := e.rvGet(v)
		if _, ok := under(v.t).(*types.Interface); ok {
			return val.(Iface)
		}
		return Iface{T: v.t, V: copyVal(val)}
	case "CanInterface":
		return BoolV{C: !v.ro}
	case "CanAddr":
		return BoolV{C: v.addr != nil}
	case "CanSet":
		return BoolV{C: v.addr != nil && !v.ro}
	case "Addr":
		if v.addr == nil {
			rpanic("reflect.Value.Addr of unaddressable value")
		}
		return RValue{valid: true, t: types.NewPointer(v.t), v: *v.addr, ro: v.ro}
	case "IsNil":
		val := e.rvGet(v)
		switch x := val.(type) {
		case Ptr:
			return BoolV{C: x.IsNil()}
		case *MapObj:
			return BoolV{C: x == nil}
		case SliceV:
			return BoolV{C: x.Arr == nil}
		case Iface:
			return BoolV{C: x.T == nil}
		case *ChanObj:
			return BoolV{C: x == nil}
		case nil:
			return BoolV{C: true}
		case *Closure, *ssa.Function, nativeFn:
			return BoolV{C: false}
		}
		rpanic("reflect: call of reflect.Value.IsNil on " + kindOf(v.t).String() + " Value")
	case "IsZero":
		return e.isZero(v.t, e.rvGet(v))
	case "Len":
		switch x := e.rvGet(v).(type) {
		case SliceV:
			return IntV{C: uint64(x.Len)}
		case *MapObj:
			if x == nil {
				return IntV{}
			}
			return IntV{C: uint64(len(x.E))}
		case StrV:
			return e.builtinLenStr(x)
		case *ArrayV:
			return IntV{C: uint64(len(x.E))}
		case *ChanObj:
			return IntV{C: uint64(len(x.buf))}
		}
		rpanic("reflect: call of reflect.Value.Len on " + kindOf(v.t).String() + " Value")
	case "Cap":
		if s, ok := e.rvGet(v).(SliceV); ok {
			return IntV{C: uint64(s.Cap)}
		}
		rpanic("reflect: call of reflect.Value.Cap on " + kindOf(v.t).String() + " Value")
	case "NumField":
		st, ok := under(v.t).(*types.Struct)
		if !ok {
			rpanic("reflect: call of reflect.Value.NumField on " + kindOf(v.t).String() + " Value")
		}
		return IntV{C: uint64(st.NumFields())}
	case "Field":
		return e.rvField(v, e.concInt(args[0]))
	case "FieldByName":
		if _, ok := under(v.t).(*types.Struct); !ok {
			rpanic("reflect: call of reflect.Value.FieldByName on " + kindOf(v.t).String() + " Value")
		}
		name := args[0].(StrV)
		if name.Sym != nil {
			// fork over the field names
			st := under(v.t).(*types.Struct)
			for i := 0; i < st.NumFields(); i++ {
				if e.branch(app("Bool", "=", name.Sym, &Term{smtStr(st.Field(i).Name()), "String"})) {
					return e.rvField(v, i)
				}
			}
			return RValue{}
		}
		i := fieldIndex(v.t, name.C)
		if i < 0 {
			// promoted fields through embedded structs (one level)
			st := under(v.t).(*types.Struct)
			for k := 0; k < st.NumFields(); k++ {
				if st.Field(k).Embedded() {
					et := st.Field(k).Type()
					if pt, ok := under(et).(*types.Pointer); ok {
						et = pt.Elem()
					}
					if j := fieldIndex(et, name.C); j >= 0 {
						ev := e.rvField(v, k)
						if kindOf(ev.t) == reflect.Ptr {
							ev = e.rvElem(ev)
							if !ev.valid {
								rpanic("reflect: indirection through nil pointer to embedded struct")
							}
						}
						return e.rvField(ev, j)
					}
				}
			}
			return RValue{}
		}
		return e.rvField(v, i)
	case "Index":
		i := e.concInt(args[0])
		switch x := e.rvGet(v).(type) {
		case SliceV:
			if i < 0 || i >= x.Len {
				rpanic("reflect: slice index out of range")
			}
			p := mkPtr(x.Arr, []int{x.Off + i})
			return RValue{valid: true, t: under(v.t).(*types.Slice).Elem(), addr: &p, ro: v.ro}
		case *ArrayV:
			if i < 0 || i >= len(x.E) {
				rpanic("reflect: array index out of range")
			}
			et := under(v.t).(*types.Array).Elem()
			if v.addr != nil {
				p := v.addr.sub(i)
				return RValue{valid: true, t: et, addr: &p, ro: v.ro}
			}
			return RValue{valid: true, t: et, v: copyVal(x.E[i]), ro: v.ro}
		case StrV:
			if x.Sym != nil {
				panic(unsupported{"reflect Index of symbolic string"})
			}
			return RValue{valid: true, t: types.Typ[types.Uint8], v: IntV{C: uint64(x.C[i])}}
		}
		rpanic("reflect: call of reflect.Value.Index on " + kindOf(v.t).String() + " Value")
	case "MapIndex":
		mt, ok := under(v.t).(*types.Map)
		if !ok {
			rpanic("reflect: call of reflect.Value.MapIndex on " + kindOf(v.t).String() + " Value")
		}
		k := e.assignConv(args[0].(RValue), mt.Key(), "reflect.Value.MapIndex")
		m := e.rvGet(v).(*MapObj)
		e.raceMap(m, false)
		en := e.findEntry(m, mt.Key(), k)
		if en == nil {
			return RValue{}
		}
		return RValue{valid: true, t: mt.Elem(), v: copyVal(en.V), ro: v.ro}
	case "SetMapIndex":
		mt, ok := under(v.t).(*types.Map)
		if !ok {
			rpanic("reflect: call of reflect.Value.SetMapIndex on " + kindOf(v.t).String() + " Value")
		}
		if v.ro {
			rpanic("reflect: reflect.Value.SetMapIndex using value obtained using unexported field")
		}
		k := e.assignConv(args[0].(RValue), mt.Key(), "reflect.Value.SetMapIndex")
		m := e.rvGet(v).(*MapObj)
		ev := args[1].(RValue)
		if !ev.valid {
			if m != nil {
				e.raceMap(m, true)
				for i, en := range m.E {
					if e.truth(e.equal(mt.Key(), en.K, k)) {
						m.E = append(m.E[:i:i], m.E[i+1:]...)
						break
					}
				}
			}
			return nil
		}
		val := e.assignConv(ev, mt.Elem(), "reflect.Value.SetMapIndex")
		if m == nil {
			panic(goPanic{rtErr("assignment to entry in nil map")})
		}
		e.mapUpdate(m, mt.Key(), k, copyVal(val))
		return nil
	case "MapKeys":
		mt, ok := under(v.t).(*types.Map)
		if !ok {
			rpanic("reflect: call of reflect.Value.MapKeys on " + kindOf(v.t).String() + " Value")
		}
		m := e.rvGet(v).(*MapObj)
		var keys []Value
		for _, en := range e.orderedEntries(m) {
			keys = append(keys, RValue{valid: true, t: mt.Key(), v: en.K})
		}
		return e.mkSlice(nil, keys)
	case "MapRange":
		mt, ok := under(v.t).(*types.Map)
		if !ok {
			rpanic("reflect: call of reflect.Value.MapRange on " + kindOf(v.t).String() + " Value")
		}
		m := e.rvGet(v).(*MapObj)
		it := &rMapIter{m: m, mt: mt, ents: e.orderedEntries(m)}
		return Ptr{C: e.newCell(it)}
	case "Set":
		if v.addr == nil || v.ro {
			rpanic("reflect: reflect.Value.Set using unaddressable value")
		}
		e.store(*v.addr, e.assignConv(args[0].(RValue), v.t, "reflect.Set"))
		return nil
	case "SetInt", "SetUint", "SetString", "SetBool", "SetFloat":
		if v.addr == nil || v.ro {
			rpanic("reflect: reflect.Value." + m + " using unaddressable value")
		}
		e.store(*v.addr, args[0])
		return nil
	case "Int", "Uint":
		val := e.rvGet(v).(IntV)
		bits, signed, _ := intBits(v.t)
		if val.Sym != nil {
			if bits == 64 {
				return val
			}
			op := "zero_extend"
			if signed {
				op = "sign_extend"
			}
			return IntV{Sym: app("BV64", fmt.Sprintf("(_ %s %d)", op, 64-bits), val.Sym)}
		}
		if signed {
			return IntV{C: uint64(sext(val.C, bits))}
		}
		return val
	case "Bool":
		return e.rvGet(v)
	case "Float":
		return e.rvGet(v)
	case "Pointer", "UnsafePointer":
		switch x := e.rvGet(v).(type) {
		case Ptr:
			if x.IsNil() {
				return IntV{}
			}
			return IntV{C: uint64(x.C.id)*4096 + uint64(len(x.Path))}
		case *MapObj:
			if x == nil {
				return IntV{}
			}
			return IntV{C: uint64(x.id) * 4096}
		case SliceV:
			if x.Arr == nil {
				return IntV{}
			}
			return IntV{C: uint64(x.Arr.id)*4096 + uint64(x.Off)}
		case *Closure:
			return IntV{C: uint64(x.id) * 4096}
		case *ssa.Function:
			return IntV{C: 1}
		}
		return IntV{}
	case "Call":
		fv := e.rvGet(v)
		sig := under(v.t).(*types.Signature)
		var cargs []Value
		ins := e.sliceElems(args[0])
		for i, a := range ins {
			var pt types.Type
			if sig.Variadic() && i >= sig.Params().Len()-1 {
				pt = sig.Params().At(sig.Params().Len() - 1).Type().(*types.Slice).Elem()
			} else {
				pt = sig.Params().At(i).Type()
			}
			cargs = append(cargs, e.assignConv(a.(RValue), pt, "reflect.Value.Call"))
		}
		if sig.Variadic() {
			n := sig.Params().Len() - 1
			vt := sig.Params().At(n).Type().(*types.Slice)
			rest := e.mkSlice(vt.Elem(), cargs[n:])
			cargs = append(cargs[:n:n], rest)
		}
		r := e.call(fv, cargs)
		var outs []Value
		switch sig.Results().Len() {
		case 0:
		case 1:
			outs = append(outs, RValue{valid: true, t: sig.Results().At(0).Type(), v: r})
		default:
			for i, x := range r.(Tuple) {
				outs = append(outs, RValue{valid: true, t: sig.Results().At(i).Type(), v: x})
			}
		}
		return e.mkSlice(nil, outs)
	case "Convert":
		t := rtOf(args[0])
		return RValue{valid: true, t: t, v: e.convert(t, v.t, e.rvGet(v))}
	case "Slice":
		s := e.rvGet(v).(SliceV)
		lo, hi := e.concInt(args[0]), e.concInt(args[1])
		if lo < 0 || hi < lo || hi > s.Cap {
			rpanic("reflect.Value.Slice: slice index out of bounds")
		}
		return RValue{valid: true, t: v.t, v: SliceV{Arr: s.Arr, Off: s.Off + lo, Len: hi - lo, Cap: s.Cap - lo}}
	case "NumMethod":
		return IntV{C: uint64(e.prog.MethodSets.MethodSet(v.t).Len())}
	case "Comparable":
		return BoolV{C: types.Comparable(v.t)}
	}
	panic(unsupported{"reflect.Value." + m})
}

func (e *Exec) orderedEntries(m *MapObj) []*MapEntry {
	if m == nil {
		return nil
	}
	e.raceMap(m, false)
	ents := append([]*MapEntry{}, m.E...)
	caller := ""
	if st := e.sch.cur.stack; len(st) > 0 {
		caller = st[len(st)-1].fn.String()
	}
	if len(ents) > 1 && e.orderMarked(caller) {
		order := e.permute(len(ents), "maporder:reflect")
		out := make([]*MapEntry, len(ents))
		for i, k := range order {
			out[i] = ents[k]
		}
		return out
	}
	return ents
}

func (e *Exec) isZero(t types.Type, v Value) BoolV {
	switch x := v.(type) {
	case IntV:
		return e.equal(t, x, IntV{})
	case BoolV:
		if x.Sym != nil {
			return BoolV{Sym: tnot(x.Sym)}
		}
		return BoolV{C: !x.C}
	case StrV:
		return e.equal(t, x, StrV{})
	case float64:
		return BoolV{C: x == 0}
	case Ptr:
		return BoolV{C: x.IsNil()}
	case *MapObj:
		return BoolV{C: x == nil}
	case SliceV:
		return BoolV{C: x.Arr == nil}
	case Iface:
		return BoolV{C: x.T == nil}
	case *ChanObj:
		return BoolV{C: x == nil}
	case nil:
		return BoolV{C: true}
	case *Closure, *ssa.Function, nativeFn:
		return BoolV{C: false}
	case *StructV:
		st := under(t).(*types.Struct)
		r := BoolV{C: true}
		for i, f := range x.F {
			r = conj(r, e.isZero(st.Field(i).Type(), f))
		}
		return r
	case *ArrayV:
		r := BoolV{C: true}
		for _, f := range x.E {
			r = conj(r, e.isZero(under(t).(*types.Array).Elem(), f))
		}
		return r
	}
	panic(unsupported{fmt.Sprintf("IsZero %T", v)})
}

// rtypeMethod dispatches an invoke-mode call on reflect.Type.
func (e *Exec) rtypeMethod(rt RType, m string, args []Value) Value {
	t := rt.t
	switch m {
	case "Elem":
		switch u := under(t).(type) {
		case *types.Pointer:
			return mkRType(u.Elem())
		case *types.Slice:
			return mkRType(u.Elem())
		case *types.Array:
			return mkRType(u.Elem())
		case *types.Map:
			return mkRType(u.Elem())
		case *types.Chan:
			return mkRType(u.Elem())
		}
		rpanic("reflect: Elem of invalid type " + e.typeString(t))
	case "Key":
		mt, ok := under(t).(*types.Map)
		if !ok {
			rpanic("reflect: Key of non-map type " + e.typeString(t))
		}
		return mkRType(mt.Key())
	case "Kind":
		return IntV{C: uint64(kindOf(t))}
	case "String":
		return StrV{C: e.typeString(t)}
	case "Name":
		switch n := t.(type) {
		case *types.Named:
			s := n.Obj().Name()
			if ta := n.TypeArgs(); ta != nil && ta.Len() > 0 {
				var as []string
				for i := 0; i < ta.Len(); i++ {
					as = append(as, types.TypeString(ta.At(i), func(p *types.Package) string { return p.Path() }))
				}
				s += "[" + strings.Join(as, ",") + "]"
			}
			return StrV{C: s}
		case *types.Basic:
			return StrV{C: n.Name()}
		case *types.Alias:
			return e.rtypeMethod(RType{types.Unalias(t)}, m, args)
		}
		return StrV{}
	case "PkgPath":
		if n, ok := t.(*types.Named); ok && n.Obj().Pkg() != nil {
			return StrV{C: n.Obj().Pkg().Path()}
		}
		return StrV{}
	case "Implements":
		u := rtOf(args[0])
		it, ok := under(u).(*types.Interface)
		if !ok {
			rpanic("reflect: non-interface type passed to Type.Implements")
		}
		return BoolV{C: types.Implements(t, it)}
	case "AssignableTo":
		return BoolV{C: types.AssignableTo(t, rtOf(args[0]))}
	case "ConvertibleTo":
		return BoolV{C: types.ConvertibleTo(t, rtOf(args[0]))}
	case "Comparable":
		return BoolV{C: types.Comparable(t)}
	case "NumField":
		st, ok := under(t).(*types.Struct)
		if !ok {
			rpanic("reflect: NumField of non-struct type " + e.typeString(t))
		}
		return IntV{C: uint64(st.NumFields())}
	case "Field":
		if _, ok := under(t).(*types.Struct); !ok {
			rpanic("reflect: Field of non-struct type " + e.typeString(t))
		}
		return e.structFieldInfo(t, e.concInt(args[0]))
	case "FieldByName":
		if _, ok := under(t).(*types.Struct); !ok {
			rpanic("reflect: FieldByName of non-struct type " + e.typeString(t))
		}
		name := args[0].(StrV)
		sft := e.prog.ImportedPackage("reflect").Type("StructField").Type()
		if name.Sym != nil {
			st := under(t).(*types.Struct)
			for i := 0; i < st.NumFields(); i++ {
				if e.branch(app("Bool", "=", name.Sym, &Term{smtStr(st.Field(i).Name()), "String"})) {
					return Tuple{e.structFieldInfo(t, i), BoolV{C: true}}
				}
			}
			return Tuple{zero(sft), BoolV{C: false}}
		}
		i := fieldIndex(t, name.C)
		if i < 0 {
			// promoted fields through embedded structs / pointers to structs (one level), as Value.FieldByName
			st := under(t).(*types.Struct)
			for k := 0; k < st.NumFields(); k++ {
				if st.Field(k).Embedded() {
					et := st.Field(k).Type()
					if pt, ok := under(et).(*types.Pointer); ok {
						et = pt.Elem()
					}
					if _, ok := under(et).(*types.Struct); !ok {
						continue
					}
					if j := fieldIndex(et, name.C); j >= 0 {
						sf := e.structFieldInfo(et, j).(*StructV)
						sf.F[5] = e.mkSlice(types.Typ[types.Int], []Value{IntV{C: uint64(k)}, IntV{C: uint64(j)}}) // Index: through the embedded field
						return Tuple{sf, BoolV{C: true}}
					}
				}
			}
			return Tuple{zero(sft), BoolV{C: false}}
		}
		return Tuple{e.structFieldInfo(t, i), BoolV{C: true}}
	case "NumMethod":
		if it, ok := under(t).(*types.Interface); ok {
			return IntV{C: uint64(it.NumMethods())}
		}
		return IntV{C: uint64(e.prog.MethodSets.MethodSet(t).Len())}
	case "NumIn":
		return IntV{C: uint64(under(t).(*types.Signature).Params().Len())}
	case "NumOut":
		return IntV{C: uint64(under(t).(*types.Signature).Results().Len())}
	case "In":
		return mkRType(under(t).(*types.Signature).Params().At(e.concInt(args[0])).Type())
	case "Out":
		return mkRType(under(t).(*types.Signature).Results().At(e.concInt(args[0])).Type())
	case "IsVariadic":
		return BoolV{C: under(t).(*types.Signature).Variadic()}
	case "Len":
		return IntV{C: uint64(under(t).(*types.Array).Len())}
	}
	panic(unsupported{"reflect.Type." + m})
}

// deepEqual models reflect.DeepEqual; the result may be symbolic.
func (e *Exec) deepEqual(a, b Iface) BoolV {
	if a.T == nil || b.T == nil {
		return BoolV{C: a.T == nil && b.T == nil}
	}
	if !types.Identical(a.T, b.T) {
		return BoolV{C: false}
	}
	return e.deepEq(a.T, a.V, b.V, 0)
}

func (e *Exec) deepEq(t types.Type, x, y Value, depth int) BoolV {
	if depth > 40 {
		panic(unsupported{"DeepEqual: too deep (cyclic?)"})
	}
	switch a := x.(type) {
	case IntV, BoolV, StrV, float64, complex128:
		return e.equal(t, x, y)
	case Ptr:
		b := y.(Ptr)
		if a.IsNil() || b.IsNil() {
			return BoolV{C: a.IsNil() && b.IsNil()}
		}
		if a.C == b.C && a.Path == b.Path {
			return BoolV{C: true}
		}
		pt, ok := under(t).(*types.Pointer)
		if !ok {
			return BoolV{C: false}
		}
		return e.deepEq(pt.Elem(), loadRaw(a), loadRaw(b), depth+1)
	case SliceV:
		b := y.(SliceV)
		if (a.Arr == nil) != (b.Arr == nil) {
			return BoolV{C: false}
		}
		if a.Len != b.Len {
			return BoolV{C: false}
		}
		et := under(t).(*types.Slice).Elem()
		r := BoolV{C: true}
		for i := 0; i < a.Len; i++ {
			r = conj(r, e.deepEq(et, loadRaw(mkPtr(a.Arr, []int{a.Off + i})), loadRaw(mkPtr(b.Arr, []int{b.Off + i})), depth+1))
		}
		return r
	case *ArrayV:
		b := y.(*ArrayV)
		et := under(t).(*types.Array).Elem()
		r := BoolV{C: true}
		for i := range a.E {
			r = conj(r, e.deepEq(et, a.E[i], b.E[i], depth+1))
		}
		return r
	case *StructV:
		b := y.(*StructV)
		st := under(t).(*types.Struct)
		r := BoolV{C: true}
		for i := range a.F {
			r = conj(r, e.deepEq(st.Field(i).Type(), a.F[i], b.F[i], depth+1))
		}
		return r
	case *MapObj:
		b := y.(*MapObj)
		if (a == nil) != (b == nil) {
			return BoolV{C: false}
		}
		if a == b {
			return BoolV{C: true}
		}
		if len(a.E) != len(b.E) {
			return BoolV{C: false}
		}
		mt := under(t).(*types.Map)
		r := BoolV{C: true}
		for _, en := range a.E {
			o := e.findEntry(b, mt.Key(), en.K)
			if o == nil {
				return BoolV{C: false}
			}
			r = conj(r, e.deepEq(mt.Elem(), en.V, o.V, depth+1))
		}
		return r
	case Iface:
		b := y.(Iface)
		if a.T == nil || b.T == nil {
			return BoolV{C: a.T == nil && b.T == nil}
		}
		if !types.Identical(a.T, b.T) {
			return BoolV{C: false}
		}
		if a.T == rtypeMarker || a.T == ctxMarker {
			return e.equal(a.T, a.V, b.V)
		}
		return e.deepEq(a.T, a.V, b.V, depth+1)
	case nil:
		return BoolV{C: y == nil}
	case *Closure, *ssa.Function, nativeFn:
		return BoolV{C: false}
	case *ChanObj:
		b, _ := y.(*ChanObj)
		return BoolV{C: a == b}
	case RValue:
		panic(unsupported{"DeepEqual on reflect.Value"})
	}
	panic(unsupported{fmt.Sprintf("DeepEqual %T", x)})
}

func (e *Exec) reflectSelect(cases SliceV) Value {
	els := e.sliceElems(cases)
	sc := make([]selCase, len(els))
	var rts []types.Type
	hasDefault := false
	for i, c := range els {
		st := c.(*StructV)
		dir := reflect.SelectDir(st.F[0].(IntV).C)
		chv := st.F[1].(RValue)
		var ch *ChanObj
		var et types.Type
		if chv.valid {
			ch, _ = e.rvGet(chv).(*ChanObj)
			et = under(chv.t).(*types.Chan).Elem()
		}
		rts = append(rts, et)
		switch dir {
		case reflect.SelectRecv:
			sc[i] = selCase{c: ch}
		case reflect.SelectSend:
			sc[i] = selCase{c: ch, send: true, val: e.rvGet(st.F[2].(RValue))}
		case reflect.SelectDefault:
			hasDefault = true
			sc[i] = selCase{c: nil}
		}
	}
	if len(els) == 0 {
		e.yield(func() bool { return false }, "reflect.Select with no cases")
	}
	idx, v, ok := e.runSelect(sc, !hasDefault)
	if idx < 0 {
		for i, c := range els {
			if reflect.SelectDir(c.(*StructV).F[0].(IntV).C) == reflect.SelectDefault {
				idx = i
			}
		}
		return Tuple{IntV{C: uint64(idx)}, RValue{}, BoolV{C: false}}
	}
	if sc[idx].send {
		return Tuple{IntV{C: uint64(idx)}, RValue{}, BoolV{C: false}}
	}
	return Tuple{IntV{C: uint64(idx)}, RValue{valid: true, t: rts[idx], v: v}, BoolV{C: ok}}
}
