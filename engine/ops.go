package main

import (
	"fmt"
	"go/token"
	"go/types"
	"math"
	"strconv"

	"golang.org/x/tools/go/ssa"
)

func (e *Exec) unop(ins *ssa.UnOp, x Value) Value {
	switch ins.Op {
	case token.MUL:
		return e.load(x.(Ptr))
	case token.ARROW:
		c, _ := x.(*ChanObj)
		return e.chanRecv(c, ins.CommaOk)
	case token.NOT:
		b := x.(BoolV)
		if b.Sym != nil {
			return BoolV{Sym: tnot(b.Sym)}
		}
		return BoolV{C: !b.C}
	case token.SUB:
		if f, ok := x.(float64); ok {
			return -f
		}
		bits, _, _ := intBits(ins.X.Type())
		v := x.(IntV)
		if v.Sym != nil {
			return IntV{Sym: app(bvSort(bits), "bvneg", v.Sym)}
		}
		return IntV{C: trunc(-v.C, bits)}
	case token.XOR:
		bits, _, _ := intBits(ins.X.Type())
		v := x.(IntV)
		if v.Sym != nil {
			return IntV{Sym: app(bvSort(bits), "bvnot", v.Sym)}
		}
		return IntV{C: trunc(^v.C, bits)}
	}
	panic(unsupported{"unop " + ins.Op.String()})
}

func (e *Exec) binop(op token.Token, t, ty types.Type, x, y Value) Value {
	switch a := x.(type) {
	case IntV:
		b := y.(IntV)
		bits, signed, _ := intBits(t)
		if op == token.SHL || op == token.SHR {
			return e.shift(op, t, ty, a, b)
		}
		if a.Sym == nil && b.Sym == nil {
			return concreteIntOp(op, a.C, b.C, bits, signed)
		}
		ta, tb := intTerm(a, bits), intTerm(b, bits)
		s := bvSort(bits)
		sel := func(sg, us string) string {
			if signed {
				return sg
			}
			return us
		}
		switch op {
		case token.ADD:
			return IntV{Sym: app(s, "bvadd", ta, tb)}
		case token.SUB:
			return IntV{Sym: app(s, "bvsub", ta, tb)}
		case token.MUL:
			return IntV{Sym: app(s, "bvmul", ta, tb)}
		case token.QUO, token.REM:
			if !e.branch(tnot(app("Bool", "=", tb, bvConst(0, bits)))) {
				panic(goPanic{rtErr("integer divide by zero")})
			}
			if op == token.QUO {
				return IntV{Sym: app(s, sel("bvsdiv", "bvudiv"), ta, tb)}
			}
			return IntV{Sym: app(s, sel("bvsrem", "bvurem"), ta, tb)}
		case token.AND:
			return IntV{Sym: app(s, "bvand", ta, tb)}
		case token.OR:
			return IntV{Sym: app(s, "bvor", ta, tb)}
		case token.XOR:
			return IntV{Sym: app(s, "bvxor", ta, tb)}
		case token.AND_NOT:
			return IntV{Sym: app(s, "bvand", ta, app(s, "bvnot", tb))}
		case token.EQL:
			return BoolV{Sym: app("Bool", "=", ta, tb)}
		case token.NEQ:
			return BoolV{Sym: tnot(app("Bool", "=", ta, tb))}
		case token.LSS:
			return BoolV{Sym: app("Bool", sel("bvslt", "bvult"), ta, tb)}
		case token.LEQ:
			return BoolV{Sym: app("Bool", sel("bvsle", "bvule"), ta, tb)}
		case token.GTR:
			return BoolV{Sym: app("Bool", sel("bvsgt", "bvugt"), ta, tb)}
		case token.GEQ:
			return BoolV{Sym: app("Bool", sel("bvsge", "bvuge"), ta, tb)}
		}
		panic(unsupported{"sym int binop " + op.String()})
	case float64:
		b := y.(float64)
		switch op {
		case token.ADD:
			return a + b
		case token.SUB:
			return a - b
		case token.MUL:
			return a * b
		case token.QUO:
			return a / b
		case token.EQL:
			return BoolV{C: a == b}
		case token.NEQ:
			return BoolV{C: a != b}
		case token.LSS:
			return BoolV{C: a < b}
		case token.LEQ:
			return BoolV{C: a <= b}
		case token.GTR:
			return BoolV{C: a > b}
		case token.GEQ:
			return BoolV{C: a >= b}
		}
	case StrV:
		b := y.(StrV)
		if a.Sym == nil && b.Sym == nil {
			switch op {
			case token.ADD:
				return StrV{C: a.C + b.C}
			case token.EQL:
				return BoolV{C: a.C == b.C}
			case token.NEQ:
				return BoolV{C: a.C != b.C}
			case token.LSS:
				return BoolV{C: a.C < b.C}
			case token.LEQ:
				return BoolV{C: a.C <= b.C}
			case token.GTR:
				return BoolV{C: a.C > b.C}
			case token.GEQ:
				return BoolV{C: a.C >= b.C}
			}
		}
		ta, tb := strTerm(a), strTerm(b)
		switch op {
		case token.ADD:
			if a.Sym == nil && a.C == "" {
				return b
			}
			if b.Sym == nil && b.C == "" {
				return a
			}
			return StrV{Sym: app("String", "str.++", ta, tb)}
		case token.EQL:
			return BoolV{Sym: app("Bool", "=", ta, tb)}
		case token.NEQ:
			return BoolV{Sym: tnot(app("Bool", "=", ta, tb))}
		case token.LSS:
			return BoolV{Sym: app("Bool", "str.<", ta, tb)}
		case token.LEQ:
			return BoolV{Sym: app("Bool", "str.<=", ta, tb)}
		case token.GTR:
			return BoolV{Sym: app("Bool", "str.<", tb, ta)}
		case token.GEQ:
			return BoolV{Sym: app("Bool", "str.<=", tb, ta)}
		}
	}
	switch op {
	case token.EQL:
		return e.equal(t, x, y)
	case token.NEQ:
		r := e.equal(t, x, y)
		if r.Sym != nil {
			return BoolV{Sym: tnot(r.Sym)}
		}
		return BoolV{C: !r.C}
	}
	panic(unsupported{fmt.Sprintf("binop %s on %T", op, x)})
}

func (e *Exec) shift(op token.Token, t, ty types.Type, a, b IntV) Value {
	bits, signed, _ := intBits(t)
	if b.Sym != nil {
		// concretise small shift amounts
		ybits, _, _ := intBits(ty)
		n := e.concretize(b, ybits, 0, 64)
		b = IntV{C: uint64(n)}
	}
	n := b.C
	if a.Sym == nil {
		return concreteIntOp(op, a.C, n, bits, signed)
	}
	if n >= uint64(bits) {
		if op == token.SHL || !signed {
			return IntV{C: 0}
		}
		n = uint64(bits - 1)
	}
	s := bvSort(bits)
	switch {
	case op == token.SHL:
		return IntV{Sym: app(s, "bvshl", a.Sym, bvConst(n, bits))}
	case signed:
		return IntV{Sym: app(s, "bvashr", a.Sym, bvConst(n, bits))}
	}
	return IntV{Sym: app(s, "bvlshr", a.Sym, bvConst(n, bits))}
}

func concreteIntOp(op token.Token, a, b uint64, bits int, signed bool) Value {
	sa, sb := sext(a, bits), sext(b, bits)
	cmp := func(s, u bool) Value {
		if signed {
			return BoolV{C: s}
		}
		return BoolV{C: u}
	}
	switch op {
	case token.ADD:
		return IntV{C: trunc(a+b, bits)}
	case token.SUB:
		return IntV{C: trunc(a-b, bits)}
	case token.MUL:
		return IntV{C: trunc(a*b, bits)}
	case token.QUO:
		if b == 0 {
			panic(goPanic{rtErr("integer divide by zero")})
		}
		if signed {
			return IntV{C: trunc(uint64(sa/sb), bits)}
		}
		return IntV{C: trunc(a/b, bits)}
	case token.REM:
		if b == 0 {
			panic(goPanic{rtErr("integer divide by zero")})
		}
		if signed {
			return IntV{C: trunc(uint64(sa%sb), bits)}
		}
		return IntV{C: trunc(a%b, bits)}
	case token.AND:
		return IntV{C: a & b}
	case token.OR:
		return IntV{C: a | b}
	case token.XOR:
		return IntV{C: a ^ b}
	case token.AND_NOT:
		return IntV{C: a &^ b}
	case token.SHL:
		if b >= 64 {
			return IntV{C: 0}
		}
		return IntV{C: trunc(a<<b, bits)}
	case token.SHR:
		if signed {
			if b >= 64 {
				b = 63
			}
			return IntV{C: trunc(uint64(sa>>b), bits)}
		}
		if b >= 64 {
			return IntV{C: 0}
		}
		return IntV{C: a >> b}
	case token.EQL:
		return BoolV{C: a == b}
	case token.NEQ:
		return BoolV{C: a != b}
	case token.LSS:
		return cmp(sa < sb, a < b)
	case token.LEQ:
		return cmp(sa <= sb, a <= b)
	case token.GTR:
		return cmp(sa > sb, a > b)
	case token.GEQ:
		return cmp(sa >= sb, a >= b)
	}
	panic(unsupported{"int op " + op.String()})
}

func conj(a, b BoolV) BoolV {
	if a.Sym == nil {
		if !a.C {
			return BoolV{C: false}
		}
		return b
	}
	if b.Sym == nil {
		if !b.C {
			return BoolV{C: false}
		}
		return a
	}
	return BoolV{Sym: app("Bool", "and", a.Sym, b.Sym)}
}

func comparable_(t types.Type) bool { return types.Comparable(t) }

// equal implements Go == on two values of static type t, possibly symbolic.
func (e *Exec) equal(t types.Type, x, y Value) BoolV {
	switch a := x.(type) {
	case IntV:
		b, ok := y.(IntV)
		if !ok {
			return BoolV{C: false}
		}
		if a.Sym == nil && b.Sym == nil {
			return BoolV{C: a.C == b.C}
		}
		bits := 64
		if t != nil {
			if bb, _, ok := intBits(t); ok {
				bits = bb
			}
		}
		return BoolV{Sym: app("Bool", "=", intTerm(a, bits), intTerm(b, bits))}
	case BoolV:
		b := y.(BoolV)
		if a.Sym == nil && b.Sym == nil {
			return BoolV{C: a.C == b.C}
		}
		return BoolV{Sym: app("Bool", "=", boolTerm(a), boolTerm(b))}
	case StrV:
		b := y.(StrV)
		if a.Sym == nil && b.Sym == nil {
			return BoolV{C: a.C == b.C}
		}
		return BoolV{Sym: app("Bool", "=", strTerm(a), strTerm(b))}
	case float64:
		return BoolV{C: a == y.(float64)}
	case complex128:
		return BoolV{C: a == y.(complex128)}
	case Ptr:
		b, ok := y.(Ptr)
		if !ok {
			return BoolV{C: a.IsNil() && y == nil}
		}
		return BoolV{C: a.C == b.C && a.Path == b.Path}
	case *MapObj:
		b, _ := y.(*MapObj)
		return BoolV{C: a == b}
	case *ChanObj:
		b, _ := y.(*ChanObj)
		return BoolV{C: a == b}
	case SliceV:
		b := y.(SliceV)
		return BoolV{C: a.Arr == nil && b.Arr == nil}
	case nil:
		switch b := y.(type) {
		case nil:
			return BoolV{C: true}
		case *Closure, *ssa.Function, nativeFn:
			return BoolV{C: false}
		case Ptr:
			return BoolV{C: b.IsNil()}
		}
	case *Closure, *ssa.Function, nativeFn:
		return BoolV{C: false} // only comparison with nil is legal
	case RType:
		b, ok := y.(RType)
		return BoolV{C: ok && types.Identical(a.t, b.t)}
	case *CtxObj:
		b, _ := y.(*CtxObj)
		return BoolV{C: a == b}
	case RValue:
		panic(goPanic{rtErr("comparing reflect.Value")})
	case Iface:
		b := y.(Iface)
		if a.T == nil || b.T == nil {
			return BoolV{C: a.T == nil && b.T == nil}
		}
		if !types.Identical(a.T, b.T) {
			return BoolV{C: false}
		}
		if a.T != rtypeMarker && a.T != ctxMarker && !types.Comparable(a.T) {
			panic(goPanic{rtErr("comparing uncomparable type " + a.T.String())})
		}
		return e.equal(a.T, a.V, b.V)
	case *StructV:
		b := y.(*StructV)
		st := under(t).(*types.Struct)
		r := BoolV{C: true}
		for i := range a.F {
			r = conj(r, e.equal(st.Field(i).Type(), a.F[i], b.F[i]))
		}
		return r
	case *ArrayV:
		b := y.(*ArrayV)
		et := under(t).(*types.Array).Elem()
		r := BoolV{C: true}
		for i := range a.E {
			r = conj(r, e.equal(et, a.E[i], b.E[i]))
		}
		return r
	}
	panic(unsupported{fmt.Sprintf("equal %T %T", x, y)})
}

func (e *Exec) convert(dst, src types.Type, x Value) Value {
	db, _, dok := intBits(dst)
	sb, ssig, sok := intBits(src)
	if dok && sok {
		v := x.(IntV)
		if v.Sym == nil {
			var w uint64
			if ssig {
				w = uint64(sext(v.C, sb))
			} else {
				w = v.C
			}
			return IntV{C: trunc(w, db)}
		}
		switch {
		case db == sb:
			return v
		case db < sb:
			return IntV{Sym: app(bvSort(db), fmt.Sprintf("(_ extract %d 0)", db-1), v.Sym)}
		default:
			op := "zero_extend"
			if ssig {
				op = "sign_extend"
			}
			return IntV{Sym: app(bvSort(db), fmt.Sprintf("(_ %s %d)", op, db-sb), v.Sym)}
		}
	}
	if dok && isFloat(src) {
		f := x.(float64)
		if _, sg, _ := intBits(dst); sg {
			return IntV{C: trunc(uint64(int64(f)), db)}
		}
		return IntV{C: trunc(uint64(f), db)}
	}
	if isFloat(dst) && sok {
		v := x.(IntV)
		if v.Sym != nil {
			panic(unsupported{"symbolic int to float"})
		}
		if ssig {
			return float64(sext(v.C, sb))
		}
		return float64(v.C)
	}
	if isFloat(dst) && isFloat(src) {
		f := x.(float64)
		if b := under(dst).(*types.Basic); b.Kind() == types.Float32 {
			return float64(float32(f))
		}
		return f
	}
	if isString(dst) {
		switch v := x.(type) {
		case StrV:
			return v
		case IntV: // string(rune)
			if v.Sym != nil {
				panic(unsupported{"string(symbolic rune)"})
			}
			return StrV{C: string(rune(sext(v.C, sb)))}
		case SliceV: // []byte / []rune -> string
			et := under(src).(*types.Slice).Elem()
			eb, _, _ := intBits(et)
			var bs []byte
			var rs []rune
			for i := 0; i < v.Len; i++ {
				c := e.load(mkPtr(v.Arr, []int{v.Off + i})).(IntV)
				if c.Sym != nil {
					panic(unsupported{"string of symbolic bytes"})
				}
				if eb == 8 {
					bs = append(bs, byte(c.C))
				} else {
					rs = append(rs, rune(c.C))
				}
			}
			if eb == 8 {
				return StrV{C: string(bs)}
			}
			return StrV{C: string(rs)}
		}
	}
	if sl, ok := under(dst).(*types.Slice); ok && isString(src) {
		s := x.(StrV)
		if s.Sym != nil {
			panic(unsupported{"[]byte(symbolic string)"})
		}
		eb, _, _ := intBits(sl.Elem())
		var es []Value
		if eb == 8 {
			for i := 0; i < len(s.C); i++ {
				es = append(es, IntV{C: uint64(s.C[i])})
			}
		} else {
			for _, r := range s.C {
				es = append(es, IntV{C: uint64(uint32(r))})
			}
		}
		return SliceV{Arr: e.newCell(&ArrayV{E: es}), Len: len(es), Cap: len(es)}
	}
	// pointer <-> unsafe.Pointer
	if _, ok := x.(Ptr); ok {
		return x
	}
	panic(unsupported{fmt.Sprintf("convert %v -> %v", src, dst)})
}

func (e *Exec) implements(t types.Type, it *types.Interface) bool {
	if t == rtypeMarker || t == ctxMarker {
		return true
	}
	return types.Implements(t, it)
}

func (e *Exec) typeAssert(ins *ssa.TypeAssert, x Iface) Value {
	ok := false
	var res Value
	if it, isIface := under(ins.AssertedType).(*types.Interface); isIface {
		if x.T != nil && e.ifaceSatisfies(x, ins.AssertedType, it) {
			ok, res = true, x
		} else {
			res = Iface{}
		}
	} else {
		if x.T != nil && types.Identical(x.T, ins.AssertedType) {
			ok, res = true, x.V
		} else {
			res = zero(ins.AssertedType)
		}
	}
	if ins.CommaOk {
		return Tuple{res, BoolV{C: ok}}
	}
	if !ok {
		ts := "<nil>"
		if x.T != nil {
			ts = x.T.String()
		}
		panic(goPanic{rtErr(fmt.Sprintf("interface conversion: interface is %s, not %v", ts, ins.AssertedType))})
	}
	return res
}

func (e *Exec) ifaceSatisfies(x Iface, at types.Type, it *types.Interface) bool {
	switch x.T {
	case rtypeMarker:
		return isNamed(at, "reflect", "Type") || it.NumMethods() == 0 || isNamed(at, "fmt", "Stringer")
	case ctxMarker:
		return isNamed(at, "context", "Context") || it.NumMethods() == 0
	}
	return types.Implements(x.T, it)
}

func fmtFloat(f float64) string {
	if f == math.Trunc(f) && math.Abs(f) < 1e15 {
		return strconv.FormatFloat(f, 'f', -1, 64)
	}
	return strconv.FormatFloat(f, 'g', -1, 64)
}
