package main

import (
	"golang.org/x/tools/go/ssa"
)

// jsonIntrinsic: models of sonic / encoding/json entry points (filled in by jsonmodel.go).
func (e *Exec) jsonIntrinsic(name string, fn *ssa.Function, args []Value) (Value, bool) {
	return e.jsonModel(name, fn, args)
}
