package main

import (
	"encoding/json"
	"reflect"
	"fmt"
	"go/types"
	"strconv"
	"strings"

	"golang.org/x/tools/go/ssa"
)

// JSON layer model (sonic / encoding/json): a lossless structural encoding. Marshal snapshots the value
// tree (deep copy following pointers, slices, maps, interfaces) into an engine-side blob table and returns
// the concrete bytes "@J<id>@"; Unmarshal of such bytes deep-copies the snapshot into the target.
// Concrete JSON text for basic values ("null", numbers, quoted strings, true/false) is also understood.
// That the real JSON layer round-trips is an assumption of every check that goes through it.

type jsonBlob struct {
	t types.Type
	v Value
}

type jsonState struct {
	blobs []jsonBlob
}

func (e *Exec) jstate() *jsonState {
	if v, ok := e.nativeObjs["json"]; ok {
		return v.(*jsonState)
	}
	s := &jsonState{}
	e.nativeObjs["json"] = s
	return s
}

type dcKey struct {
	c    *Cell
	path string
}

// deepCopy copies a value of static type t, duplicating everything reachable.
func (e *Exec) deepCopy(t types.Type, v Value, memo map[interface{}]Value) Value {
	switch x := v.(type) {
	case IntV, BoolV, StrV, float64, complex128, RType:
		return v
	case nil:
		return nil
	case *StructV:
		st := under(t).(*types.Struct)
		n := &StructV{F: make([]Value, len(x.F))}
		for i, f := range x.F {
			n.F[i] = e.deepCopy(st.Field(i).Type(), f, memo)
		}
		return n
	case *ArrayV:
		et := under(t).(*types.Array).Elem()
		n := &ArrayV{E: make([]Value, len(x.E))}
		for i, f := range x.E {
			n.E[i] = e.deepCopy(et, f, memo)
		}
		return n
	case Ptr:
		if x.IsNil() {
			return x
		}
		k := dcKey{x.C, x.Path}
		if r, ok := memo[k]; ok {
			return r
		}
		c := e.newCell(nil)
		np := Ptr{C: c}
		memo[k] = np
		c.V = e.deepCopy(under(t).(*types.Pointer).Elem(), loadRaw(x), memo)
		return np
	case SliceV:
		if x.Arr == nil {
			return x
		}
		et := under(t).(*types.Slice).Elem()
		arr := &ArrayV{E: make([]Value, x.Len)}
		for i := 0; i < x.Len; i++ {
			arr.E[i] = e.deepCopy(et, loadRaw(mkPtr(x.Arr, []int{x.Off + i})), memo)
		}
		return SliceV{Arr: e.newCell(arr), Len: x.Len, Cap: x.Len}
	case *MapObj:
		if x == nil {
			return x
		}
		if r, ok := memo[x]; ok {
			return r
		}
		mt := under(t).(*types.Map)
		n := e.newMap("json", mt.Key())
		memo[x] = n
		for _, en := range x.E {
			n.E = append(n.E, &MapEntry{K: e.deepCopy(mt.Key(), en.K, memo), V: e.deepCopy(mt.Elem(), en.V, memo)})
		}
		return n
	case Iface:
		if x.T == nil || x.T == rtypeMarker {
			return x
		}
		return Iface{T: x.T, V: e.deepCopy(x.T, x.V, memo)}
	}
	panic(unsupported{fmt.Sprintf("json model: cannot encode %T", v)})
}

func (e *Exec) bytesVal(s string) SliceV {
	var es []Value
	for i := 0; i < len(s); i++ {
		es = append(es, IntV{C: uint64(s[i])})
	}
	return e.mkSlice(types.Typ[types.Uint8], es)
}

func (e *Exec) concBytes(v Value) (string, bool) {
	s, ok := v.(SliceV)
	if !ok {
		return "", false
	}
	var sb strings.Builder
	for i := 0; i < s.Len; i++ {
		c := loadRaw(mkPtr(s.Arr, []int{s.Off + i})).(IntV)
		if c.Sym != nil {
			return "", false
		}
		sb.WriteByte(byte(c.C))
	}
	return sb.String(), true
}

func (e *Exec) errNew(msg string) Iface {
	et := e.prog.ImportedPackage("errors").Type("errorString").Type()
	st := zero(et).(*StructV)
	st.F[0] = StrV{C: msg}
	return Iface{T: types.NewPointer(et), V: Ptr{C: e.newCell(st)}}
}

func (e *Exec) jsonMarshalToken(v Iface) string {
	js := e.jstate()
	if v.T == nil {
		return "null"
	}
	js.blobs = append(js.blobs, jsonBlob{t: v.T, v: e.deepCopy(v.T, v.V, map[interface{}]Value{})})
	return fmt.Sprintf("@J%d@", len(js.blobs)-1)
}

func (e *Exec) jsonUnmarshalInto(data string, target Iface) Value {
	if target.T == nil {
		return e.errNew("json: Unmarshal(nil)")
	}
	pt, ok := under(target.T).(*types.Pointer)
	tp, _ := target.V.(Ptr)
	if !ok || tp.IsNil() {
		return e.errNew("json: Unmarshal(non-pointer or nil)")
	}
	tt := pt.Elem()
	if strings.HasPrefix(data, "@J") && strings.HasSuffix(data, "@") {
		id, err := strconv.Atoi(data[2 : len(data)-1])
		js := e.jstate()
		if err != nil || id < 0 || id >= len(js.blobs) {
			return e.errNew("json: bad blob token")
		}
		b := js.blobs[id]
		return e.jsonAssign(tp, tt, b.t, e.deepCopy(b.t, b.v, map[interface{}]Value{}))
	}
	if data == "null" {
		switch under(tt).(type) {
		case *types.Pointer, *types.Map, *types.Slice, *types.Interface:
			e.store(tp, zero(tt))
		}
		return Iface{}
	}
	if !json.Valid([]byte(data)) {
		// truncated / empty / corrupted input (a cut blob token is not valid JSON either): every decoder reports it
		if len(data) == 0 {
			return e.errNew("unexpected end of JSON input")
		}
		return e.errNew("json: syntax error in input")
	}
	// concrete JSON text into (pointer chains to) basic types
	base := tt
	depth := 0
	for {
		p, ok := under(base).(*types.Pointer)
		if !ok {
			break
		}
		base = p.Elem()
		depth++
	}
	var val Value
	switch b := under(base).(type) {
	case *types.Basic:
		switch {
		case b.Info()&types.IsString != 0:
			var s string
			if json.Unmarshal([]byte(data), &s) != nil {
				return e.errNew("json: cannot unmarshal into string")
			}
			val = StrV{C: s}
		case b.Info()&types.IsBoolean != 0:
			var x bool
			if json.Unmarshal([]byte(data), &x) != nil {
				return e.errNew("json: cannot unmarshal into bool")
			}
			val = BoolV{C: x}
		case b.Info()&types.IsInteger != 0:
			var x int64
			if json.Unmarshal([]byte(data), &x) != nil {
				var u uint64
				if json.Unmarshal([]byte(data), &u) != nil {
					return e.errNew("json: cannot unmarshal into integer")
				}
				x = int64(u)
			}
			bits, _, _ := intBits(base)
			val = IntV{C: trunc(uint64(x), bits)}
		case b.Info()&types.IsFloat != 0:
			var x float64
			if json.Unmarshal([]byte(data), &x) != nil {
				return e.errNew("json: cannot unmarshal into float")
			}
			val = x
		}
	case *types.Interface:
		var x interface{}
		if json.Unmarshal([]byte(data), &x) != nil {
			return e.errNew("json: syntax error")
		}
		switch y := x.(type) {
		case string:
			val = Iface{T: types.Typ[types.String], V: StrV{C: y}}
		case float64:
			val = Iface{T: types.Typ[types.Float64], V: y}
		case bool:
			val = Iface{T: types.Typ[types.Bool], V: BoolV{C: y}}
		default:
			panic(unsupported{"json model: concrete JSON composite into interface"})
		}
	}
	if val == nil {
		panic(unsupported{"json model: concrete JSON text into " + e.typeString(tt)})
	}
	for i := 0; i < depth; i++ {
		val = Ptr{C: e.newCell(val)}
	}
	e.store(tp, val)
	return Iface{}
}

// jsonAssign stores a decoded value of type st into a location of type tt, allocating pointer chains
// like encoding/json does.
func (e *Exec) jsonAssign(tp Ptr, tt, st types.Type, v Value) Value {
	if types.Identical(tt, st) {
		if sv, ok := v.(*StructV); ok {
			// decoding into an existing struct value only touches the members present in the JSON text:
			// members dropped by `omitempty` keep whatever the target already holds
			e.jsonMergeStruct(tp, tt, sv)
			return Iface{}
		}
		if p, ok := under(tt).(*types.Pointer); ok {
			// a non-nil pointer target is decoded into: the existing pointee is reused, like the real decoders do
			if cur, ok := e.load(tp).(Ptr); ok && !cur.IsNil() {
				if nv, ok := v.(Ptr); ok && !nv.IsNil() {
					return e.jsonAssign(cur, p.Elem(), p.Elem(), loadRaw(nv))
				}
			}
		}
		e.store(tp, v)
		return Iface{}
	}
	// target is a pointer chain to st: allocate
	if p, ok := under(tt).(*types.Pointer); ok {
		c := e.newCell(zero(p.Elem()))
		if r := e.jsonAssign(Ptr{C: c}, p.Elem(), st, v); r.(Iface).T != nil {
			return r
		}
		e.store(tp, Ptr{C: c})
		return Iface{}
	}
	// source is a pointer to the target type (Marshal(&x) / Unmarshal(&x))
	if p, ok := under(st).(*types.Pointer); ok {
		pv := v.(Ptr)
		if pv.IsNil() {
			return e.jsonUnmarshalInto("null", Iface{T: types.NewPointer(tt), V: tp})
		}
		return e.jsonAssign(tp, tt, p.Elem(), loadRaw(pv))
	}
	if _, ok := under(tt).(*types.Interface); ok {
		if types.AssignableTo(st, tt) {
			e.store(tp, Iface{T: st, V: v})
			return Iface{}
		}
	}
	// same underlying basic kind
	if b1, ok := under(tt).(*types.Basic); ok {
		if b2, ok := under(st).(*types.Basic); ok && b1.Kind() == b2.Kind() {
			e.store(tp, v)
			return Iface{}
		}
	}
	return e.errNew(fmt.Sprintf("json: cannot unmarshal %s into Go value of type %s", e.typeString(st), e.typeString(tt)))
}

func (e *Exec) jsonModel(name string, fn *ssa.Function, args []Value) (Value, bool) {
	switch name {
	case "github.com/bytedance/sonic.Marshal", "encoding/json.Marshal":
		tok := e.jsonMarshalToken(args[0].(Iface))
		return Tuple{e.bytesVal(tok), Iface{}}, true
	case "github.com/bytedance/sonic.MarshalString":
		tok := e.jsonMarshalToken(args[0].(Iface))
		return Tuple{StrV{C: tok}, Iface{}}, true
	case "github.com/bytedance/sonic.Unmarshal", "encoding/json.Unmarshal":
		data, ok := e.concBytes(args[0])
		if !ok {
			panic(unsupported{"json model: symbolic bytes"})
		}
		return e.jsonUnmarshalInto(data, args[1].(Iface)), true
	case "github.com/bytedance/sonic.UnmarshalString":
		s := args[0].(StrV)
		if s.Sym != nil {
			panic(unsupported{"json model: symbolic JSON text"})
		}
		return e.jsonUnmarshalInto(s.C, args[1].(Iface)), true
	}
	return nil, false
}

func jsonOmitEmpty(tag string) (omit, skip bool) {
	j := reflectStructTagGet(tag, "json")
	if j == "-" {
		return false, true
	}
	parts := strings.Split(j, ",")
	for _, p := range parts[1:] {
		if p == "omitempty" {
			return true, false
		}
	}
	return false, false
}

func (e *Exec) jsonMergeStruct(tp Ptr, t types.Type, v *StructV) {
	st := under(t).(*types.Struct)
	for i := 0; i < st.NumFields(); i++ {
		f := st.Field(i)
		if !f.Exported() {
			continue
		}
		omit, skip := jsonOmitEmpty(st.Tag(i))
		if skip {
			continue
		}
		if omit {
			z := e.isZero(f.Type(), v.F[i])
			empty := z.Sym == nil && z.C
			switch x := v.F[i].(type) {
			case SliceV:
				empty = x.Len == 0
			case *MapObj:
				empty = x == nil || len(x.E) == 0
			case *StructV:
				empty = false // encoding/json never omits structs
			}
			if z.Sym != nil {
				empty = e.branch(z.Sym)
			}
			if empty {
				continue
			}
		}
		if sv, ok := v.F[i].(*StructV); ok && !isNamed(f.Type(), "reflect", "Value") {
			e.jsonMergeStruct(tp.sub(i), f.Type(), sv)
			continue
		}
		e.store(tp.sub(i), v.F[i])
	}
}

func reflectStructTagGet(tag, key string) string { return reflect.StructTag(tag).Get(key) }
