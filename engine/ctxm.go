package main

import (
	"go/types"
)

// CtxObj models context.Context values: a linked list of key/value pairs plus cancellation state.
type CtxObj struct {
	parent   *CtxObj
	key, val Value
	cancel   *cancelState // non-nil for contexts created by WithCancel
}
type cancelState struct {
	done     *ChanObj
	canceled bool
	cause    Value // error passed to a CancelCauseFunc (nil: context.Canceled)
	children []*cancelState
}

func (e *Exec) cancelAll(cs *cancelState) { e.cancelCause(cs, nil) }

func (e *Exec) cancelCause(cs *cancelState, cause Value) {
	if cs.canceled {
		return
	}
	cs.canceled = true
	cs.cause = cause
	e.chanClose(cs.done)
	for _, ch := range cs.children {
		e.cancelCause(ch, cause)
	}
}

var ctxMarker = types.NewNamed(types.NewTypeName(0, nil, "ctxobj", nil), types.NewStruct(nil, nil), nil)

func mkCtx(c *CtxObj) Value { return Iface{T: ctxMarker, V: c} }

func ctxOf(v Value) *CtxObj {
	i, ok := v.(Iface)
	if !ok || i.T == nil {
		panic(goPanic{Iface{T: types.Typ[types.String], V: StrV{C: "cannot create context from nil parent"}}})
	}
	c, ok := i.V.(*CtxObj)
	if !ok {
		panic(unsupported{"user-defined context.Context implementation"})
	}
	return c
}

func (c *CtxObj) cancelOf() *cancelState {
	for x := c; x != nil; x = x.parent {
		if x.cancel != nil {
			return x.cancel
		}
	}
	return nil
}

func (e *Exec) ctxIntrinsic(name string, args []Value) (Value, bool) {
	switch name {
	case "context.Background", "context.TODO":
		return mkCtx(&CtxObj{}), true
	case "context.WithValue":
		p := ctxOf(args[0])
		k := args[1].(Iface)
		if k.T == nil {
			panic(goPanic{Iface{T: types.Typ[types.String], V: StrV{C: "nil key"}}})
		}
		return mkCtx(&CtxObj{parent: p, key: args[1], val: args[2]}), true
	case "context.Cause":
		c := ctxOf(args[0])
		if cs := c.cancelOf(); cs != nil && cs.canceled {
			if i, ok := cs.cause.(Iface); ok && i.T != nil {
				return i, true
			}
			g := e.prog.ImportedPackage("context").Var("Canceled")
			return e.load(e.global(g).(Ptr)), true
		}
		return Iface{}, true
	case "context.WithCancel", "context.WithCancelCause":
		p := ctxOf(args[0])
		cs := &cancelState{done: e.newChan(types.NewStruct(nil, nil), 0)}
		if pc := p.cancelOf(); pc != nil {
			if pc.canceled {
				cs.canceled = true
				cs.cause = pc.cause
				cs.done.closed = true
			} else {
				pc.children = append(pc.children, cs)
			}
		}
		child := &CtxObj{parent: p, cancel: cs}
		cancelFn := nativeFn{name: "context.CancelFunc", f: func(e *Exec, _ []Value) Value {
			e.cancelAll(cs)
			return nil
		}}
		if name == "context.WithCancelCause" {
			cancelFn = nativeFn{name: "context.CancelCauseFunc", f: func(e *Exec, a []Value) Value {
				var cause Value
				if len(a) > 0 {
					cause = a[0]
				}
				e.cancelCause(cs, cause)
				return nil
			}}
		}
		return Tuple{mkCtx(child), cancelFn}, true
	}
	return nil, false
}

func (e *Exec) ctxMethod(c *CtxObj, m string, args []Value) Value {
	switch m {
	case "Value":
		for x := c; x != nil; x = x.parent {
			if x.key == nil {
				continue
			}
			k := x.key.(Iface)
			if e.truth(e.equal(nil, k, args[0])) {
				return x.val
			}
		}
		return Iface{}
	case "Done":
		// nearest cancelled ancestor wins; otherwise nearest cancellable one; nil channel = never
		if cs := c.cancelOf(); cs != nil {
			return cs.done
		}
		return (*ChanObj)(nil)
	case "Err":
		if cs := c.cancelOf(); cs != nil && cs.canceled {
			g := e.prog.ImportedPackage("context").Var("Canceled")
			return e.load(e.global(g).(Ptr))
		}
		return Iface{}
	case "Deadline":
		panic(unsupported{"context.Deadline"})
	}
	panic(unsupported{"context." + m})
}
