package main

import (
	"fmt"
	"go/constant"
	"go/token"
	"go/types"
	"os"
	"strings"
	"sync"
	"time"

	"golang.org/x/tools/go/ssa"
)

// Config for one exploration (shared, read-only during paths except via Exec copies).
type Config struct {
	MaxSteps     int // instruction budget per path
	MaxPreempt   int
	SolverBin    string
	SolverTimeMs int
	Verbose      bool
}

// Exec is one path execution (replay-based forking).
type Exec struct {
	sortMode  int // 0 undecided, 1 stable, 2 equal elements reversed (sort.Slice is not stable by contract)
	w         *World
	prog      *ssa.Program
	solver    *Solver
	decisions []int // prefix to replay
	pos       int
	taken     []int    // decisions taken on this path
	widths    []int    // number of options at each decision point
	kinds     []string // label of each decision point
	pc        []*Term  // path condition
	syms      []symInfo
	steps     int
	maxSteps  int
	depthViol int // vcfg("depthviolation", n)
	nextID    int
	funcs     map[*ssa.Function]bool // functions executed
	symCount  map[string]int
	globals   map[*ssa.Global]*Cell

	sch *schedState

	// configuration set by the harness through vcfg
	nondetCap   bool
	mapOrderAll bool
	appendCapFn map[string]bool
	mapOrderFn  map[string]bool // nondeterministic order for range statements inside these functions (substring match)
	fifoSched   bool
	selectFirst bool
	raceOn      bool

	builders map[string]StrV
	mutexes  map[string]*mutexState
	conds    map[string]*condState
	onces    map[string]*onceState
	wgs      map[string]*wgState
	atomics  map[string]bool

	unknownBranches int
	asserts         int
	assertsSym      int
	inconcl         []string // reasons that make this path inconclusive (solver unknown etc.)
	cexModel        map[string]string
	vlogs           []string
	reached         map[string]bool
	initDone        bool
	inInit          bool
	uninterp        map[string]bool
	solverCalls     int
	chanCount       int
	race            *raceState
	nativeObjs      map[string]Value
}

type symInfo struct {
	Name string
	Sort string
	Kind string // "int","bool","str","range"
}

type pathEnd struct{ reason string }
type violationFound struct{ msg string }
type unsupported struct{ what string }
type inconclusive struct{ what string }
type threadAbort struct{}

type fnInfo struct {
	slots map[ssa.Value]int
	n     int
}

var fnInfos sync.Map // *ssa.Function -> *fnInfo

func getFnInfo(fn *ssa.Function) *fnInfo {
	if v, ok := fnInfos.Load(fn); ok {
		return v.(*fnInfo)
	}
	fi := &fnInfo{slots: map[ssa.Value]int{}}
	add := func(v ssa.Value) {
		fi.slots[v] = fi.n
		fi.n++
	}
	for _, p := range fn.Params {
		add(p)
	}
	for _, p := range fn.FreeVars {
		add(p)
	}
	for _, b := range fn.Blocks {
		for _, ins := range b.Instrs {
			if v, ok := ins.(ssa.Value); ok {
				add(v)
			}
		}
	}
	if fn.Recover != nil {
		// already included in Blocks
	}
	act, _ := fnInfos.LoadOrStore(fn, fi)
	return act.(*fnInfo)
}

type panicState struct {
	val       Value
	recovered bool
}

type frame struct {
	fn      *ssa.Function
	info    *fnInfo
	env     []Value
	block   *ssa.BasicBlock
	prev    *ssa.BasicBlock
	defers  []deferred
	result  Value
	deferOf *panicState // non-nil when this frame is a deferred call run while panicking
}

type deferred struct {
	fnv  Value
	args []Value
	b    *ssa.Builtin
	cc   *ssa.CallCommon
}

func (e *Exec) newCell(v Value) *Cell {
	e.nextID++
	return &Cell{V: v, id: e.nextID}
}

// ---------------------------------------------------------------- decisions

// choose resolves a nondeterministic choice among n options (already pruned to feasible ones).
func (e *Exec) choose(n int, kind string) int {
	if n <= 0 {
		panic(pathEnd{"infeasible"})
	}
	var d int
	if e.pos < len(e.decisions) {
		d = e.decisions[e.pos]
		if d >= n {
			panic(fmt.Sprintf("replay divergence: decision %d=%d but only %d options (%s)", e.pos, d, n, kind))
		}
	} else {
		d = 0
	}
	e.pos++
	e.taken = append(e.taken, d)
	e.widths = append(e.widths, n)
	e.kinds = append(e.kinds, kind)
	return d
}
func (e *Exec) replaying() bool { return e.pos < len(e.decisions) }

func (e *Exec) addPC(t *Term) {
	e.pc = append(e.pc, t)
	e.solver.Assert(t)
}

func (e *Exec) check(extra *Term) string {
	if !e.w.deadline.IsZero() && time.Now().After(e.w.deadline) {
		panic(inconclusive{"wall-clock budget of the harness used up inside a path (solver too slow on this tree): bound too small"})
	}
	e.solverCalls++
	r := e.solver.CheckWith(extra)
	if strings.HasPrefix(r, "unknown") {
		// incremental string solving occasionally gives up; one retry
		r = e.solver.CheckWith(extra)
		if strings.HasPrefix(r, "unknown") && os.Getenv("GOSYM_DEBUG_UNKNOWN") != "" {
			fmt.Fprintf(os.Stderr, "UNKNOWN(%s) extra=%s\n  pc:\n", r, extra.S)
			for _, t := range e.pc {
				fmt.Fprintf(os.Stderr, "    %s\n", t.S)
			}
		}
	}
	return r
}

// branch decides a symbolic boolean; returns concrete outcome and extends PC.
// Every symbolic branch is recorded as a decision (forced ones with no alternative) so that a
// replayed prefix never needs the solver and stays aligned.
func (e *Exec) branch(c *Term) bool {
	if c.S == "true" {
		return true
	}
	if c.S == "false" {
		return false
	}
	if e.replaying() {
		d := e.decisions[e.pos]
		e.pos++
		e.taken = append(e.taken, d)
		e.widths = append(e.widths, d+1) // no alternatives are generated for replayed decisions anyway
		e.kinds = append(e.kinds, "br")
		if d == 0 {
			e.addPC(c)
			return true
		}
		e.addPC(tnot(c))
		return false
	}
	rec := func(d, w int) {
		e.pos++
		e.taken = append(e.taken, d)
		e.widths = append(e.widths, w)
		e.kinds = append(e.kinds, "br")
	}
	rt := e.check(c)
	if rt == "unsat" {
		// PC is satisfiable by invariant, so the negation holds on this path
		rec(1, 2)
		e.addPC(tnot(c))
		return false
	}
	rf := e.check(tnot(c))
	if rf == "unsat" {
		rec(0, 1)
		e.addPC(c)
		return true
	}
	if strings.HasPrefix(rt, "unknown") || strings.HasPrefix(rf, "unknown") {
		// keep both sides: exploring a possibly infeasible side cannot hide a violation, and every reported
		// violation is validated by a sat check of its path condition (see modelNow)
		e.unknownBranches++
	}
	rec(0, 2)
	e.addPC(c)
	return true
}

func (e *Exec) truth(v Value) bool {
	b := v.(BoolV)
	if b.Sym == nil {
		return b.C
	}
	return e.branch(b.Sym)
}

// concretize a symbolic int by forking over its feasible values in [lo,hi].
func (e *Exec) concretize(v IntV, bits int, lo, hi int) int {
	if v.Sym == nil {
		return int(sext(v.C, bits))
	}
	for k := lo; k <= hi; k++ {
		if e.branch(app("Bool", "=", v.Sym, bvConst(uint64(k), bits))) {
			return k
		}
	}
	panic(pathEnd{"concretize: outside range"})
}

func intTerm(v IntV, bits int) *Term {
	if v.Sym != nil {
		return v.Sym
	}
	return bvConst(v.C, bits)
}
func boolTerm(v BoolV) *Term {
	if v.Sym != nil {
		return v.Sym
	}
	return boolConst(v.C)
}
func strTerm(v StrV) *Term {
	if v.Sym != nil {
		return v.Sym
	}
	return &Term{smtStr(v.C), "String"}
}

func (e *Exec) constVal(c *ssa.Const) Value {
	t := c.Type()
	if c.Value == nil {
		return zero(t)
	}
	switch u := under(t).(type) {
	case *types.Basic:
		switch {
		case u.Info()&types.IsBoolean != 0:
			return BoolV{C: constant.BoolVal(c.Value)}
		case u.Info()&types.IsInteger != 0:
			bits, _, _ := intBits(t)
			if i, ok := constant.Int64Val(constant.ToInt(c.Value)); ok {
				return IntV{C: trunc(uint64(i), bits)}
			}
			ui, _ := constant.Uint64Val(constant.ToInt(c.Value))
			return IntV{C: trunc(ui, bits)}
		case u.Info()&types.IsString != 0:
			return StrV{C: constant.StringVal(c.Value)}
		case u.Info()&types.IsFloat != 0:
			f, _ := constant.Float64Val(c.Value)
			return f
		case u.Info()&types.IsComplex != 0:
			re, _ := constant.Float64Val(constant.Real(c.Value))
			im, _ := constant.Float64Val(constant.Imag(c.Value))
			return complex(re, im)
		}
	}
	panic(fmt.Sprintf("const %v : %v", c, t))
}

func (e *Exec) get(fr *frame, v ssa.Value) Value {
	switch x := v.(type) {
	case *ssa.Const:
		return e.constVal(x)
	case *ssa.Function:
		return x
	case *ssa.Builtin:
		return x
	case *ssa.Global:
		return e.global(x)
	}
	i, ok := fr.info.slots[v]
	if !ok {
		panic(fmt.Sprintf("get: no slot for %s (%T) in %s", v.Name(), v, fr.fn))
	}
	return fr.env[i]
}

func (e *Exec) set(fr *frame, v ssa.Value, x Value) {
	fr.env[fr.info.slots[v]] = x
}

func (e *Exec) global(g *ssa.Global) Value {
	c, ok := e.globals[g]
	if !ok {
		c = e.newCell(zero(g.Type().(*types.Pointer).Elem()))
		e.globals[g] = c
	}
	return Ptr{C: c}
}

// ---------------------------------------------------------------- calls

func (e *Exec) call(fnv Value, args []Value) Value {
	switch f := fnv.(type) {
	case *ssa.Function:
		return e.callFn(f, args, nil)
	case *Closure:
		return e.callFn(f.Fn, args, f.Env)
	case *ssa.Builtin:
		return e.builtin(f, args, nil)
	case nativeFn:
		return f.f(e, args)
	case nil:
		panic(goPanic{rtErr("invalid memory address or nil pointer dereference (call of nil func)")})
	}
	panic(fmt.Sprintf("call %T", fnv))
}

// nativeFn is an engine-implemented function value (used by models that must hand a func to interpreted code).
type nativeFn struct {
	name string
	f    func(e *Exec, args []Value) Value
}

func (e *Exec) callFn(fn *ssa.Function, args []Value, env []Value) (res Value) {
	if r, ok := e.intrinsic(fn, args); ok {
		return r
	}
	if fn.Blocks == nil {
		if e.inInit {
			return zeroResult(fn) // initialisers of globals that need un-modelled libraries: left zero
		}
		panic(unsupported{"no body: " + fn.String() + " called from " + e.stack()})
	}
	th := e.sch.cur
	if e.depthViol > 0 && len(th.stack) > e.depthViol {
		panic(violationFound{fmt.Sprintf("unbounded recursion: the call stack passed %d frames in %s (natively a stack overflow, which no caller can recover from)", e.depthViol, fn.String())})
	}
	if len(th.stack) > 400 {
		panic(pathEnd{"unwind: call depth exceeded"})
	}
	e.funcs[fn] = true
	info := getFnInfo(fn)
	fr := &frame{fn: fn, info: info, env: make([]Value, info.n)}
	if th.pendingDeferPanic != nil {
		fr.deferOf = th.pendingDeferPanic
		th.pendingDeferPanic = nil
	}
	for i, p := range fn.Params {
		fr.env[info.slots[p]] = args[i]
	}
	for i, fv := range fn.FreeVars {
		fr.env[info.slots[fv]] = env[i]
	}
	fr.block = fn.Blocks[0]
	th.stack = append(th.stack, fr)
	defer func() { th.stack = th.stack[:len(th.stack)-1] }()

	pv := e.runProtected(fr)
	if pv == nil {
		return fr.result
	}
	// panicking: run remaining defers, each may recover or re-panic
	ps := &panicState{val: pv.v}
	for len(fr.defers) > 0 {
		d := fr.defers[len(fr.defers)-1]
		fr.defers = fr.defers[:len(fr.defers)-1]
		np := e.runDeferredProtected(d, ps)
		if np != nil {
			ps = &panicState{val: np.v}
		}
	}
	if !ps.recovered {
		panic(goPanic{ps.val})
	}
	if fn.Recover != nil {
		fr.block = fn.Recover
		fr.prev = nil
		if pv2 := e.runProtected(fr); pv2 != nil {
			panic(*pv2)
		}
		return fr.result
	}
	return zeroResult(fn)
}

func (e *Exec) runProtected(fr *frame) (pv *goPanic) {
	defer func() {
		if r := recover(); r != nil {
			if gp, ok := r.(goPanic); ok {
				pv = &gp
				return
			}
			panic(r)
		}
	}()
	e.runFrame(fr)
	return nil
}

func (e *Exec) runDeferredProtected(d deferred, ps *panicState) (pv *goPanic) {
	defer func() {
		if r := recover(); r != nil {
			if gp, ok := r.(goPanic); ok {
				pv = &gp
				return
			}
			panic(r)
		}
	}()
	e.runDeferred(d, ps)
	return nil
}

func (e *Exec) runDeferred(d deferred, ps *panicState) {
	th := e.sch.cur
	if d.b != nil {
		if d.b.Name() == "recover" {
			if ps != nil {
				ps.recovered = true
			}
			return
		}
		e.builtin(d.b, d.args, d.cc)
		return
	}
	th.pendingDeferPanic = ps
	defer func() { th.pendingDeferPanic = nil }()
	e.call(d.fnv, d.args)
}

func zeroResult(fn *ssa.Function) Value {
	r := fn.Signature.Results()
	switch r.Len() {
	case 0:
		return nil
	case 1:
		return zero(r.At(0).Type())
	}
	return zero(r)
}

func (e *Exec) runFrame(fr *frame) {
	for fr.block != nil {
		blk := fr.block
		// phis first (parallel assignment)
		nphi := 0
		for _, ins := range blk.Instrs {
			if _, ok := ins.(*ssa.Phi); ok {
				nphi++
			} else {
				break
			}
		}
		if nphi > 0 {
			idx := -1
			for i, p := range blk.Preds {
				if p == fr.prev {
					idx = i
					break
				}
			}
			if idx < 0 {
				panic("phi: predecessor not found in " + fr.fn.String())
			}
			vals := make([]Value, nphi)
			for i := 0; i < nphi; i++ {
				vals[i] = e.get(fr, blk.Instrs[i].(*ssa.Phi).Edges[idx])
			}
			for i := 0; i < nphi; i++ {
				e.set(fr, blk.Instrs[i].(*ssa.Phi), vals[i])
			}
		}
		jumped := false
		for _, ins := range blk.Instrs[nphi:] {
			e.steps++
			if e.steps > e.maxSteps {
				panic(pathEnd{"unwind: step bound exceeded"})
			}
			if e.visit(fr, ins) {
				jumped = true
				break
			}
		}
		if !jumped {
			panic("fell off block in " + fr.fn.String())
		}
	}
}

func derefType(t types.Type) types.Type { return under(t).(*types.Pointer).Elem() }

// visit returns true when control transferred.
func (e *Exec) visit(fr *frame, instr ssa.Instruction) bool {
	switch ins := instr.(type) {
	case *ssa.DebugRef:
	case *ssa.Alloc:
		c := e.newCell(zero(derefType(ins.Type())))
		e.set(fr, ins, Ptr{C: c})
	case *ssa.UnOp:
		e.set(fr, ins, e.unop(ins, e.get(fr, ins.X)))
	case *ssa.BinOp:
		e.set(fr, ins, e.binop(ins.Op, ins.X.Type(), ins.Y.Type(), e.get(fr, ins.X), e.get(fr, ins.Y)))
	case *ssa.Store:
		e.store(e.get(fr, ins.Addr).(Ptr), e.get(fr, ins.Val))
	case *ssa.FieldAddr:
		p := e.get(fr, ins.X).(Ptr)
		if p.IsNil() {
			panic(goPanic{rtErr("invalid memory address or nil pointer dereference")})
		}
		e.set(fr, ins, p.sub(ins.Field))
	case *ssa.Field:
		e.set(fr, ins, copyVal(e.get(fr, ins.X).(*StructV).F[ins.Field]))
	case *ssa.IndexAddr:
		x := e.get(fr, ins.X)
		idx := e.get(fr, ins.Index).(IntV)
		switch b := x.(type) {
		case SliceV:
			i := e.indexIn(idx, ins.Index.Type(), b.Len)
			e.set(fr, ins, mkPtr(b.Arr, []int{b.Off + i}))
		case Ptr: // *array
			arr := e.load(b).(*ArrayV)
			i := e.indexIn(idx, ins.Index.Type(), len(arr.E))
			e.set(fr, ins, b.sub(i))
		default:
			panic(fmt.Sprintf("IndexAddr %T", x))
		}
	case *ssa.Index:
		x := e.get(fr, ins.X)
		idx := e.get(fr, ins.Index).(IntV)
		switch b := x.(type) {
		case *ArrayV:
			i := e.indexIn(idx, ins.Index.Type(), len(b.E))
			e.set(fr, ins, copyVal(b.E[i]))
		case StrV:
			if b.Sym != nil {
				panic(unsupported{"index of symbolic string"})
			}
			i := e.indexIn(idx, ins.Index.Type(), len(b.C))
			e.set(fr, ins, IntV{C: uint64(b.C[i])})
		default:
			panic(fmt.Sprintf("Index %T", x))
		}
	case *ssa.Lookup:
		e.set(fr, ins, e.lookup(ins, e.get(fr, ins.X), e.get(fr, ins.Index)))
	case *ssa.MapUpdate:
		m := e.get(fr, ins.Map).(*MapObj)
		if m == nil {
			panic(goPanic{rtErr("assignment to entry in nil map")})
		}
		e.mapUpdate(m, ins.Map.Type().Underlying().(*types.Map).Key(), e.get(fr, ins.Key), copyVal(e.get(fr, ins.Value)))
	case *ssa.MakeMap:
		e.set(fr, ins, e.newMap(fr.fn.String(), under(ins.Type()).(*types.Map).Key()))
	case *ssa.MakeSlice:
		n := e.concretize(e.get(fr, ins.Len).(IntV), 64, 0, 16)
		cp := e.concretize(e.get(fr, ins.Cap).(IntV), 64, 0, 64)
		if n < 0 || cp < n {
			panic(goPanic{rtErr("makeslice: len out of range")})
		}
		et := under(ins.Type()).(*types.Slice).Elem()
		arr := &ArrayV{E: make([]Value, cp)}
		for i := range arr.E {
			arr.E[i] = zero(et)
		}
		e.set(fr, ins, SliceV{Arr: e.newCell(arr), Len: n, Cap: cp})
	case *ssa.Slice:
		e.set(fr, ins, e.slice(fr, ins))
	case *ssa.MakeInterface:
		e.set(fr, ins, Iface{T: ins.X.Type(), V: copyVal(e.get(fr, ins.X))})
	case *ssa.ChangeInterface:
		e.set(fr, ins, e.get(fr, ins.X))
	case *ssa.ChangeType:
		e.set(fr, ins, e.get(fr, ins.X))
	case *ssa.Convert:
		e.set(fr, ins, e.convert(ins.Type(), ins.X.Type(), e.get(fr, ins.X)))
	case *ssa.SliceToArrayPointer:
		panic(unsupported{"SliceToArrayPointer"})
	case *ssa.TypeAssert:
		e.set(fr, ins, e.typeAssert(ins, e.get(fr, ins.X).(Iface)))
	case *ssa.MakeClosure:
		env := make([]Value, len(ins.Bindings))
		for i, b := range ins.Bindings {
			env[i] = e.get(fr, b)
		}
		e.nextID++
		e.set(fr, ins, &Closure{Fn: ins.Fn.(*ssa.Function), Env: env, id: e.nextID})
	case *ssa.Extract:
		e.set(fr, ins, e.get(fr, ins.Tuple).(Tuple)[ins.Index])
	case *ssa.Range:
		e.set(fr, ins, e.mkIter(fr, e.get(fr, ins.X)))
	case *ssa.Next:
		e.set(fr, ins, e.next(e.get(fr, ins.Iter).(*MapIter), ins))
	case *ssa.Call:
		e.set(fr, ins, e.doCall(fr, &ins.Call))
	case *ssa.Defer:
		d := e.prepareDeferred(fr, &ins.Call)
		fr.defers = append(fr.defers, d)
	case *ssa.RunDefers:
		for len(fr.defers) > 0 {
			d := fr.defers[len(fr.defers)-1]
			fr.defers = fr.defers[:len(fr.defers)-1]
			e.runDeferred(d, nil)
		}
	case *ssa.Panic:
		panic(goPanic{e.get(fr, ins.X)})
	case *ssa.If:
		succ := 1
		if e.truth(e.get(fr, ins.Cond)) {
			succ = 0
		}
		fr.prev, fr.block = fr.block, fr.block.Succs[succ]
		return true
	case *ssa.Jump:
		fr.prev, fr.block = fr.block, fr.block.Succs[0]
		return true
	case *ssa.Return:
		switch len(ins.Results) {
		case 0:
		case 1:
			fr.result = e.get(fr, ins.Results[0])
		default:
			t := make(Tuple, len(ins.Results))
			for i, r := range ins.Results {
				t[i] = e.get(fr, r)
			}
			fr.result = t
		}
		fr.block = nil
		return true
	default:
		if e.visitChan(fr, instr) {
			return false
		}
		panic(unsupported{fmt.Sprintf("instr %T in %s", instr, fr.fn)})
	}
	return false
}

// indexIn concretises an index and bounds-checks it against n.
func (e *Exec) indexIn(idx IntV, t types.Type, n int) int {
	bits, signed, ok := intBits(t)
	if !ok {
		bits, signed = 64, true
	}
	if idx.Sym == nil {
		var i int64
		if signed {
			i = sext(idx.C, bits)
		} else {
			i = int64(idx.C)
		}
		if i < 0 || i >= int64(n) {
			panic(goPanic{rtErr(fmt.Sprintf("index out of range [%d] with length %d", i, n))})
		}
		return int(i)
	}
	// in range?
	var inRange *Term
	if signed {
		inRange = app("Bool", "and", app("Bool", "bvsge", idx.Sym, bvConst(0, bits)), app("Bool", "bvslt", idx.Sym, bvConst(uint64(n), bits)))
	} else {
		inRange = app("Bool", "bvult", idx.Sym, bvConst(uint64(n), bits))
	}
	if !e.branch(inRange) {
		panic(goPanic{rtErr("index out of range (symbolic index)")})
	}
	for k := 0; k < n; k++ {
		if e.branch(app("Bool", "=", idx.Sym, bvConst(uint64(k), bits))) {
			return k
		}
	}
	panic(pathEnd{"infeasible index"})
}

func (e *Exec) prepareDeferred(fr *frame, c *ssa.CallCommon) deferred {
	fnv, args := e.prepareCall(fr, c)
	if b, ok := fnv.(*ssa.Builtin); ok {
		return deferred{b: b, args: args, cc: c}
	}
	return deferred{fnv: fnv, args: args}
}

type nativeMethod struct {
	recv Value
	m    string
}

func (e *Exec) prepareCall(fr *frame, c *ssa.CallCommon) (Value, []Value) {
	var args []Value
	var fnv Value
	if c.IsInvoke() {
		recv := e.get(fr, c.Value).(Iface)
		if recv.T == nil {
			panic(goPanic{rtErr("invalid memory address or nil pointer dereference (method call on nil interface)")})
		}
		switch recv.V.(type) {
		case *CtxObj, RType:
			margs := make([]Value, 0, len(c.Args))
			for _, a := range c.Args {
				margs = append(margs, e.get(fr, a))
			}
			return nativeMethod{recv.V, c.Method.Name()}, margs
		}
		m := e.lookupMethod(recv.T, c.Method.Pkg(), c.Method.Name())
		fnv = m
		args = append(args, recv.V)
	} else {
		fnv = e.get(fr, c.Value)
	}
	for _, a := range c.Args {
		args = append(args, e.get(fr, a))
	}
	return fnv, args
}

var lookupMu sync.Mutex

func (e *Exec) lookupMethod(t types.Type, pkg *types.Package, name string) *ssa.Function {
	lookupMu.Lock()
	defer lookupMu.Unlock()
	sel := e.prog.MethodSets.MethodSet(t).Lookup(pkg, name)
	if sel == nil {
		panic(fmt.Sprintf("no method %s on %v", name, t))
	}
	m := e.prog.MethodValue(sel)
	if m == nil {
		panic(unsupported{fmt.Sprintf("abstract method %s on %v", name, t)})
	}
	return m
}

func (e *Exec) doCall(fr *frame, c *ssa.CallCommon) Value {
	fnv, args := e.prepareCall(fr, c)
	switch f := fnv.(type) {
	case *ssa.Builtin:
		return e.builtin(f, args, c)
	case nativeMethod:
		return e.nativeMethodCall(f, args)
	}
	return e.call(fnv, args)
}

func (e *Exec) nativeMethodCall(f nativeMethod, args []Value) Value {
	switch r := f.recv.(type) {
	case RType:
		return e.rtypeMethod(r, f.m, args)
	case *CtxObj:
		return e.ctxMethod(r, f.m, args)
	}
	panic("nativeMethodCall")
}

func (e *Exec) stack() string {
	th := e.sch.cur
	var names []string
	for i := len(th.stack) - 1; i >= 0 && len(names) < 6; i-- {
		names = append(names, th.stack[i].fn.String())
	}
	return strings.Join(names, " <- ")
}

func (e *Exec) builtin(b *ssa.Builtin, args []Value, c *ssa.CallCommon) Value {
	switch b.Name() {
	case "len":
		switch x := args[0].(type) {
		case SliceV:
			return IntV{C: uint64(x.Len)}
		case StrV:
			if x.Sym != nil {
				return IntV{Sym: app("BV64", "(_ int2bv 64)", app("Int", "str.len", x.Sym))}
			}
			return IntV{C: uint64(len(x.C))}
		case *MapObj:
			if x == nil {
				return IntV{}
			}
			e.raceMap(x, false)
			return IntV{C: uint64(len(x.E))}
		case *ArrayV:
			return IntV{C: uint64(len(x.E))}
		case *ChanObj:
			if x == nil {
				return IntV{}
			}
			return IntV{C: uint64(len(x.buf))}
		case Ptr:
			return IntV{C: uint64(len(e.load(x).(*ArrayV).E))}
		}
		panic(fmt.Sprintf("len %T", args[0]))
	case "cap":
		switch x := args[0].(type) {
		case SliceV:
			return IntV{C: uint64(x.Cap)}
		case *ChanObj:
			if x == nil {
				return IntV{}
			}
			return IntV{C: uint64(x.cap)}
		case *ArrayV:
			return IntV{C: uint64(len(x.E))}
		}
		panic(fmt.Sprintf("cap %T", args[0]))
	case "close":
		e.chanClose(args[0].(*ChanObj))
		return nil
	case "append":
		return e.appendSlice(args[0].(SliceV), args[1], c.Args[0].Type())
	case "recover":
		th := e.sch.cur
		if len(th.stack) == 0 {
			return Iface{}
		}
		fr := th.stack[len(th.stack)-1]
		if fr.deferOf == nil || fr.deferOf.recovered {
			return Iface{}
		}
		fr.deferOf.recovered = true
		return panicValueToIface(fr.deferOf.val)
	case "delete":
		m := args[0].(*MapObj)
		if m == nil {
			return nil
		}
		e.raceMap(m, true)
		kt := c.Args[0].Type().Underlying().(*types.Map).Key()
		for i, en := range m.E {
			if e.truth(e.equal(kt, en.K, args[1])) {
				m.E = append(m.E[:i:i], m.E[i+1:]...)
				break
			}
		}
		return nil
	case "copy":
		dst := args[0].(SliceV)
		var src []Value
		switch s := args[1].(type) {
		case SliceV:
			for i := 0; i < s.Len; i++ {
				src = append(src, e.load(mkPtr(s.Arr, []int{s.Off + i})))
			}
		case StrV:
			if s.Sym != nil {
				panic(unsupported{"copy from symbolic string"})
			}
			for i := 0; i < len(s.C); i++ {
				src = append(src, IntV{C: uint64(s.C[i])})
			}
		}
		n := dst.Len
		if len(src) < n {
			n = len(src)
		}
		for i := 0; i < n; i++ {
			e.store(mkPtr(dst.Arr, []int{dst.Off + i}), src[i])
		}
		return IntV{C: uint64(n)}
	case "print", "println":
		return nil
	case "ssa:wrapnilchk":
		if p, ok := args[0].(Ptr); ok && p.IsNil() {
			panic(goPanic{rtErr("value method called using nil pointer")})
		}
		return args[0]
	case "min", "max":
		r := args[0]
		t := c.Args[0].Type()
		for _, a := range args[1:] {
			var less Value
			if b.Name() == "min" {
				less = e.binop(token.LSS, t, t, a, r)
			} else {
				less = e.binop(token.GTR, t, t, a, r)
			}
			if e.truth(less) {
				r = a
			}
		}
		return r
	case "clear":
		switch x := args[0].(type) {
		case *MapObj:
			if x != nil {
				x.E = nil
			}
		case SliceV:
			et := under(c.Args[0].Type()).(*types.Slice).Elem()
			for i := 0; i < x.Len; i++ {
				e.store(mkPtr(x.Arr, []int{x.Off + i}), zero(et))
			}
		}
		return nil
	}
	panic(unsupported{"builtin " + b.Name()})
}

func panicValueToIface(v Value) Value {
	switch x := v.(type) {
	case Iface:
		return x
	case rtError:
		return Iface{T: types.Typ[types.String], V: StrV{C: x.msg}}
	}
	return Iface{T: types.Typ[types.String], V: StrV{C: fmt.Sprint(v)}}
}

func (e *Exec) appendSlice(s SliceV, more Value, st types.Type) Value {
	var add []Value
	switch m := more.(type) {
	case SliceV:
		for i := 0; i < m.Len; i++ {
			add = append(add, e.load(mkPtr(m.Arr, []int{m.Off + i})))
		}
	case StrV:
		if m.Sym != nil {
			panic(unsupported{"append symbolic string bytes"})
		}
		for i := 0; i < len(m.C); i++ {
			add = append(add, IntV{C: uint64(m.C[i])})
		}
	}
	if len(add) == 0 {
		return s
	}
	need := s.Len + len(add)
	if s.Arr != nil && need <= s.Cap {
		for i, v := range add {
			e.store(mkPtr(s.Arr, []int{s.Off + s.Len + i}), v)
		}
		return SliceV{Arr: s.Arr, Off: s.Off, Len: need, Cap: s.Cap}
	}
	// reallocate; capacity policy: like the Go runtime for small slices (double the old capacity unless more is
	// needed; size-class rounding is not modelled), or nondeterministic {needed, needed+1} where a harness asks for it
	ncap := need
	if s.Cap > 0 && 2*s.Cap >= need {
		ncap = 2 * s.Cap
	}
	if e.nondetCap || e.capMarked() {
		ncap = need
		if e.choose(2, "cap") == 1 {
			ncap = need + 1
		}
	}
	et := under(st).(*types.Slice).Elem()
	arr := &ArrayV{E: make([]Value, ncap)}
	for i := 0; i < ncap; i++ {
		switch {
		case i < s.Len:
			arr.E[i] = e.load(mkPtr(s.Arr, []int{s.Off + i}))
		case i < need:
			arr.E[i] = copyVal(add[i-s.Len])
		default:
			arr.E[i] = zero(et)
		}
	}
	return SliceV{Arr: e.newCell(arr), Len: need, Cap: ncap}
}

func (e *Exec) slice(fr *frame, ins *ssa.Slice) Value {
	x := e.get(fr, ins.X)
	geti := func(v ssa.Value, def int) int {
		if v == nil {
			return def
		}
		return e.concretize(e.get(fr, v).(IntV), 64, 0, 64)
	}
	switch b := x.(type) {
	case SliceV:
		lo := geti(ins.Low, 0)
		hi := geti(ins.High, b.Len)
		mx := geti(ins.Max, b.Cap)
		if lo < 0 || hi < lo || hi > b.Cap || mx > b.Cap || mx < hi {
			panic(goPanic{rtErr(fmt.Sprintf("slice bounds out of range [%d:%d] with capacity %d", lo, hi, b.Cap))})
		}
		if b.Arr == nil {
			return SliceV{}
		}
		return SliceV{Arr: b.Arr, Off: b.Off + lo, Len: hi - lo, Cap: mx - lo}
	case StrV:
		if b.Sym != nil {
			panic(unsupported{"slice of symbolic string"})
		}
		lo := geti(ins.Low, 0)
		hi := geti(ins.High, len(b.C))
		if lo < 0 || hi < lo || hi > len(b.C) {
			panic(goPanic{rtErr("slice bounds out of range (string)")})
		}
		return StrV{C: b.C[lo:hi]}
	case Ptr: // *array
		arr := e.load(b).(*ArrayV)
		lo := geti(ins.Low, 0)
		hi := geti(ins.High, len(arr.E))
		if len(b.path) != 0 {
			panic(unsupported{"slice of nested array"})
		}
		return SliceV{Arr: b.C, Off: lo, Len: hi - lo, Cap: len(arr.E) - lo}
	}
	panic(fmt.Sprintf("slice %T", x))
}

func (e *Exec) capMarked() bool {
	if len(e.appendCapFn) == 0 {
		return false
	}
	st := e.sch.cur.stack
	if len(st) == 0 {
		return false
	}
	fn := st[len(st)-1].fn.String()
	for k := range e.appendCapFn {
		if strings.Contains(fn, k) {
			return true
		}
	}
	return false
}

// load / store with race monitoring hooks
func (e *Exec) load(p Ptr) Value {
	if e.raceOn && p.C != nil {
		e.raceAccess(p.C, p.Path, false)
	}
	return copyVal(loadRaw(p))
}
func (e *Exec) store(p Ptr, v Value) {
	if e.raceOn && p.C != nil {
		e.raceAccess(p.C, p.Path, true)
	}
	storeRaw(p, v)
}
