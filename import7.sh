#!/bin/bash
# import5.sh <Cnn> [srcdir]: verify and import the (up to two) seeded changes of a round-5 sub-agent, then run the
# property's quick check against each in a scratch worktree
id=$1; src=${2:-/tmp/mut/out7-$id}
last=$(ls -d /verif/seeded/$id-* 2>/dev/null | sed 's/.*-//' | sort -n | tail -1); last=${last:-0}
for n in 1 2; do
  [ -f $src/patch$n.diff ] || continue
  last=$((last+1))
  /verif/seed_verify.sh $id $n $src $last 2>&1 | grep -v "^WARNING" | tail -1
  if [ -d /verif/seeded/$id-$last ]; then
    LINES_MAX=4 /verif/mutcheck_wt.sh $id /verif/seeded/$id-$last/patch.diff quick 2>&1 | grep -v "^WARNING" | cut -c1-260
  else
    last=$((last-1))
  fi
done
