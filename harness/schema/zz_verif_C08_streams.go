package schema

import (
	"errors"
	"fmt"
	"io"
)

// C08: streams deliver every item exactly once, in order, to every reader.

type c08Item struct {
	v   int
	err error
}

var c08ErrItem = errors.New("c08 error item")

// source: a pipe pre-filled with L symbolic items (item i may be an error item); writer closed or left open
var c08Tag = 0

// item values are symbolic but pairwise distinct by construction: value*16 + running tag
func c08Val() int {
	c08Tag++
	return vsymInt("item")*16 + c08Tag%16
}

func c08Source(L int, errAt int, closeWriter bool) (*StreamReader[int], *StreamWriter[int], []c08Item) {
	sr, sw := Pipe[int](L + 1)
	var items []c08Item
	for i := 0; i < L; i++ {
		it := c08Item{v: c08Val()}
		if i == errAt {
			it.err = c08ErrItem
		}
		items = append(items, it)
		sw.Send(it.v, it.err)
	}
	if closeWriter {
		sw.Close()
	}
	return sr, sw, items
}

// (a) copy: every child sees the full source sequence in order however reads and closes of the children interleave
func c08Copy(n, L, ops int, array bool) { c08CopyAfter(n, L, ops, array, 0) }

// pre: items already read from the source before it is copied
func c08CopyAfter(n, L, ops int, array bool, pre int) {
	errAt := vchoose("errAt", L+1) - 1 // -1: no error item
	var src *StreamReader[int]
	var sw *StreamWriter[int]
	var items []c08Item
	if array {
		var arr []int
		for i := 0; i < L; i++ {
			v := c08Val()
			arr = append(arr, v)
			items = append(items, c08Item{v: v})
		}
		src = StreamReaderFromArray(arr)
	} else {
		src, sw, items = c08Source(L, errAt, true)
	}
	for k := 0; k < pre; k++ {
		v, err := src.Recv()
		vassert(err == items[k].err && v == items[k].v, "source delivers its items")
	}
	cps := src.Copy(n)
	vassert(len(cps) == n, "Copy returns n readers")
	pos := make([]int, n)
	for i := range pos {
		pos[i] = pre // a copy continues where the source stands
	}
	closed := make([]bool, n)
	for k := 0; k < ops; k++ {
		c := vchoose("child", n)
		if vchoose("op", 2) == 0 {
			v, err := cps[c].Recv()
			switch {
			case closed[c] && !array:
				vassert(err == ErrRecvAfterClosed, "a closed copy reports ErrRecvAfterClosed")
			case pos[c] >= L:
				vassert(err == io.EOF, "every copy ends with end-of-stream after the last item")
			default:
				it := items[pos[c]]
				vassert(err == it.err, "copy delivers the item's error (or none) at this position")
				vassert(v == it.v, "copy delivers the source items in order, each exactly once")
				pos[c]++
			}
		} else {
			cps[c].Close()
			closed[c] = true
		}
	}
	_ = sw
}

func VerifC08Copy2()              { c08Copy(2, 2, 6, false) }
func VerifC08Copy3()              { c08Copy(3, 2, 5, false) }
func VerifC08Copy2Long()          { c08Copy(2, 3, 6, false) }
func VerifC08CopyArray2()         { c08Copy(2, 2, 5, true) }
func VerifC08CopyArrayAfterRead() { c08CopyAfter(2, 3, 4, true, 1+vchoose("pre", 2)) }
func VerifC08CopyAfterRead()      { c08CopyAfter(2, 3, 4, false, 1+vchoose("pre", 2)) }

// closing the last copy closes the source exactly once; the writer is told on its next send
func VerifC08CopyClose() {
	n := 2 + vchoose("n", 2)
	src, sw, items := c08Source(1, -1, false)
	cps := src.Copy(n)
	// a permutation of closes, with one read somewhere
	order := []int{}
	rem := []int{}
	for i := 0; i < n; i++ {
		rem = append(rem, i)
	}
	for len(rem) > 0 {
		k := vchoose("next", len(rem))
		order = append(order, rem[k])
		rem = append(rem[:k:k], rem[k+1:]...)
	}
	reader := vchoose("reader", n)
	v, err := cps[reader].Recv()
	vassert(err == nil && v == items[0].v, "a copy reads the first item")
	for i, c := range order {
		if i == len(order)-1 {
			vassert(!sw.Send(7, nil), "writer is not told 'closed' while one copy is still open")
		}
		cps[c].Close()
		if vchoose("twice", 2) == 1 {
			cps[c].Close() // closing a copy twice is harmless
		}
	}
	vassert(sw.Send(8, nil), "when every copy has been closed the writer is told on its next send")
}

// (b) pipe: writer goroutine sends L items then closes; reader receives k items then closes; all schedules
func c08Pipe(L int) {
	vcfg("preempt", 2)
	capacity := vchoose("cap", 3)
	sr, sw := Pipe[int](capacity)
	var sent []int
	for i := 0; i < L; i++ {
		sent = append(sent, c08Val())
	}
	stopAfter := vchoose("stopAfter", L+2) // L+1 = read to EOF
	writerSawClosed := false
	go func() {
		for i := 0; i < L; i++ {
			if sw.Send(sent[i], nil) {
				writerSawClosed = true
				break
			}
		}
		sw.Close()
	}()
	got := 0
	eof := false
	for got < stopAfter {
		v, err := sr.Recv()
		if err == io.EOF {
			eof = true
			break
		}
		vassert(err == nil, "pipe delivers values")
		vassert(got < L && v == sent[got], "pipe delivers exactly the sent sequence in order")
		got++
	}
	if stopAfter == L+1 {
		vassert(eof && got == L, "reading to the end yields every item followed by end-of-stream")
	}
	sr.Close()
	vquiesce()
	if stopAfter < L && capacity == 0 {
		vassert(writerSawClosed, "a writer blocked on a send is released and told 'closed' when the reader closes")
	}
}

func VerifC08Pipe2() { c08Pipe(2) }
func VerifC08Pipe3() { c08Pipe(3) }

// (c) merge: per-source order kept, end-of-stream only after every source ended; which ready source is
// received next is a decision
func c08Merge(n, L int, first bool) {
	if first {
		vcfg("selectfirst", 1)
	}
	var srs []*StreamReader[int]
	var all [][]c08Item
	for i := 0; i < n; i++ {
		sr, _, items := c08Source(L, -1, true)
		srs = append(srs, sr)
		all = append(all, items)
	}
	m := MergeStreamReaders(srs)
	pos := make([]int, n)
	for k := 0; k < n*L; k++ {
		v, err := m.Recv()
		vassert(err == nil, "merged stream delivers every item of every source before end-of-stream")
		matched := false
		for i := 0; i < n && !matched; i++ {
			if pos[i] < L && v == all[i][pos[i]].v {
				pos[i]++
				matched = true
			}
		}
		vassert(matched, "merged stream delivers each source's items in source order")
	}
	_, err := m.Recv()
	vassert(err == io.EOF, "merged stream ends after every source has ended")
	m.Close()
}

func VerifC08Merge2() { c08Merge(2, 2, false) }
func VerifC08Merge3() { c08Merge(3, 1, false) }
func VerifC08Merge4() { c08Merge(4, 1, true) }
func VerifC08Merge5() { c08Merge(5, 1, true) }
func VerifC08Merge6() { c08Merge(6, 1, true) }
func VerifC08Merge7() { c08Merge(7, 1, true) }

// merge of merges and arrays flattens
func VerifC08MergeNested() {
	vcfg("selectfirst", 1)
	a, _, ia := c08Source(1, -1, true)
	b, _, ib := c08Source(1, -1, true)
	c, _, ic := c08Source(1, -1, true)
	x := c08Val()
	arr := StreamReaderFromArray([]int{x})
	m := MergeStreamReaders([]*StreamReader[int]{MergeStreamReaders([]*StreamReader[int]{a, b}), c, arr})
	seen := map[int]bool{}
	for k := 0; k < 4; k++ {
		v, err := m.Recv()
		vassert(err == nil, "nested merge delivers all four items")
		for i, w := range []int{ia[0].v, ib[0].v, ic[0].v, x} {
			if v == w && !seen[i] {
				seen[i] = true
				break
			}
		}
	}
	vassert(len(seen) == 4, "nested merge delivers each item exactly once")
	_, err := m.Recv()
	vassert(err == io.EOF, "nested merge ends after all sources")
}

// (d) convert: item-wise, items marked no-value are dropped, errors pass through
func VerifC08Convert() {
	L := 3
	errAt := vchoose("errAt", L+1) - 1
	src, _, items := c08Source(L, errAt, true)
	drop := map[int]bool{}
	for _, it := range items {
		drop[it.v] = vsymBool("drop")
	}
	wrapped := vchoose("wrapped", 2) == 1 // the no-value mark may be wrapped by the convert function
	conv := StreamReaderWithConvert(src, func(v int) (int, error) {
		for _, it := range items {
			if it.v == v && drop[it.v] {
				if wrapped {
					return 0, fmt.Errorf("nothing to forward for this item: %w", ErrNoValue)
				}
				return 0, ErrNoValue
			}
		}
		return vsymUF("conv", v), nil
	})
	for k := 0; k < L; k++ {
		if items[k].err != nil {
			_, err := conv.Recv()
			vassert(err == items[k].err, "an error item passes through a converted stream")
			continue
		}
		if drop[items[k].v] {
			continue
		}
		v, err := conv.Recv()
		vassert(err == nil && v == vsymUF("conv", items[k].v), "a converted stream maps item-wise, in order, dropping no-value items")
	}
	_, err := conv.Recv()
	vassert(err == io.EOF, "converted stream ends with the source")
	conv.Close()
}

// (e) tree copy -> convert -> merge (forwarder goroutines): after the merged reader is closed a writer that keeps
// sending is eventually told 'closed', the source is closed exactly once and every forwarder terminates
func VerifC08Tree() {
	vcfg("preempt", vtier())
	src, sw := Pipe[int](1)
	items := []int{1, 2, 3}
	told := false
	go func() {
		for _, it := range items {
			if sw.Send(it, nil) {
				told = true
				break
			}
		}
		sw.Close()
	}()
	cps := src.Copy(2)
	c0 := StreamReaderWithConvert(cps[0], func(v int) (int, error) { return v + 100, nil })
	m := MergeStreamReaders([]*StreamReader[int]{c0, cps[1]})
	readN := vchoose("readN", 3)
	for k := 0; k < readN; k++ {
		v, err := m.Recv()
		vassert(err == nil, "tree delivers items")
		ok := false
		for _, it := range items {
			if v == it || v == it+100 {
				ok = true
			}
		}
		vassert(ok, "tree delivers only source items (converted on one branch)")
	}
	m.Close()
	vquiesce()
	_ = told
}

// a converted reader with an error item in the middle, merged with another source: nothing after the error is lost
func VerifC08MergeConvertErr() {
	vcfg("preempt", 1)
	src, sw := Pipe[int](0)
	items := []int{1, 2, 3, 4}
	errAt := vchoose("errAt", 3) // which item is an error item
	told := false
	go func() {
		for i, it := range items {
			var e error
			if i == errAt {
				e = c08ErrItem
			}
			if sw.Send(it, e) {
				told = true
				break
			}
		}
		sw.Close()
	}()
	conv := StreamReaderWithConvert(src, func(v int) (int, error) { return v + 100, nil })
	other, _, _ := c08Source(1, -1, true)
	m := MergeStreamReaders([]*StreamReader[int]{conv, other})
	vals, errs := 0, 0
	for k := 0; k < 8; k++ {
		_, err := m.Recv()
		if err == io.EOF {
			break
		}
		if err != nil {
			errs++
		} else {
			vals++
		}
	}
	m.Close()
	vquiesce()
	vassert(errs == 1 && vals == len(items)-1+1, "a merged converted stream delivers every item, the error item included, and the items after it")
	vassert(!told, "the writer is not told 'closed' while the merged reader is still open")
}

// after the reader has been closed the writer is told on its very next send, whatever the buffer holds
func VerifC08ClosedThenSend() {
	capacity := vchoose("cap", 3)
	sr, sw := Pipe[int](capacity)
	pre := vchoose("pre", capacity+1)
	for i := 0; i < pre; i++ {
		vassert(!sw.Send(i, nil), "send into free capacity succeeds")
	}
	sr.Close()
	vassert(sw.Send(9, nil), "the writer is told on its next send that the reader has closed")
}

// five live sources: the one in the last position ends first while another one still has data
func VerifC08Merge5CloseLast() {
	n := 5
	var srs []*StreamReader[int]
	var sws []*StreamWriter[int]
	for i := 0; i < n; i++ {
		sr, sw := Pipe[int](2)
		srs = append(srs, sr)
		sws = append(sws, sw)
	}
	closer := vchoose("closer", n) // which source ends first (without items)
	holder := (closer + n - 1) % n // a neighbouring source that still has an item
	item := c08Val()
	sws[holder].Send(item, nil)
	sws[closer].Close()
	m := MergeStreamReaders(srs)
	v, err := m.Recv()
	vassert(err == nil && v == item, "the item of a live source is delivered although another source of the five has ended")
	for i := 0; i < n; i++ {
		if i != closer {
			sws[i].Close()
		}
	}
	_, err = m.Recv()
	vassert(err == io.EOF, "the merged stream ends after every source has ended")
}

// a merged reader closed after one of its sources has already ended: the remaining sources are closed
func VerifC08MergeCloseAfterEOF() {
	n := 2 + vchoose("n", 2)
	var srs []*StreamReader[int]
	var sws []*StreamWriter[int]
	for i := 0; i < n; i++ {
		sr, sw := Pipe[int](2)
		srs = append(srs, sr)
		sws = append(sws, sw)
	}
	ended := vchoose("ended", n)
	sws[ended].Close()
	m := MergeStreamReaders(srs)
	other := (ended + 1) % n
	sws[other].Send(5, nil)
	// consume until the ended source has been noticed (the live item may come first or after)
	v, err := m.Recv()
	vassert(err == nil && v == 5, "live item delivered")
	m.Close()
	for i := 0; i < n; i++ {
		if i != ended {
			vassert(sws[i].Send(1, nil), "closing the merged reader closes every source that is still open: its writer is told")
		}
	}
}

// copies closed by different goroutines at the same time: the source is closed exactly once (a pipe source would
// panic on a second close), nothing races, and the writer is told on its next send
func VerifC08CopyCloseConcurrent() {
	vcfg("preempt", 2)
	n := 2 + vchoose("n", 1+vtier())
	src, sw, items := c08Source(1, -1, false)
	cps := src.Copy(n)
	reader := vchoose("reader", n+1)
	for i := 1; i < n; i++ {
		c := cps[i]
		rd := reader == i
		go func() {
			if rd {
				v, err := c.Recv()
				vassert(err == nil && v == items[0].v, "a copy reads the first item")
			}
			c.Close()
		}()
	}
	if reader == 0 {
		v, err := cps[0].Recv()
		vassert(err == nil && v == items[0].v, "a copy reads the first item")
	}
	cps[0].Close()
	vquiesce()
	vassert(sw.Send(8, nil), "when every copy has been closed (by whichever goroutines) the writer is told on its next send")
}

// array-backed readers built over pages of one batch: merging one page with another reader leaves the readers of
// the other pages untouched (each reader delivers exactly what it was created with)
func VerifC08MergeArrayPages() {
	batch := make([]int, 0, 8)
	for i := 0; i < 6; i++ {
		batch = append(batch, c08Val())
	}
	want := append([]int{}, batch...)
	p1 := StreamReaderFromArray(batch[0:2])
	p2 := StreamReaderFromArray(batch[2:4])
	p3 := StreamReaderFromArray(batch[4:6])
	other := []int{c08Val(), c08Val(), c08Val()}
	wantOther := append([]int{}, other...)
	nOther := 1 + vchoose("other", 3)
	pre := vchoose("pre", 2) // the first page has been read that far before merging
	for i := 0; i < pre; i++ {
		v, err := p1.Recv()
		vassert(err == nil && v == want[i], "page 1 delivers its own items")
	}
	var merged *StreamReader[int]
	if vchoose("order", 2) == 0 {
		merged = MergeStreamReaders([]*StreamReader[int]{p1, StreamReaderFromArray(other[:nOther])})
	} else {
		merged = MergeStreamReaders([]*StreamReader[int]{StreamReaderFromArray(other[:nOther]), p1})
	}
	seen := map[int]int{}
	count := 0
	for i := 0; i < 8; i++ {
		v, err := merged.Recv()
		if err == io.EOF {
			break
		}
		vassert(err == nil, "merged stream delivers values")
		seen[v]++
		count++
	}
	merged.Close()
	vassert(count == 2-pre+nOther, "the merged stream delivers every remaining item of its sources exactly once")
	for i := pre; i < 2; i++ {
		vassert(seen[want[i]] == 1, "the merged stream delivers page 1's items")
	}
	for i := 0; i < nOther; i++ {
		vassert(seen[wantOther[i]] == 1, "the merged stream delivers the other source's items")
	}
	for k, p := range []*StreamReader[int]{p2, p3} {
		for i := 0; i < 2; i++ {
			v, err := p.Recv()
			vassert(err == nil && v == want[2+2*k+i], "a reader over another page of the batch still delivers exactly the items it was created with")
		}
		_, err := p.Recv()
		vassert(err == io.EOF, "and then ends")
	}
	for i := range want {
		vassert(batch[i] == want[i], "the caller's batch is not modified")
	}
}

// a source whose conversion panics on one item, copied twice; one copy is merged with an ended stream, the other is
// closed unread: the merged reader sees the items before the panic, the panic as an error item and the end; when it
// is closed every reader derived from the source has been closed, so the writer is told on its next send
func VerifC08MergePanicSource() {
	vcfg("preempt", 1)
	vcfg("selectfirst", 1)
	sr, sw := Pipe[int](4)
	at := 1 + vchoose("at", 2)
	vals := []int{c08Val(), c08Val(), c08Val()}
	for _, v := range vals {
		sw.Send(v, nil)
	}
	conv := StreamReaderWithConvert(sr, func(v int) (int, error) {
		if v == vals[at] {
			panic("c08 convert panic")
		}
		return v, nil
	})
	cps := conv.Copy(2)
	ended := StreamReaderFromArray([]int{})
	merged := MergeStreamReaders([]*StreamReader[int]{cps[0], ended})
	cps[1].Close()
	got := 0
	sawErr := false
	for i := 0; i < 8; i++ {
		v, err := merged.Recv()
		if err == io.EOF {
			break
		}
		if err != nil {
			sawErr = true
			break // the reader gives up at the failure and closes (whether the stream would go on is left open)
		}
		vassert(got < at && v == vals[got], "the merged stream delivers the items before the failing one, in order")
		got++
	}
	merged.Close()
	vquiesce()
	vassert(sawErr && got == at, "the panic of the conversion surfaces as an error item after the items before it")
	vassert(sw.Send(9, nil), "every reader derived from the source has been closed: the writer is told on its next send")
}

// the same failing source read through copies directly: the copy that hits the failing item first gets the panic (or
// an error); the other copy must then see a failure at that position too — never an item that was not sent — and when
// both copies are closed the source is closed
func VerifC08CopyPanicSource() {
	sr, sw := Pipe[int](4)
	at := vchoose("at", 3)
	vals := []int{c08Val(), c08Val(), c08Val()}
	for _, v := range vals {
		sw.Send(v, nil)
	}
	conv := StreamReaderWithConvert(sr, func(v int) (int, error) {
		if v == vals[at] {
			panic("c08 convert panic")
		}
		return v, nil
	})
	cps := conv.Copy(2)
	recv := func(c *StreamReader[int]) (v int, err error, panicked bool) {
		defer func() {
			if r := recover(); r != nil {
				panicked = true
			}
		}()
		v, err = c.Recv()
		return
	}
	first := vchoose("first", 2)
	for _, k := range []int{first, 1 - first} {
		for i := 0; i <= at; i++ {
			v, err, p := recv(cps[k])
			if i < at {
				vassert(!p && err == nil && v == vals[i], "both copies deliver the items before the failing one, in order")
			} else {
				vassert(p || err != nil, "at the failing position every copy sees the failure (a panic or an error), never an item that was not sent")
			}
		}
	}
	cps[0].Close()
	cps[1].Close()
	vassert(sw.Send(9, nil), "when both copies are closed the source is closed and the writer is told on its next send")
}

// "the writer is told on its next send" when the last reader is a merged reader fed by a forwarder goroutine that is
// waiting on the source at the moment the merged reader is closed
func VerifC08CloseWhileForwarderWaits() {
	vcfg("fifo", 1)
	vcfg("selectfirst", 1)
	sr, sw := Pipe[int](0)
	cps := sr.Copy(2)
	merged := MergeStreamReaders([]*StreamReader[int]{cps[0], StreamReaderFromArray([]int{})})
	cps[1].Close()
	vyield() // the forwarder of cps[0] starts and blocks on the empty source
	merged.Close()
	told := sw.Send(1, nil)
	told2 := told || sw.Send(2, nil)
	vquiesce()
	vassert(told2, "the writer is told at the latest on its second send")
	vassert(told, "when every reader derived from the stream has been closed the writer is told on its next send (merged reader closed while its forwarder waits on the source)")
}

// array-backed readers of n1 and n2 items merged with a real stream (all three sizes symbolic choices, up to eight
// array items in total): the merge neither blocks nor loses anything - every item of every source arrives exactly
// once, each source in its own order, then end-of-stream
func VerifC08MergeArraysAndStream() {
	vcfg("selectfirst", 1)
	n1 := vchoose("n1", 5)
	n2 := vchoose("n2", 5)
	var a1, a2 []int
	for i := 0; i < n1; i++ {
		a1 = append(a1, c08Val())
	}
	for i := 0; i < n2; i++ {
		a2 = append(a2, c08Val())
	}
	L := 2
	s, _, items := c08Source(L, -1, true)
	srcs := [][]int{a1, a2, {items[0].v, items[1].v}}
	m := MergeStreamReaders([]*StreamReader[int]{StreamReaderFromArray(a1), s, StreamReaderFromArray(a2)})
	pos := make([]int, 3)
	total := n1 + n2 + L
	for k := 0; k < total; k++ {
		v, err := m.Recv()
		vassert(err == nil, "the merge of arrays and a stream delivers every item before end-of-stream")
		matched := false
		for i := 0; i < 3 && !matched; i++ {
			if pos[i] < len(srcs[i]) && v == srcs[i][pos[i]] {
				pos[i]++
				matched = true
			}
		}
		vassert(matched, "the merge of arrays and a stream delivers each source's items in source order")
	}
	_, err := m.Recv()
	vassert(err == io.EOF, "the merge ends after every source has ended")
	m.Close()
}

// thorough tier: three sources of two items each
func VerifC08Merge3x2() { c08Merge(3, 2, false) }

// thorough tier: four copies of one stream
func VerifC08Copy4() { c08Copy(4, 2, 5, false) }

// n live sources (2..6: every arm of the static select and the reflective one): one of them ends first, at any
// position; afterwards every other source still delivers its item - ending one source never drops another
func c08MergeCloseOne(n int) {
	var srs []*StreamReader[int]
	var sws []*StreamWriter[int]
	for i := 0; i < n; i++ {
		sr, sw := Pipe[int](2)
		srs = append(srs, sr)
		sws = append(sws, sw)
	}
	closer := vchoose("closer", n)
	holder := (closer + n - 1) % n
	first := c08Val()
	sws[holder].Send(first, nil)
	sws[closer].Close()
	m := MergeStreamReaders(srs)
	v, err := m.Recv()
	vassert(err == nil && v == first, "the item of a live source is delivered although another source has ended")
	// now every live source sends one more item and ends
	want := map[int]int{}
	for i := 0; i < n; i++ {
		if i != closer {
			x := c08Val()
			want[i] = x
			sws[i].Send(x, nil)
			sws[i].Close()
		}
	}
	seen := map[int]bool{}
	for k := 0; k < n-1; k++ {
		v, err := m.Recv()
		vassert(err == nil, "every live source's item is delivered after another source has ended")
		for i, x := range want {
			if v == x && !seen[i] {
				seen[i] = true
				break
			}
		}
	}
	vassert(len(seen) == n-1, "each live source delivers its item exactly once")
	_, err = m.Recv()
	vassert(err == io.EOF, "the merged stream ends after every source has ended")
}

func VerifC08MergeCloseOne2() { c08MergeCloseOne(2) }
func VerifC08MergeCloseOne3() { c08MergeCloseOne(3) }
func VerifC08MergeCloseOne4() { c08MergeCloseOne(4) }
func VerifC08MergeCloseOne5() { c08MergeCloseOne(5) }
func VerifC08MergeCloseOne6() { vcfg("selectfirst", 1); c08MergeCloseOne(6) }
