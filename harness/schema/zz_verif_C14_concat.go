package schema

import (
	"time"

	"github.com/cloudwego/eino/internal"
)

// C14: chunk concatenation is total, deterministic and independent of chunk boundaries.

func c14TcEq(a, b ToolCall) bool {
	if (a.Index == nil) != (b.Index == nil) {
		return false
	}
	if a.Index != nil && *a.Index != *b.Index {
		return false
	}
	return a.ID == b.ID && a.Type == b.Type && a.Function.Name == b.Function.Name && a.Function.Arguments == b.Function.Arguments
}

func c14AnyEq(a, b any) bool {
	switch x := a.(type) {
	case nil:
		return b == nil
	case string:
		y, ok := b.(string)
		return ok && x == y
	case int:
		y, ok := b.(int)
		return ok && x == y
	case c14Sum:
		y, ok := b.(c14Sum)
		return ok && x.N == y.N
	case c14Plain:
		y, ok := b.(c14Plain)
		return ok && x.V == y.V
	case map[string]any:
		y, ok := b.(map[string]any)
		return ok && c14MapEq(x, y)
	}
	return false
}

func c14MapEq(a, b map[string]any) bool {
	if len(a) != len(b) {
		return false
	}
	for k, v := range a {
		w, ok := b[k]
		if !ok || !c14AnyEq(v, w) {
			return false
		}
	}
	return true
}

func c14MsgEq(a, b *Message) bool {
	if a == nil || b == nil {
		return a == b
	}
	if a.Role != b.Role || a.Name != b.Name || a.ToolCallID != b.ToolCallID {
		return false
	}
	if a.Content != b.Content {
		return false
	}
	if len(a.ToolCalls) != len(b.ToolCalls) {
		return false
	}
	for i := range a.ToolCalls {
		if !c14TcEq(a.ToolCalls[i], b.ToolCalls[i]) {
			return false
		}
	}
	if (a.ResponseMeta == nil) != (b.ResponseMeta == nil) {
		return false
	}
	if a.ResponseMeta != nil {
		if (a.ResponseMeta.LogProbs == nil) != (b.ResponseMeta.LogProbs == nil) {
			return false
		}
		if a.ResponseMeta.LogProbs != nil {
			if len(a.ResponseMeta.LogProbs.Content) != len(b.ResponseMeta.LogProbs.Content) {
				return false
			}
			for i := range a.ResponseMeta.LogProbs.Content {
				if a.ResponseMeta.LogProbs.Content[i].Token != b.ResponseMeta.LogProbs.Content[i].Token {
					return false
				}
			}
		}
		if a.ResponseMeta.FinishReason != b.ResponseMeta.FinishReason {
			return false
		}
		if (a.ResponseMeta.Usage == nil) != (b.ResponseMeta.Usage == nil) {
			return false
		}
		if a.ResponseMeta.Usage != nil && *a.ResponseMeta.Usage != *b.ResponseMeta.Usage {
			return false
		}
	}
	return c14MapEq(a.Extra, b.Extra)
}

// rechunking law: concatenating a prefix first and then the rest gives the same result / fails in the same cases
func c14Rechunk(msgs []*Message, what string) *Message { return c14RechunkParts(msgs, what, false) }

// parts: also the two-part split of "every way of splitting" (used by the families without symbolic strings; with them
// the comparison of the extra results multiplies the string-solver forks beyond the quick budget)
func c14RechunkParts(msgs []*Message, what string, parts bool) *Message {
	all, errAll := ConcatMessages(msgs)
	for k := 1; k < len(msgs); k++ {
		pre, errPre := ConcatMessages(msgs[:k])
		if errPre != nil {
			vassert(errAll != nil, what+": a failing prefix makes the whole concatenation fail")
			continue
		}
		rest := append([]*Message{pre}, msgs[k:]...)
		two, errTwo := ConcatMessages(rest)
		vassert((errTwo != nil) == (errAll != nil), what+": prefix-then-rest fails in the same cases as all-at-once")
		if errAll == nil && errTwo == nil {
			vassert(c14MsgEq(two, all), what+": prefix-then-rest gives the same message as all-at-once")
		}
		if !parts {
			continue
		}
		// "every way of splitting": both parts concatenated on their own (as two nodes of a graph would), then joined
		post, errPost := ConcatMessages(msgs[k:])
		if errPost != nil {
			vassert(errAll != nil, what+": a failing part makes the whole concatenation fail")
			continue
		}
		both, errBoth := ConcatMessages([]*Message{pre, post})
		vassert((errBoth != nil) == (errAll != nil), what+": the concatenation of the two parts fails in the same cases as all-at-once")
		if errAll == nil && errBoth == nil {
			vassert(c14MsgEq(both, all), what+": concatenating the two parts of a split gives the same message as all-at-once")
		}
	}
	// determinism: a second call gives the same outcome
	again, errAgain := ConcatMessages(msgs)
	vassert((errAgain != nil) == (errAll != nil), what+": same outcome on a second call")
	if errAll == nil && errAgain == nil {
		vassert(c14MsgEq(again, all), what+": same result on a second call")
	}
	if errAll != nil {
		return nil
	}
	return all
}

var c14Roles = []RoleType{"", Assistant, Tool}
var c14Small = []string{"", "n1", "n2"}

// H1: role / name / tool-call-id consistency and content order (content symbolic)
func VerifC14Content() {
	var msgs []*Message
	want := ""
	n := 3
	for i := 0; i < n; i++ {
		c := vsymStr("c")
		m := &Message{Role: c14Roles[vrange("role", 0, 2)], Content: c}
		if i < 2 {
			m.Name = c14Small[vrange("name", 0, 2)]
		} else {
			m.ToolCallID = c14Small[vrange("tcid", 0, 1)]
		}
		want += c
		msgs = append(msgs, m)
	}
	all := c14RechunkParts(msgs, "content", true)
	if all != nil {
		vassert(all.Content == want, "content is the in-order concatenation of the chunk contents")
	}
}

// H2: tool-call fragments merged by index, arguments in arrival order, sorted by index
func c14ToolCalls(extraFrag bool) {
	vcfgMapOrderIn("concatToolCalls")
	var msgs []*Message
	args := map[int]string{}
	ids := map[int]string{}
	var noIndex []string // arguments of the tool calls without an index, in arrival order
	n := 3
	for i := 0; i < n; i++ {
		m := &Message{Role: Assistant}
		nf := 1
		if i == 0 && extraFrag {
			nf = 2
		}
		for j := 0; j < nf; j++ {
			a := vsymStr("a")
			idMax := 2
			if vtier() == 0 && i != 1 {
				idMax = 1
			}
			if extraFrag {
				// the four-fragment family keeps smaller ranges in both tiers: with the ranges of the three-fragment family
				// it passed 1.0-1.1 M paths without finishing in 2400 s (twice); the id ranges are covered there
				idMax = 1
				if i == 2 {
					idMax = 0
				}
			}
			tc := ToolCall{ID: c14Small[vrange("id", 0, idMax)], Function: FunctionCall{Arguments: a}}
			if i == 0 && j == 0 {
				tc.Function.Name = c14Small[vrange("fname", 0, 1)]
			}
			if i == 1 && extraFrag {
				tc.Function.Name = c14Small[vrange("fname", 0, 1)]
			}
			ix := vrange("idx", -1, 1)
			if ix >= 0 {
				k := ix
				tc.Index = &k
				args[ix] += a
				if tc.ID != "" && ids[ix] == "" {
					ids[ix] = tc.ID
				}
			} else {
				noIndex = append(noIndex, a)
			}
			m.ToolCalls = append(m.ToolCalls, tc)
		}
		msgs = append(msgs, m)
	}
	all := c14Rechunk(msgs, "tool calls")
	if all != nil {
		last := -1
		seenIdx := false
		k := 0
		for _, tc := range all.ToolCalls {
			if tc.Index == nil {
				vassert(!seenIdx, "fragments without index come first")
				vassert(k < len(noIndex) && tc.Function.Arguments == noIndex[k], "tool calls without an index keep their arrival order")
				k++
				continue
			}
			seenIdx = true
			vassert(*tc.Index > last, "merged tool calls are sorted by index, one per index")
			last = *tc.Index
			vassert(tc.Function.Arguments == args[*tc.Index], "arguments of one index keep arrival order")
			vassert(tc.ID == ids[*tc.Index], "merged call carries the id of its fragments")
		}
	}
}

func VerifC14ToolCalls()  { c14ToolCalls(false) }
func VerifC14ToolCalls4() { c14ToolCalls(true) }

// H3: response meta / usage
func VerifC14Meta() {
	var msgs []*Message
	fin := []string{"", "stop", "length"}
	for i := 0; i < 3; i++ {
		m := &Message{Role: Assistant}
		switch vrange("meta", 0, 2) {
		case 1:
			m.ResponseMeta = &ResponseMeta{FinishReason: fin[vrange("fin", 0, 2)]}
		case 2:
			m.ResponseMeta = &ResponseMeta{FinishReason: fin[vrange("fin", 0, 2)], Usage: &TokenUsage{PromptTokens: vsymInt("p"), CompletionTokens: 3 - i, TotalTokens: i}}
		}
		msgs = append(msgs, m)
	}
	// concatenation never writes into its input chunks (handlers and the graph may hold the same chunk pointers)
	type usageSnap struct {
		has     bool
		p, c, t int
		fin     string
	}
	var before []usageSnap
	for _, m := range msgs {
		sn := usageSnap{}
		if m.ResponseMeta != nil {
			sn.fin = m.ResponseMeta.FinishReason
			if m.ResponseMeta.Usage != nil {
				sn.has = true
				sn.p, sn.c, sn.t = m.ResponseMeta.Usage.PromptTokens, m.ResponseMeta.Usage.CompletionTokens, m.ResponseMeta.Usage.TotalTokens
			}
		}
		before = append(before, sn)
	}
	c14RechunkParts(msgs, "response meta", true)
	for i, m := range msgs {
		sn := before[i]
		if m.ResponseMeta == nil {
			continue
		}
		vassert(m.ResponseMeta.FinishReason == sn.fin, "concatenation leaves the finish reason of its input chunks alone")
		if sn.has {
			u := m.ResponseMeta.Usage
			vassert(u != nil && u.PromptTokens == sn.p && u.CompletionTokens == sn.c && u.TotalTokens == sn.t, "concatenation leaves the token usage of its input chunks alone")
		}
	}
}

// H3b: log probabilities are appended in order; concatenation never modifies its input chunks
func VerifC14LogProbs() {
	var msgs []*Message
	var lens []int
	total := 0
	for i := 0; i < 3; i++ {
		m := &Message{Role: Assistant}
		switch vrange("lp", 0, 2) {
		case 1:
			m.ResponseMeta = &ResponseMeta{LogProbs: &LogProbs{Content: []LogProb{{Token: []string{"t0", "t1", "t2"}[i]}}}}
		case 2:
			m.ResponseMeta = &ResponseMeta{LogProbs: &LogProbs{Content: []LogProb{{Token: []string{"u0", "u1", "u2"}[i]}, {Token: "v"}}}}
		}
		n := 0
		if m.ResponseMeta != nil {
			n = len(m.ResponseMeta.LogProbs.Content)
		}
		lens = append(lens, n)
		total += n
		msgs = append(msgs, m)
	}
	all := c14RechunkParts(msgs, "log probs", true)
	vassert(all != nil, "log-prob chunks concatenate")
	if total > 0 {
		vassert(all.ResponseMeta != nil && all.ResponseMeta.LogProbs != nil && len(all.ResponseMeta.LogProbs.Content) == total, "log probabilities of all chunks are kept, in order")
	}
	for i, m := range msgs {
		n := 0
		if m.ResponseMeta != nil {
			n = len(m.ResponseMeta.LogProbs.Content)
		}
		vassert(n == lens[i], "concatenation does not modify its input chunks")
	}
}

// H4: extra maps: strings, ints, nil, nested maps, same or different keys
func c14ExtraVal(kind int) any {
	switch kind {
	case 0:
		return vsymStr("s")
	case 1:
		return vsymInt("i")
	case 2:
		return map[string]any{"n": vsymStr("s")}
	case 3:
		return nil
	}
	return nil
}

func c14Extra(kinds int, what string) {
	vcfgMapOrderIn("concatMaps")
	var msgs []*Message
	keys := []string{"k", "l"}
	desc := ""
	tcAt := vchoose("tcAt", 4) // 3: no chunk carries tool calls
	for i := 0; i < 3; i++ {
		m := &Message{Role: Assistant}
		if vrange("has", 0, 1) == 1 {
			kd := vrange("kind", 0, kinds-1)
			key := keys[vrange("key", 0, 1)]
			m.Extra = map[string]any{key: c14ExtraVal(kd)}
			desc += key + []string{"s", "i", "m", "nil"}[kd] + ","
		} else {
			desc += "-,"
		}
		if i == tcAt { // one chunk also carries a tool-call fragment (as every already concatenated message does)
			ix := 0
			m.ToolCalls = []ToolCall{{Index: &ix, ID: "c", Function: FunctionCall{Name: "t", Arguments: "x"}}}
			desc += "+tc,"
		}
		msgs = append(msgs, m)
	}
	all := c14Rechunk(msgs, what+" "+desc)
	if all != nil && tcAt < 3 {
		vassert(len(all.ToolCalls) == 1, "the tool call of the chunk is kept next to the extras")
		for _, m := range msgs {
			for k := range m.Extra {
				_, has := all.Extra[k]
				vassert(has, "the extras of every chunk reach the result, also of a chunk that carries tool calls: "+desc)
			}
		}
	}
}

func VerifC14Extra()    { c14Extra(3, "extra") }
func VerifC14ExtraNil() { c14Extra(4, "extra(nil values)") }

// H5: generic ConcatItems on maps of strings and message lists
func VerifC14Items() {
	vcfgMapOrderIn("concatMaps")
	a, b, c := vsymStr("a"), vsymStr("b"), vsymStr("c")
	ms := []map[string]any{{"x": a}, {"x": b, "y": c}}
	if vrange("third", 0, 1) == 1 {
		ms = append(ms, map[string]any{"y": vsymStr("d"), "z": map[string]any{"q": vsymStr("e")}})
	}
	all, err := internal.ConcatItems(ms)
	vassert(err == nil, "maps of strings concatenate")
	vassert(all["x"].(string) == a+b, "per-key concatenation keeps arrival order")
	pre, err := internal.ConcatItems(ms[:2])
	vassert(err == nil, "prefix concatenates")
	if len(ms) == 3 {
		two, err := internal.ConcatItems([]map[string]any{pre, ms[2]})
		vassert(err == nil, "prefix-then-rest concatenates")
		vassert(c14MapEq(two, all), "map concatenation is independent of chunk boundaries")
	}
	// message lists: position-wise
	l1 := []*Message{{Role: Assistant, Content: a}, nil}
	l2 := []*Message{{Role: Assistant, Content: b}, {Role: Tool, Content: c}}
	r, err := concatMessageArray([][]*Message{l1, l2})
	vassert(err == nil && len(r) == 2, "message lists concatenate position-wise")
	vassert(r[0].Content == a+b && r[1].Content == c, "message list positions keep their own chunks")
	_, err = concatMessageArray([][]*Message{l1, {l2[0]}})
	vassert(err != nil, "lists of different length are rejected with an error")
	_, err = concatMessageArray([][]*Message{{l2[0]}, l1})
	vassert(err != nil, "lists of different length are rejected with an error whatever the arrival order")
}

// generic rules: values of a type without a concat function (at most one non-zero chunk), built-in scalar rule
// (last chunk wins), a registered custom type, and all of them inside maps with mixed / nil values: total,
// deterministic, re-chunking invariant
type c14Sum struct{ N int }
type c14Plain struct{ V int }
type c14Counts map[string]int

var c14Registered = false

func VerifC14Generic() {
	if !c14Registered {
		internal.RegisterStreamChunkConcatFunc(func(xs []c14Sum) (c14Sum, error) {
			s := 0
			for _, x := range xs {
				s += x.N
			}
			return c14Sum{s}, nil
		})
		internal.RegisterStreamChunkConcatFunc(func(xs []c14Counts) (c14Counts, error) {
			r := c14Counts{}
			for _, x := range xs {
				for k, v := range x {
					r[k] += v
				}
			}
			return r, nil
		})
		c14Registered = true
	}
	// (0) a registered custom type of map kind: its own function decides (per-key sum), not the generic map rule
	ca, cb := vsymInt("ca"), vsymInt("cb")
	cs, cerr := internal.ConcatItems([]c14Counts{{"k": ca}, {"k": cb, "j": 1}})
	vassert(cerr == nil && cs["k"] == ca+cb && cs["j"] == 1, "a concat function registered for a map-kind type is the one that concatenates its chunks")
	// (0b) the same chunks under a key of an enclosing map: the registered function still decides
	msU, merr := internal.ConcatItems([]map[string]any{{"u": c14Counts{"k": ca}}, {"u": c14Counts{"k": cb, "j": 1}}})
	vassert(merr == nil, "chunks of a registered map-kind type under a map key concatenate")
	if merr == nil {
		u, ok := msU["u"].(c14Counts)
		vassert(ok && u["k"] == ca+cb && u["j"] == 1, "under a map key as well, the registered function concatenates the values of a map-kind type")
	}
	n := 3
	// (1) a struct type without a function
	var xs []c14Plain
	nonZero := 0
	last := 0
	for i := 0; i < n; i++ {
		x := 0
		if vchoose("nz", 2) == 1 {
			x = vsymInt("x")
			vassume(x != 0)
			nonZero++
			last = x
		}
		xs = append(xs, c14Plain{x})
	}
	all, errAll := internal.ConcatItems(xs)
	vassert((errAll != nil) == (nonZero > 1), "values without a concat function: an error exactly when more than one chunk is non-zero")
	if errAll == nil {
		vassert(all.V == last, "otherwise the single non-zero chunk (or zero)")
	}
	for k := 1; k < n; k++ {
		pre, errPre := internal.ConcatItems(xs[:k])
		if errPre != nil {
			vassert(errAll != nil, "a failing prefix makes the whole concatenation fail")
			continue
		}
		two, errTwo := internal.ConcatItems(append([]c14Plain{pre}, xs[k:]...))
		vassert((errTwo != nil) == (errAll != nil), "plain structs: prefix-then-rest fails in the same cases as all-at-once")
		vassert(errTwo != nil || two == all, "plain structs: prefix-then-rest gives the same value")
	}
	// (2) built-in scalars: the last chunk wins
	i0, i1, i2 := vsymInt("i0"), vsymInt("i1"), vsymInt("i2")
	iAll, err := internal.ConcatItems([]int{i0, i1, i2})
	vassert(err == nil && iAll == i2, "ints: the last chunk wins")
	// (3) registered custom type, directly and as map values next to strings, ints, plain structs and a nil
	a, b, c := vsymInt("a"), vsymInt("b"), vsymInt("c")
	ss := []c14Sum{{a}, {b}, {c}}
	sAll, err := internal.ConcatItems(ss)
	vassert(err == nil && sAll.N == a+b+c, "a registered custom type is concatenated by its function over all chunks in order")
	sPre, _ := internal.ConcatItems(ss[:2])
	sTwo, err := internal.ConcatItems([]c14Sum{sPre, ss[2]})
	vassert(err == nil && sTwo == sAll, "custom type: independent of chunk boundaries")
	s1, s2 := vsymStr("s"), vsymStr("t")
	kind := vchoose("third", 4)
	ms := []map[string]any{{"sum": c14Sum{a}, "str": s1, "n": i0, "p": xs[0]}, {"sum": c14Sum{b}, "n": i1, "p": xs[1]}, {"str": s2, "p": xs[2]}}
	switch kind {
	case 1:
		ms[2]["sum"] = c14Sum{c}
	case 2:
		ms[2]["sum"] = "not a sum" // mixed dynamic types under one key
	case 3:
		ms[2]["sum"] = nil
	}
	mAll, mErr := internal.ConcatItems(ms)
	wantErr := nonZero > 1 || kind >= 2
	vassert((mErr != nil) == wantErr, "maps: an error exactly when some key cannot be concatenated (mixed types, nil, several non-zero values without a function)")
	if mErr == nil {
		wantSum := a + b
		if kind == 1 {
			wantSum += c
		}
		vassert(mAll["sum"].(c14Sum).N == wantSum && mAll["str"].(string) == s1+s2 && mAll["n"].(int) == i1 && mAll["p"].(c14Plain).V == last,
			"maps: every key is concatenated by the rule of its value type")
	}
	for k := 1; k < n; k++ {
		pre, errPre := internal.ConcatItems(ms[:k])
		if errPre != nil {
			vassert(mErr != nil, "maps: a failing prefix makes the whole concatenation fail")
			continue
		}
		two, errTwo := internal.ConcatItems(append([]map[string]any{pre}, ms[k:]...))
		vassert((errTwo != nil) == (mErr != nil), "maps: prefix-then-rest fails in the same cases as all-at-once")
		if errTwo == nil && mErr == nil {
			vassert(c14MapEq(two, mAll), "maps: prefix-then-rest gives the same map")
		}
	}
}

// every built-in scalar chunk type has a total rule (the last chunk wins): directly, and as a value inside map chunks
func c14Last[T comparable](a, b T) {
	v, err := internal.ConcatItems([]T{a, b})
	vassert(err == nil && v == b, "scalar chunks concatenate to the last chunk, never a panic")
	m, err := internal.ConcatItems([]map[string]any{{"k": a}, {"k": b}})
	vassert(err == nil, "scalar values inside map chunks concatenate")
	got, ok := m["k"].(T)
	vassert(ok && got == b, "scalar values inside map chunks: the last chunk wins and the type is kept")
}

func VerifC14Scalars() {
	x, y := vsymInt("x"), vsymInt("y")
	switch vchoose("type", 15) {
	case 14: // chunks of an interface type that are all nil
		v, err := internal.ConcatItems([]any{nil, nil})
		vassert(err != nil || v == nil, "nil chunks of an interface type concatenate to nil or to an error, never a panic")
		w, err := internal.ConcatItems([]any{nil, "s"})
		vassert(err != nil || w == "s", "a nil chunk next to a value gives the value or an error, never a panic")
	case 0:
		c14Last[int8](int8(x), int8(y))
	case 1:
		c14Last[int16](int16(x), int16(y))
	case 2:
		c14Last[int32](int32(x), int32(y))
	case 3:
		c14Last[int64](int64(x), int64(y))
	case 4:
		c14Last[int](x, y)
	case 5:
		c14Last[uint8](uint8(x), uint8(y))
	case 6:
		c14Last[uint16](uint16(x), uint16(y))
	case 7:
		c14Last[uint32](uint32(x), uint32(y))
	case 8:
		c14Last[uint64](uint64(x), uint64(y))
	case 9:
		c14Last[uint](uint(x), uint(y))
	case 10:
		c14Last[bool](x > 0, y > 0)
	case 11:
		c14Last[float32](1.5, 2.5)
	case 12:
		c14Last[float64](1.5, 2.5)
	case 13:
		c14Last[time.Duration](time.Duration(x), time.Duration(y))
	}
}

// H2b: the type of a tool call belongs to its index: fragments of index 0 and index 1 carry "", "function" or "web"
// independently; each merged call has the type its own fragments carry (first non-empty), whatever order the index
// groups are visited in; two different types within one index are an error, in every chunking alike.
func VerifC14ToolCallTypes() {
	vcfgMapOrderIn("concatToolCalls")
	types := []string{"", "function", "web"}
	want := map[int]string{}
	conflict := false
	var msgs []*Message
	for i := 0; i < 2; i++ {
		m := &Message{Role: Assistant}
		for ix := 0; ix < 2; ix++ {
			k := ix
			t := types[vrange("type", 0, 2)]
			m.ToolCalls = append(m.ToolCalls, ToolCall{Index: &k, Type: t, Function: FunctionCall{Arguments: c14Small[1]}})
			if t != "" {
				if want[ix] != "" && want[ix] != t {
					conflict = true
				}
				if want[ix] == "" {
					want[ix] = t
				}
			}
		}
		msgs = append(msgs, m)
	}
	all := c14RechunkParts(msgs, "tool call types", true)
	if conflict {
		vassert(all == nil, "two different types within one tool-call index are an error")
		// deterministic also in what it reports: with both index groups inconsistent the error must not depend on
		// the order in which the groups are visited
		_, e1 := ConcatMessages(msgs)
		_, e2 := ConcatMessages(msgs)
		vassert(e1 != nil && e2 != nil && e1.Error() == e2.Error(), "the same chunk sequence is refused with the same error every time")
		return
	}
	vassert(all != nil && len(all.ToolCalls) == 2, "fragments with consistent types per index concatenate to one call per index")
	if all != nil && len(all.ToolCalls) == 2 {
		for _, tc := range all.ToolCalls {
			vassert(tc.Index != nil && tc.Type == want[*tc.Index], "a merged tool call has the type its own fragments carry, not that of another index")
		}
	}
}
