package schema

import "io"

// C13 (stream forwarders): a panic in the convert function of a stream that is forwarded by a goroutine (merged
// converted stream) surfaces as an error item; it is never swallowed, whatever the consumer's pace
func VerifC13ForwarderPanic() {
	vcfg("preempt", 1)
	n := 8
	panicAt := 1 + vchoose("panicAt", n-1)
	var arr []int
	for i := 0; i < n; i++ {
		arr = append(arr, i)
	}
	conv := StreamReaderWithConvert(StreamReaderFromArray(arr), func(v int) (int, error) {
		if v == panicAt {
			panic("c13 convert panic")
		}
		return v, nil
	})
	other, ow := Pipe[int](1)
	ow.Send(100, nil)
	ow.Close()
	m := MergeStreamReaders([]*StreamReader[int]{conv, other})
	sawErr := false
	for k := 0; k < 2*n; k++ {
		if k == 0 {
			vyield() // a slow consumer: the forwarder may run ahead and fill its buffer
		}
		_, err := m.Recv()
		if err == io.EOF {
			break
		}
		if err != nil {
			sawErr = true
		}
	}
	m.Close()
	vquiesce()
	vassert(sawErr, "a panic in a stream-forwarding goroutine is delivered as an error item on the stream")
}
