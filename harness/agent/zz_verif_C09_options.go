package agent

import (
	"reflect"

	"github.com/cloudwego/eino/compose"
)

// C09 (agent options): the compose options handed to a run are a fresh slice; appending per-call options to it
// never writes into the caller's own option slice (which overlapping calls share)
func VerifC09AgentOptions() {
	shared := make([]compose.Option, 0, 4)
	shared = append(shared, compose.WithRuntimeMaxSteps(3), compose.WithRuntimeMaxSteps(4))
	n := 1 + vchoose("n", 2)
	var opts []AgentOption
	opts = append(opts, WithComposeOptions(shared...))
	if n == 2 {
		opts = append(opts, WithComposeOptions(compose.WithRuntimeMaxSteps(5)))
	}
	got := GetComposeOptions(opts...)
	vassert(len(got) == 2+(n-1), "all compose options are collected")
	got = append(got, compose.WithRuntimeMaxSteps(77)) // what a per-call addition (e.g. a hand-off callback) does
	spare := shared[:3]
	vassert(reflect.ValueOf(spare[2]).IsZero(), "appending to the collected options does not write into the spare capacity of the caller's slice")
	_ = got
}
