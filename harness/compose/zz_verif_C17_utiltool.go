package compose

import (
	"context"

	"github.com/bytedance/sonic"

	"github.com/cloudwego/eino/components/tool"
	toolutils "github.com/cloudwego/eino/components/tool/utils"
	"github.com/cloudwego/eino/schema"
)

type c17Args struct {
	Name string `json:"name"`
	N    int    `json:"n"`
}

// a tool built with the utils helpers (arguments decoded from JSON into a pointer-to-struct input) called two or three
// times in one message, the calls overlapping: every answer is computed on its own call's arguments
func VerifC17UtilTool() {
	ctx := context.Background()
	vcfg("preempt", 2)
	vcfg("race", 1)
	greet := toolutils.NewTool(&schema.ToolInfo{Name: "greet"}, func(ctx context.Context, in *c17Args) (string, error) {
		vyield()
		return in.Name, nil
	})
	tn, err := NewToolNode(ctx, &ToolsNodeConfig{Tools: []tool.BaseTool{greet}})
	vassert(err == nil, "tools node is created")
	n := 2 + vchoose("calls", 2)
	names := []string{"ann", "bob", "cid"}
	msg := &schema.Message{Role: schema.Assistant}
	for i := 0; i < n; i++ {
		a, e := sonic.MarshalString(&c17Args{Name: names[i], N: i})
		vassert(e == nil, "arguments are encoded")
		msg.ToolCalls = append(msg.ToolCalls, schema.ToolCall{ID: []string{"c0", "c1", "c2"}[i], Function: schema.FunctionCall{Name: "greet", Arguments: a}})
	}
	ms, rerr := tn.Invoke(ctx, msg)
	vquiesce()
	vassert(rerr == nil && len(ms) == n, "every call is answered")
	for i, m := range ms {
		var got string
		vassert(sonic.UnmarshalString(m.Content, &got) == nil, "the answer decodes")
		vassert(m.ToolCallID == msg.ToolCalls[i].ID && got == names[i], "the i-th answer is the tool's output on the i-th call's own arguments, also when the same tool is called several times at once")
	}
}
