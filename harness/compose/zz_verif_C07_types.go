package compose

import (
	"context"
	"io"
	"strings"
)

// C07: a graph that compiles cannot hit a type mismatch between concretely typed nodes; interface-typed
// upstream values are checked at run time and reported as ordinary errors.

type c07A struct{ X int }
type c07B struct{ Y int }
type c07I interface{ c07M() }

func (c07A) c07M() {}

type c07Params map[string]any

// type codes: 0 A, 1 B, 2 I, 3 any, 4 string, 5 map[string]any, 6 named map type
var c07Names = []string{"A", "B", "I", "any", "string", "map", "Params"}

func c07IsIface(t int) bool { return t == 2 || t == 3 }

// does a value of static type `from` always / possibly / never fit a parameter of type `to`
func c07Static(from, to int) int { // 0 never, 1 must, 2 may
	if from == to {
		return 1
	}
	impl := func(t, iface int) bool { // does type t implement interface iface
		if iface == 3 {
			return true
		}
		if iface == 2 {
			return t == 0 || t == 2
		}
		return false
	}
	if c07IsIface(to) && impl(from, to) {
		return 1
	}
	if c07IsIface(from) && impl(to, from) {
		return 2
	}
	return 0
}

// dynamic value codes produced by node x: 0 A{}, 1 B{}, 2 "s", 3 map, 4 nil
func c07DynFits(dyn, to int) bool {
	switch to {
	case 0:
		return dyn == 0
	case 1:
		return dyn == 1
	case 2:
		return dyn == 0
	case 3:
		return dyn != 4
	case 4:
		return dyn == 2
	case 5:
		return dyn == 3
	case 6:
		return dyn == 5
	}
	return false
}

func c07Value(dyn int) any {
	switch dyn {
	case 0:
		return c07A{X: 1}
	case 1:
		return c07B{Y: 2}
	case 2:
		return "s"
	case 3:
		return map[string]any{"k": 1}
	case 5:
		return c07Params{"k": 1}
	}
	return nil
}

func c07Producer(outT int, dyn int) (*Lambda, bool) {
	v := c07Value(dyn)
	switch outT {
	case 0:
		a, ok := v.(c07A)
		return InvokableLambda(func(ctx context.Context, in any) (c07A, error) { return a, nil }), ok
	case 1:
		b, ok := v.(c07B)
		return InvokableLambda(func(ctx context.Context, in any) (c07B, error) { return b, nil }), ok
	case 2:
		i, ok := v.(c07I)
		return InvokableLambda(func(ctx context.Context, in any) (c07I, error) { return i, nil }), ok || v == nil
	case 3:
		return InvokableLambda(func(ctx context.Context, in any) (any, error) { return v, nil }), true
	case 4:
		s, ok := v.(string)
		return InvokableLambda(func(ctx context.Context, in any) (string, error) { return s, nil }), ok
	case 6:
		m, ok := v.(c07Params)
		return InvokableLambda(func(ctx context.Context, in any) (c07Params, error) { return m, nil }), ok
	default:
		m, ok := v.(map[string]any)
		return InvokableLambda(func(ctx context.Context, in any) (map[string]any, error) { return m, nil }), ok
	}
}

func c07Consumer(inT int, got *any) *Lambda {
	switch inT {
	case 0:
		return InvokableLambda(func(ctx context.Context, in c07A) (any, error) { *got = in; return 1, nil })
	case 1:
		return InvokableLambda(func(ctx context.Context, in c07B) (any, error) { *got = in; return 1, nil })
	case 2:
		return InvokableLambda(func(ctx context.Context, in c07I) (any, error) { *got = in; return 1, nil })
	case 3:
		return InvokableLambda(func(ctx context.Context, in any) (any, error) { *got = in; return 1, nil })
	case 4:
		return InvokableLambda(func(ctx context.Context, in string) (any, error) { *got = in; return 1, nil })
	case 6:
		return InvokableLambda(func(ctx context.Context, in c07Params) (any, error) { *got = in; return 1, nil })
	default:
		return InvokableLambda(func(ctx context.Context, in map[string]any) (any, error) { *got = in; return 1, nil })
	}
}

func c07Branch(inT int, target string) *GraphBranch {
	ends := map[string]bool{"y": true, END: true}
	switch inT {
	case 0:
		return NewGraphBranch(func(ctx context.Context, in c07A) (string, error) { return target, nil }, ends)
	case 1:
		return NewGraphBranch(func(ctx context.Context, in c07B) (string, error) { return target, nil }, ends)
	case 2:
		return NewGraphBranch(func(ctx context.Context, in c07I) (string, error) { return target, nil }, ends)
	case 3:
		return NewGraphBranch(func(ctx context.Context, in any) (string, error) { return target, nil }, ends)
	case 4:
		return NewGraphBranch(func(ctx context.Context, in string) (string, error) { return target, nil }, ends)
	case 6:
		return NewGraphBranch(func(ctx context.Context, in c07Params) (string, error) { return target, nil }, ends)
	default:
		return NewGraphBranch(func(ctx context.Context, in map[string]any) (string, error) { return target, nil }, ends)
	}
}

// START -> x -> (np pass-through nodes) -> y -> END ; x: any -> T2 ; y: T3 -> any ; edges added in any order
func c07Chain(np int, useBranch bool) {
	ctx := context.Background()
	vcfg("fifo", 1)
	outT := vchoose("outT", 7)
	inT := vchoose("inT", 7)
	dyn := vchoose("dyn", 6)
	desc := "x:" + c07Names[outT] + " -> y:" + c07Names[inT] + " dyn=" + []string{"A", "B", "string", "map", "nil", "Params"}[dyn]
	prod, canProduce := c07Producer(outT, dyn)
	if !canProduce {
		return // node x cannot produce this dynamic value with its static output type
	}
	var got any
	g := NewGraph[any, any]()
	vassert(g.AddLambdaNode("x", prod) == nil, "node x added")
	vassert(g.AddLambdaNode("y", c07Consumer(inT, &got)) == nil, "node y added")
	chain := []string{"x"}
	for i := 0; i < np; i++ {
		k := []string{"p1", "p2"}[i]
		vassert(g.AddPassthroughNode(k) == nil, "pass-through added")
		chain = append(chain, k)
	}
	chain = append(chain, "y")
	type edge struct{ a, b string }
	edges := []edge{{START, "x"}, {"y", END}}
	for i := 0; i+1 < len(chain); i++ {
		edges = append(edges, edge{chain[i], chain[i+1]})
	}
	brT := 0
	if useBranch {
		// the last hop into y is a branch (targets y | END) whose condition has its own input type
		edges = edges[:len(edges)-1]
		brT = vchoose("brT", 7)
		desc += " branch:" + c07Names[brT]
	}
	// any order of the AddEdge calls
	var buildErr error
	rem := edges
	for len(rem) > 0 {
		k := vchoose("edge", len(rem))
		e := rem[k]
		rem = append(append([]edge{}, rem[:k]...), rem[k+1:]...)
		if err := g.AddEdge(e.a, e.b); err != nil && buildErr == nil {
			buildErr = err
		}
	}
	if useBranch {
		if err := g.AddBranch(chain[len(chain)-2], c07Branch(brT, "y")); err != nil && buildErr == nil {
			buildErr = err
		}
	}
	r, cerr := g.Compile(ctx)
	if buildErr != nil {
		vassert(cerr != nil, "a build error makes Compile fail: "+desc)
	}
	static := c07Static(outT, inT)
	if useBranch {
		sb := c07Static(outT, brT)
		if sb == 0 {
			static = 0
		}
	}
	if static == 0 {
		vassert(cerr != nil, "a connection between mismatched concrete types is rejected at AddEdge/AddBranch/Compile, also through pass-through nodes: "+desc)
		return
	}
	vassert(cerr == nil, "a connection whose types must or may match compiles: "+desc)
	var rerr error
	if (np < 2 || vtier() > 0) && vchoose("stream", 2) == 1 {
		desc += " (Stream)"
		sr, e := r.Stream(ctx, 0)
		rerr = e
		if e == nil {
			for i := 0; i < 4; i++ {
				if _, e := sr.Recv(); e != nil {
					if e != io.EOF {
						rerr = e
					}
					break
				}
			}
			sr.Close()
		}
	} else {
		_, rerr = r.Invoke(ctx, 0)
	}
	// a nil interface value is assignable to an interface-typed parameter of a connection that needs no run-time
	// check (identical or implemented interface type); the run-time check of a 'may' connection rejects it
	fitsT := func(to int) bool {
		if dyn == 4 {
			return c07IsIface(to) && c07Static(outT, to) == 1
		}
		return c07DynFits(dyn, to)
	}
	fits := fitsT(inT)
	if useBranch && !fitsT(brT) {
		fits = false
	}
	if fits {
		vassert(rerr == nil, "a run whose dynamic values fit succeeds: "+desc)
	} else {
		vassert(rerr != nil, "a dynamic value that is not assignable across an interface-typed connection makes the run fail with an ordinary error: "+desc)
		vassert(!strings.Contains(rerr.Error(), "panic"), "the mismatch is reported as an ordinary error, not a recovered panic: "+desc)
	}
}

func VerifC07Direct()     { c07Chain(0, false) }
func VerifC07Pass1()      { c07Chain(1, false) }
func VerifC07Pass2()      { c07Chain(2, false) }
func VerifC07Branch()     { c07Chain(0, true) }
func VerifC07BranchPass() { c07Chain(1, true) }

// a node with an output key (declared output map[string]any) and an any-typed node both feed a pass-through
// whose type was inferred from the keyed node first; the consumer takes map[string]any
func VerifC07OutputKey() {
	ctx := context.Background()
	vcfg("fifo", 1)
	dyn := vchoose("dyn", 3) // what the any-typed node produces: 0 map, 1 string, 2 nil
	order := vchoose("order", 2)
	g := NewGraph[any, any]()
	_ = g.AddLambdaNode("k", InvokableLambda(func(ctx context.Context, in any) (string, error) { return "v", nil }), WithOutputKey("k"))
	_ = g.AddLambdaNode("n", InvokableLambda(func(ctx context.Context, in any) (any, error) {
		switch dyn {
		case 0:
			return map[string]any{"n": 1}, nil
		case 1:
			return "s", nil
		}
		return nil, nil
	}))
	_ = g.AddPassthroughNode("p")
	var got map[string]any
	_ = g.AddLambdaNode("m", InvokableLambda(func(ctx context.Context, in map[string]any) (any, error) { got = in; return 1, nil }))
	e1 := g.AddEdge(START, "k")
	e2 := g.AddEdge(START, "n")
	var e3, e4 error
	if order == 0 {
		e3 = g.AddEdge("k", "p")
		e4 = g.AddEdge("n", "p")
	} else {
		e4 = g.AddEdge("n", "p")
		e3 = g.AddEdge("k", "p")
	}
	e5 := g.AddEdge("p", "m")
	e6 := g.AddEdge("m", END)
	r, cerr := g.Compile(ctx)
	vassert(e1 == nil && e2 == nil && e3 == nil && e4 == nil && e5 == nil && e6 == nil && cerr == nil, "graph with keyed node, any-typed node and pass-through compiles")
	_, rerr := r.Invoke(ctx, 0)
	if dyn == 0 {
		vassert(rerr == nil, "a map value from the any-typed node is accepted by the run-time check of the inferred connection")
		vassert(len(got) == 2, "the consumer receives the merge of both maps")
	} else {
		vassert(rerr != nil, "a non-map value from the any-typed node is reported")
		vassert(!strings.Contains(rerr.Error(), "panic"), "the mismatch is an ordinary error, not a recovered panic")
	}
}

// a branch with END among its end nodes: the start node's output type must fit the graph's output type
func c07BranchEnd[Out any](outCode int) {
	ctx := context.Background()
	vcfg("fifo", 1)
	outT := vchoose("outT", 7)
	dyn := vchoose("dyn", 6)
	pickEnd := vchoose("pickEnd", 2) == 1
	desc := "x:" + c07Names[outT] + " -> END:" + c07Names[outCode] + " dyn=" + []string{"A", "B", "string", "map", "nil", "Params"}[dyn]
	prod, can := c07Producer(outT, dyn)
	if !can {
		return
	}
	g := NewGraph[any, Out]()
	vassert(g.AddLambdaNode("x", prod) == nil, "node x added")
	vassert(g.AddLambdaNode("z", InvokableLambda(func(ctx context.Context, in any) (Out, error) { var o Out; return o, nil })) == nil, "node z added")
	var buildErr error
	note := func(err error) {
		if err != nil && buildErr == nil {
			buildErr = err
		}
	}
	note(g.AddEdge(START, "x"))
	note(g.AddEdge("z", END))
	target := "z"
	if pickEnd {
		target = END
	}
	ends := map[string]bool{"z": true, END: true}
	note(g.AddBranch("x", NewGraphBranch(func(ctx context.Context, in any) (string, error) { return target, nil }, ends)))
	r, cerr := g.Compile(ctx)
	static := c07Static(outT, outCode)
	if static == 0 {
		vassert(buildErr != nil || cerr != nil, "a branch to END from a node whose output type cannot fit the graph output is rejected: "+desc)
		return
	}
	vassert(buildErr == nil && cerr == nil, "a branch to END whose types must or may match compiles: "+desc)
	_, rerr := r.Invoke(ctx, 0)
	fits := c07DynFits(dyn, outCode)
	if dyn == 4 {
		fits = c07IsIface(outCode) && static == 1
	}
	if !pickEnd || fits {
		if pickEnd {
			vassert(rerr == nil, "a run whose value fits the graph output through the branch succeeds: "+desc)
		}
	} else {
		vassert(rerr != nil, "a value that does not fit the graph output is reported: "+desc)
		vassert(!strings.Contains(rerr.Error(), "panic"), "... as an ordinary error, not a recovered panic: "+desc)
	}
}

func VerifC07BranchEndA()      { c07BranchEnd[c07A](0) }
func VerifC07BranchEndString() { c07BranchEnd[string](4) }
func VerifC07BranchEndAny()    { c07BranchEnd[any](3) }

// state handlers: the handler's value type must equal the node's input (pre) / output (post) type; a pass-through
// node only accepts handlers typed any
type c07St struct{ n int }

func c07PreOpt(t int) GraphAddNodeOpt {
	switch t {
	case 0:
		return WithStatePreHandler(func(ctx context.Context, in c07A, s *c07St) (c07A, error) { return in, nil })
	case 2:
		return WithStatePreHandler(func(ctx context.Context, in c07I, s *c07St) (c07I, error) { return in, nil })
	case 3:
		return WithStatePreHandler(func(ctx context.Context, in any, s *c07St) (any, error) { return in, nil })
	default:
		return WithStatePreHandler(func(ctx context.Context, in string, s *c07St) (string, error) { return in, nil })
	}
}
func c07PostOpt(t int) GraphAddNodeOpt {
	switch t {
	case 0:
		return WithStatePostHandler(func(ctx context.Context, out c07A, s *c07St) (c07A, error) { return out, nil })
	case 2:
		return WithStatePostHandler(func(ctx context.Context, out c07I, s *c07St) (c07I, error) { return out, nil })
	case 3:
		return WithStatePostHandler(func(ctx context.Context, out any, s *c07St) (any, error) { return out, nil })
	default:
		return WithStatePostHandler(func(ctx context.Context, out string, s *c07St) (string, error) { return out, nil })
	}
}

func VerifC07StateHandlers() {
	ctx := context.Background()
	vcfg("fifo", 1)
	hts := []int{0, 2, 3, 4}
	ht := hts[vchoose("handlerType", 4)]
	post := vchoose("post", 2) == 1
	passthrough := vchoose("passthrough", 2) == 1
	g := NewGraph[c07A, c07A](WithGenLocalState(func(ctx context.Context) *c07St { return &c07St{} }))
	var opt GraphAddNodeOpt
	if post {
		opt = c07PostOpt(ht)
	} else {
		opt = c07PreOpt(ht)
	}
	var addErr error
	if passthrough {
		addErr = g.AddPassthroughNode("n", opt)
	} else {
		addErr = g.AddLambdaNode("n", InvokableLambda(func(ctx context.Context, in c07A) (c07A, error) { return in, nil }), opt)
	}
	e1 := g.AddEdge(START, "n")
	e2 := g.AddEdge("n", END)
	r, cerr := g.Compile(ctx)
	okType := (passthrough && ht == 3) || (!passthrough && ht == 0)
	desc := c07Names[ht]
	if !okType {
		vassert(addErr != nil && cerr != nil, "a state handler whose type differs from the node's type is rejected when the node is added: handler "+desc)
		return
	}
	vassert(addErr == nil && e1 == nil && e2 == nil && cerr == nil, "a state handler of the node's own type is accepted: handler "+desc)
	var out c07A
	var rerr error
	if vchoose("stream", 2) == 1 {
		sr, e := r.Stream(ctx, c07A{X: 5})
		rerr = e
		if e == nil {
			out, rerr = sr.Recv()
			sr.Close()
		}
	} else {
		out, rerr = r.Invoke(ctx, c07A{X: 5})
	}
	vassert(rerr == nil && out.X == 5, "a graph with accepted state handlers runs, in Invoke and in Stream")
}

// A pass-through directly behind START in a graph whose input and output types differ (string / int): it carries the
// graph's input type whichever way it got typed (forward from START or backward from its consumer); a second,
// interface-typed edge into it is guarded by a run-time check for that type.
//
//	START --branch--> P(pass-through) --> C(string->int) --> END
//	      \-> W(string->any) --may--> P
func VerifC07StartPass() {
	ctx := context.Background()
	vcfg("fifo", 1)
	vcfg("selectfirst", 1)
	dyn := vchoose("dyn", 3) // what W emits: 0 a string, 1 an int, 2 nil
	order := vchoose("order", 3)
	viaW := vchoose("route", 2) == 1
	g := NewGraph[string, int]()
	var seen any
	_ = g.AddPassthroughNode("P")
	_ = g.AddLambdaNode("W", InvokableLambda(func(ctx context.Context, in string) (any, error) {
		switch dyn {
		case 0:
			return in + "!", nil
		case 1:
			return 42, nil
		}
		return nil, nil
	}))
	_ = g.AddLambdaNode("C", InvokableLambda(func(ctx context.Context, in string) (int, error) { seen = in; return len(in), nil }))
	var errs []error
	startBranch := func() {
		errs = append(errs, g.AddBranch(START, NewGraphBranch(func(ctx context.Context, in string) (string, error) {
			if viaW {
				return "W", nil
			}
			return "P", nil
		}, map[string]bool{"P": true, "W": true})))
	}
	switch order {
	case 0: // P typed forward, from START
		startBranch()
		errs = append(errs, g.AddEdge("P", "C"), g.AddEdge("W", "P"))
	case 1: // P typed backward, from C
		errs = append(errs, g.AddEdge("P", "C"))
		startBranch()
		errs = append(errs, g.AddEdge("W", "P"))
	case 2: // the interface-typed edge is declared first
		errs = append(errs, g.AddEdge("W", "P"))
		startBranch()
		errs = append(errs, g.AddEdge("P", "C"))
	}
	errs = append(errs, g.AddEdge("C", END))
	for _, e := range errs {
		vassert(e == nil, "every connection of the graph is accepted (string -> pass-through -> string, any -> pass-through)")
	}
	r, err := g.Compile(ctx)
	vassert(err == nil, "the graph compiles")
	var out int
	var rerr error
	if vchoose("stream", 2) == 1 {
		sr, e := r.Stream(ctx, "ab")
		rerr = e
		if e == nil {
			out, rerr = sr.Recv()
			sr.Close()
		}
	} else {
		out, rerr = r.Invoke(ctx, "ab")
	}
	if !viaW {
		vassert(rerr == nil && out == 2, "the direct route works")
		return
	}
	if dyn == 0 {
		vassert(rerr == nil && out == 3 && seen == "ab!", "a string from the any-typed node passes the run-time check of the string-typed pass-through")
		return
	}
	vassert(rerr != nil, "a value that is not a string is rejected")
	msg := rerr.Error()
	vassert(!strings.Contains(msg, "panic") && !strings.Contains(msg, "unexpected input type") && seen == nil,
		"a wrongly typed value is reported by the run-time check as an ordinary error and never reaches the concretely typed node behind the pass-through")
}

// fan-in of two any-typed nodes: only map values can be merged; anything else (a nil value included) makes the run
// fail with an ordinary error — never a panic on the run loop
func VerifC07FanInDyn() {
	ctx := context.Background()
	vcfg("fifo", 1)
	vcfg("selectfirst", 1)
	da, db := vchoose("dynA", 3), vchoose("dynB", 3) // 0 map, 1 nil, 2 string
	val := func(d int, key string) any {
		switch d {
		case 0:
			return map[string]any{key: 1}
		case 2:
			return "s"
		}
		return nil
	}
	var got any
	g := NewGraph[any, any]()
	_ = g.AddLambdaNode("a", InvokableLambda(func(ctx context.Context, in any) (any, error) { return val(da, "a"), nil }))
	_ = g.AddLambdaNode("b", InvokableLambda(func(ctx context.Context, in any) (any, error) { return val(db, "b"), nil }))
	_ = g.AddLambdaNode("c", InvokableLambda(func(ctx context.Context, in any) (any, error) { got = in; return 1, nil }))
	_ = g.AddEdge(START, "a")
	_ = g.AddEdge(START, "b")
	_ = g.AddEdge("a", "c")
	_ = g.AddEdge("b", "c")
	_ = g.AddEdge("c", END)
	var opts []GraphCompileOption
	if vchoose("dag", 2) == 1 {
		opts = append(opts, WithNodeTriggerMode(AllPredecessor))
	}
	r, err := g.Compile(ctx, opts...)
	vassert(err == nil, "fan-in of any-typed nodes compiles")
	var rerr error
	if vchoose("stream", 2) == 1 {
		sr, e := r.Stream(ctx, 0)
		rerr = e
		if e == nil {
			for i := 0; i < 4; i++ {
				if _, e := sr.Recv(); e != nil {
					if e != io.EOF {
						rerr = e
					}
					break
				}
			}
			sr.Close()
		}
	} else {
		_, rerr = r.Invoke(ctx, 0)
	}
	if da == 0 && db == 0 {
		if rerr == nil {
			m, _ := got.(map[string]any)
			vassert(len(m) == 2, "two map values are merged by key")
		} else {
			// streams of any-typed chunks are not mergeable (the chunk type, not the dynamic value, decides): an
			// ordinary error is what C07 asks for here; the disagreement with Invoke is C04's subject
			vassert(!strings.Contains(rerr.Error(), "panic"), "unmergeable streams are reported with an ordinary error")
		}
		return
	}
	vassert(rerr != nil, "values that cannot be merged make the run fail")
	vassert(!strings.Contains(rerr.Error(), "panic"), "with an ordinary error, not a recovered panic")
}

// one branch value attached behind two nodes (as the second branch of a and the only branch of c): the run-time check
// of its string-typed condition guards it at both places
func VerifC07SharedBranch() {
	ctx := context.Background()
	vcfg("fifo", 1)
	vcfg("selectfirst", 1)
	dyn := vchoose("dyn", 3) // what a and c emit: 0 a string, 1 an int, 2 nil
	val := func() any {
		switch dyn {
		case 0:
			return "s"
		case 1:
			return 7
		}
		return nil
	}
	g := NewGraph[any, any]()
	_ = g.AddLambdaNode("a", InvokableLambda(func(ctx context.Context, in any) (any, error) { return val(), nil }))
	_ = g.AddLambdaNode("c", InvokableLambda(func(ctx context.Context, in any) (any, error) { return val(), nil }))
	_ = g.AddLambdaNode("x", InvokableLambda(func(ctx context.Context, in any) (any, error) { return map[string]any{"x": 1}, nil }))
	_ = g.AddLambdaNode("y", InvokableLambda(func(ctx context.Context, in any) (any, error) { return map[string]any{"y": 1}, nil }))
	ends := map[string]bool{"x": true, "y": true}
	audit := NewGraphBranch(func(ctx context.Context, in any) (string, error) { return "x", nil }, ends)
	shared := NewGraphBranch(func(ctx context.Context, in string) (string, error) { return "y", nil }, ends)
	var errs []error
	errs = append(errs, g.AddEdge(START, "a"))
	which := vchoose("second", 2) // which node the run goes through second... both are fed by START
	if which == 1 {
		errs = append(errs, g.AddEdge(START, "c"))
	}
	order := vchoose("order", 2)
	if order == 0 {
		errs = append(errs, g.AddBranch("a", audit), g.AddBranch("a", shared), g.AddBranch("c", shared))
	} else {
		errs = append(errs, g.AddBranch("c", shared), g.AddBranch("a", audit), g.AddBranch("a", shared))
	}
	errs = append(errs, g.AddEdge("x", END), g.AddEdge("y", END))
	for _, e := range errs {
		vassert(e == nil, "every construction step is accepted")
	}
	if which == 0 {
		// c is not connected to START: give it an entry so that the graph is well-formed
		vassert(g.AddEdge("x", "c") == nil, "edge x->c accepted")
	}
	r, err := g.Compile(ctx, WithMaxRunSteps(6))
	vassert(err == nil, "graph with a shared branch value compiles")
	var rerr error
	if vchoose("stream", 2) == 1 {
		sr, e := r.Stream(ctx, 0)
		rerr = e
		if e == nil {
			for i := 0; i < 4; i++ {
				if _, e := sr.Recv(); e != nil {
					if e != io.EOF {
						rerr = e
					}
					break
				}
			}
			sr.Close()
		}
	} else {
		_, rerr = r.Invoke(ctx, 0)
	}
	if dyn == 0 {
		if rerr != nil {
			vassert(!strings.Contains(rerr.Error(), "panic") && !strings.Contains(rerr.Error(), "unexpected input type"), "no type failure for fitting values")
		}
		return
	}
	vassert(rerr != nil, "a value that is not a string is rejected before the string-typed condition")
	vassert(!strings.Contains(rerr.Error(), "panic") && !strings.Contains(rerr.Error(), "unexpected input type"), "by the run-time check, with an ordinary error")
}

// a concretely typed node fed through an input key from a map[string]any: the value under the key is only known at
// run time; a value of another type is reported as an ordinary error, in Invoke and in Stream
func VerifC07InputKey() {
	ctx := context.Background()
	vcfg("fifo", 1)
	vcfg("selectfirst", 1)
	dyn := vchoose("dyn", 4) // value under the key: 0 string, 1 int, 2 nil, 3 key missing
	pass := vchoose("passthrough", 2) == 1
	var seen any
	g := NewGraph[map[string]any, string]()
	if pass {
		_ = g.AddPassthroughNode("p", WithInputKey("k"))
		_ = g.AddLambdaNode("b", InvokableLambda(func(ctx context.Context, in string) (string, error) { seen = in; return in, nil }))
		_ = g.AddEdge(START, "p")
		_ = g.AddEdge("p", "b")
	} else {
		_ = g.AddLambdaNode("b", InvokableLambda(func(ctx context.Context, in string) (string, error) { seen = in; return in, nil }), WithInputKey("k"))
		_ = g.AddEdge(START, "b")
	}
	_ = g.AddEdge("b", END)
	r, err := g.Compile(ctx)
	vassert(err == nil, "graph with an input-keyed node compiles")
	in := map[string]any{"other": 1}
	switch dyn {
	case 0:
		in["k"] = "s"
	case 1:
		in["k"] = 7
	case 2:
		in["k"] = nil
	}
	var out string
	var rerr error
	if vchoose("stream", 2) == 1 {
		sr, e := r.Stream(ctx, in)
		rerr = e
		if e == nil {
			out, rerr = sr.Recv()
			sr.Close()
		}
	} else {
		out, rerr = r.Invoke(ctx, in)
	}
	if dyn == 0 {
		vassert(rerr == nil && out == "s", "a value of the node's type under the key is delivered")
		return
	}
	vassert(rerr != nil && seen == nil, "a value of another type (or none) under the key never reaches the node")
	vassert(!strings.Contains(rerr.Error(), "panic"), "and is reported as an ordinary error, not a recovered panic")
}
