package compose

import (
	"context"
	"sort"
	"sync"
)

// harness-side shared state (logs, monitors) is written from node bodies that may run on parallel goroutines
var vMu sync.Mutex

func (l *vLog) add(node string, in int) {
	vMu.Lock()
	l.execs = append(l.execs, vExec{node, in})
	vMu.Unlock()
}

// ---- shared harness helpers (package compose)

// vKeyID: a stable id of a key string (pure function: harness helpers must not share mutable state between runs)
func vKeyID(k string) int {
	id := 7
	for i := 0; i < len(k); i++ {
		id = id*31 + int(k[i])
	}
	return id
}

// vFold combines the values of a map input into one term, independent of map iteration order.
func vFold(in map[string]any) int {
	keys := make([]string, 0, len(in))
	for k := range in {
		keys = append(keys, k)
	}
	sort.Strings(keys)
	acc := 0
	for _, k := range keys {
		v, _ := in[k].(int)
		acc = vsymUF("mix", acc, vKeyID(k), v)
	}
	return acc
}

type vExec struct {
	node string
	in   int
}

type vLog struct {
	execs []vExec
}

func (l *vLog) of(node string) []int {
	var r []int
	for _, e := range l.execs {
		if e.node == node {
			r = append(r, e.in)
		}
	}
	return r
}

// vNodeFn is the body of an instrumented node: out = {key: f_key(fold(in))}, logged.
func vNodeFn(key string, log *vLog) func(ctx context.Context, in map[string]any) (map[string]any, error) {
	return func(ctx context.Context, in map[string]any) (map[string]any, error) {
		x := vFold(in)
		if log != nil {
			log.add(key, x)
		}
		return map[string]any{key: vsymUF("f_"+key, x)}, nil
	}
}

func vNode(key string, log *vLog) *Lambda { return InvokableLambda(vNodeFn(key, log)) }

// vDrainMap reads a stream of map chunks to the end and merges them key-wise (last value of a key wins; chunks of
// the harness nodes carry disjoint keys).
func vDrainMap(sr interface {
	Recv() (map[string]any, error)
	Close()
}) (map[string]any, error) {
	out := map[string]any{}
	for i := 0; i < 64; i++ {
		m, err := sr.Recv()
		if err != nil {
			if err.Error() == "EOF" {
				return out, nil
			}
			return nil, err
		}
		for k, v := range m {
			out[k] = v
		}
	}
	return nil, nil
}

func vMapEq(a, b map[string]any) bool {
	if len(a) != len(b) {
		return false
	}
	for k, v := range a {
		w, ok := b[k]
		if !ok {
			return false
		}
		vi, ok1 := v.(int)
		wi, ok2 := w.(int)
		if ok1 != ok2 {
			return false
		}
		if ok1 {
			if vi != wi {
				return false
			}
			continue
		}
		vm, ok1 := v.(map[string]any)
		wm, ok2 := w.(map[string]any)
		if !ok1 || !ok2 || !vMapEq(vm, wm) {
			return false
		}
	}
	return true
}
