package compose

import (
	"context"
	"errors"
	"fmt"
	"io"

	"github.com/cloudwego/eino/components/tool"
	"github.com/cloudwego/eino/schema"
)

// C17: ToolsNode answers every tool call, in call order, whatever the completion order.

var c17Err = errors.New("c17 tool failed")

type c17Behav struct {
	fail  map[string]int // call id -> 0 ok, 1 error, 2 panic, 3 error item after the first chunk, 4 error item first
	yield bool
	err   error // the error a failing stream reports (default c17Err)
}

var c17WrappedEOF = fmt.Errorf("backend connection ended early: %w (%w)", io.EOF, c17Err)

type c17Base struct {
	name string
	b    *c17Behav
}

func (t *c17Base) Info(ctx context.Context) (*schema.ToolInfo, error) {
	return &schema.ToolInfo{Name: t.name}, nil
}

func (t *c17Base) pre(ctx context.Context) error {
	if t.b.yield {
		vyield()
	}
	switch t.b.fail[GetToolCallID(ctx)] {
	case 1:
		return c17Err
	case 2:
		panic("c17 tool panic")
	}
	return nil
}

// expected outputs: deterministic functions of (tool name, arguments)
func c17P(name, args string) string { return vsymUFStr("p_"+name, args) }
func c17Q(name, args string) string { return vsymUFStr("q_"+name, args) }
func c17Out(name, args string) string {
	return c17P(name, args) + c17Q(name, args)
}

type c17Both struct{ c17Base }

// t0 declares that it fires its callbacks itself: the framework does not wrap it (so a panic of this tool is caught by
// the tools node's own recover, not by the callback wrapper)
func (t *c17Both) IsCallbacksEnabled() bool { return true }

func (t *c17Both) InvokableRun(ctx context.Context, args string, opts ...tool.Option) (string, error) {
	if err := t.pre(ctx); err != nil {
		return "", err
	}
	return c17Out(t.name, args), nil
}
func (t *c17Both) StreamableRun(ctx context.Context, args string, opts ...tool.Option) (*schema.StreamReader[string], error) {
	if err := t.pre(ctx); err != nil {
		return nil, err
	}
	return schema.StreamReaderFromArray([]string{c17P(t.name, args), c17Q(t.name, args)}), nil
}

type c17StreamOnly struct{ c17Base }

func (t *c17StreamOnly) StreamableRun(ctx context.Context, args string, opts ...tool.Option) (*schema.StreamReader[string], error) {
	if f := t.b.fail[GetToolCallID(ctx)]; f == 3 || f == 4 {
		// fails in the middle of its output: an error item after the first chunk (3) or right away (4)
		theErr := t.b.err
		if theErr == nil {
			theErr = c17Err
		}
		sr, sw := schema.Pipe[string](2)
		if f == 3 {
			sw.Send(c17P(t.name, args), nil)
		}
		sw.Send("", theErr)
		sw.Close()
		return sr, nil
	}
	if err := t.pre(ctx); err != nil {
		return nil, err
	}
	if t.b.yield { // the schedule-exploring families keep the producer-less form (the goroutine multiplies the schedules)
		return schema.StreamReaderFromArray([]string{c17P(t.name, args), c17Q(t.name, args)}), nil
	}
	// a producer that honours its context: it goes on producing after StreamableRun has returned and gives up when the
	// context it was started with is cancelled (the buffer holds both frames: it never blocks)
	sr, sw := schema.Pipe[string](2)
	p, q := c17P(t.name, args), c17Q(t.name, args)
	go func() {
		defer sw.Close()
		sw.Send(p, nil)
		if err := ctx.Err(); err != nil {
			sw.Send("", err)
			return
		}
		sw.Send(q, nil)
	}()
	return sr, nil
}

type c17InvokeOnly struct{ c17Base }

func (t *c17InvokeOnly) InvokableRun(ctx context.Context, args string, opts ...tool.Option) (string, error) {
	if err := t.pre(ctx); err != nil {
		return "", err
	}
	return c17Out(t.name, args), nil
}

var c17Names = []string{"t0", "t1", "t2", "ghost"}

var c17FixedNames = false

func c17Run(n int, useStream bool, inGraph bool, withHandler bool, faults bool, sched bool) {
	ctx := context.Background()
	if sched {
		vcfg("preempt", 2+2*vtier())
		vcfg("race", 1)
	} else {
		vcfg("fifo", 1)
	}
	b := &c17Behav{fail: map[string]int{}, yield: sched}
	conf := &ToolsNodeConfig{Tools: []tool.BaseTool{&c17Both{c17Base{"t0", b}}, &c17StreamOnly{c17Base{"t1", b}}, &c17InvokeOnly{c17Base{"t2", b}}}}
	if withHandler {
		conf.UnknownToolsHandler = func(ctx context.Context, name, input string) (string, error) {
			return vsymUFStr("unknown_"+name, input), nil
		}
	}
	tn, err := NewToolNode(ctx, conf)
	vassert(err == nil, "tools node is created")
	msg := &schema.Message{Role: schema.Assistant}
	var want []string
	var ids []string
	anyFault, anyGhost := 0, false
	desc := ""
	for i := 0; i < n; i++ {
		var name string
		if c17FixedNames {
			name = c17Names[i%3]
		} else {
			name = c17Names[vchoose("tool", len(c17Names))]
		}
		args := vsymStr("args")
		id := []string{"id0", "id1", "id2", "id3"}[i]
		msg.ToolCalls = append(msg.ToolCalls, schema.ToolCall{ID: id, Function: schema.FunctionCall{Name: name, Arguments: args}})
		ids = append(ids, id)
		desc += name + " "
		if name == "ghost" {
			anyGhost = true
			want = append(want, vsymUFStr("unknown_ghost", args))
			continue
		}
		want = append(want, c17Out(name, args))
		if faults {
			f := vchoose("fault", 3)
			if !inGraph && f == 2 {
				f = 1 // a panic is only required to be contained by the enclosing run
			}
			b.fail[id] = f
			if f != 0 && anyFault == 0 {
				anyFault = f
			}
			desc += []string{"", "(fails) ", "(panics) "}[f]
		}
	}
	// run
	got := make([]string, n)
	gotIDs := make([]string, n)
	count := make([]int, n)
	var rerr error
	collect := func(ms []*schema.Message) {
		vassert(len(ms) == n, "every output list has one position per tool call: "+desc)
		for i, m := range ms {
			if m != nil {
				got[i] += m.Content
				gotIDs[i] = m.ToolCallID
				count[i]++
				vassert(m.Role == schema.Tool, "answers are tool messages")
			}
		}
	}
	if inGraph {
		g := NewGraph[*schema.Message, []*schema.Message]()
		_ = g.AddToolsNode("tools", tn)
		_ = g.AddEdge(START, "tools")
		_ = g.AddEdge("tools", END)
		r, cerr := g.Compile(ctx)
		vassert(cerr == nil, "graph with tools node compiles")
		if useStream {
			sr, e := r.Stream(ctx, msg)
			rerr = e
			if e == nil {
				for k := 0; k < 16; k++ {
					ms, e := sr.Recv()
					if e == io.EOF {
						break
					}
					if e != nil {
						rerr = e
						break
					}
					collect(ms)
				}
				sr.Close()
			}
		} else {
			ms, e := r.Invoke(ctx, msg)
			rerr = e
			if e == nil {
				collect(ms)
			}
		}
	} else if useStream {
		sr, e := tn.Stream(ctx, msg)
		rerr = e
		if e == nil {
			for k := 0; k < 16; k++ {
				ms, e := sr.Recv()
				if e == io.EOF {
					break
				}
				if e != nil {
					rerr = e
					break
				}
				collect(ms)
			}
			sr.Close()
		}
	} else {
		ms, e := tn.Invoke(ctx, msg)
		rerr = e
		if e == nil {
			collect(ms)
		}
	}
	vquiesce()
	if anyGhost && !withHandler {
		vassert(rerr != nil, "an unknown tool name is an error when no unknown-tool handler is configured: "+desc)
		return
	}
	if anyFault != 0 {
		vassert(rerr != nil, "a failing or panicking tool makes the whole call fail: "+desc)
		onlyErrors := true
		for _, f := range b.fail {
			if f == 2 {
				onlyErrors = false
			}
		}
		if onlyErrors {
			vassert(errors.Is(rerr, c17Err), "the failure carries the failing tool's error: "+desc)
		}
		return
	}
	vassert(rerr == nil, "a call whose tools all succeed succeeds: "+desc)
	for i := 0; i < n; i++ {
		vassert(count[i] >= 1, "call "+ids[i]+" is answered: "+desc)
		vassert(gotIDs[i] == ids[i], "the i-th answer carries the i-th call's id: "+desc)
		vassert(got[i] == want[i], "the i-th answer is the output of the tool named by the i-th call on that call's arguments (streamed chunks concatenate to it): "+desc)
	}
}

func VerifC17Invoke2()     { c17Run(2, false, false, vchoose("handler", 2) == 1, false, false) }
func VerifC17Stream2()     { c17Run(2, true, false, vchoose("handler", 2) == 1, false, false) }
func VerifC17Invoke3()     { c17Run(3, false, false, true, false, false) }

// a single call (no merge of several tool streams), every tool kind, optionally failing or panicking, in and outside a graph
func VerifC17Single() {
	c17Run(1, vchoose("stream", 2) == 1, vchoose("graph", 2) == 1, true, true, false)
}
func VerifC17Stream3()     { c17Run(3, true, false, true, false, false) }
func VerifC17Faults()      { c17Run(2, vchoose("stream", 2) == 1, false, true, true, false) }
func VerifC17GraphFaults() { c17Run(2, vchoose("stream", 2) == 1, true, true, true, false) }
func VerifC17Sched() {
	c17FixedNames = true
	c17Run(3, false, false, true, false, true)
}
func VerifC17SchedStream() {
	c17FixedNames = true
	c17Run(2, true, false, true, false, true)
}
func VerifC17GraphSchedFaults() {
	c17FixedNames = true
	c17Run(2+vtier(), false, true, true, true, true)
}

// a streaming tool that fails in the middle of its stream makes the streamed call fail with that tool's error
func VerifC17MidStreamFailure() {
	ctx := context.Background()
	vcfg("fifo", 1)
	vcfg("selectfirst", 1)
	b := &c17Behav{fail: map[string]int{}}
	if vchoose("errkind", 2) == 1 {
		b.err = c17WrappedEOF // an error that wraps io.EOF is still that tool's error, not end-of-stream
	}
	tn, err := NewToolNode(ctx, &ToolsNodeConfig{Tools: []tool.BaseTool{&c17Both{c17Base{"t0", b}}, &c17StreamOnly{c17Base{"t1", b}}}})
	vassert(err == nil, "tools node is created")
	n := 1 + vchoose("n", 2)
	msg := &schema.Message{Role: schema.Assistant}
	failing := vchoose("failing", n)
	for i := 0; i < n; i++ {
		id := []string{"id0", "id1"}[i]
		name := "t0"
		if i == failing {
			name = "t1"
			b.fail[id] = 3 + vchoose("when", 2)
		}
		msg.ToolCalls = append(msg.ToolCalls, schema.ToolCall{ID: id, Function: schema.FunctionCall{Name: name, Arguments: "x"}})
	}
	drain := func(sr *schema.StreamReader[[]*schema.Message]) error {
		defer sr.Close()
		for k := 0; k < 8; k++ {
			_, e := sr.Recv()
			if e == io.EOF {
				return nil
			}
			if e != nil {
				return e
			}
		}
		return nil
	}
	var rerr error
	mode := vchoose("mode", 4)
	what := []string{"streamed call", "streamed run", "invoked call", "invoked run"}[mode]
	switch mode {
	case 1, 3:
		g := NewGraph[*schema.Message, []*schema.Message]()
		_ = g.AddToolsNode("tools", tn)
		_ = g.AddLambdaNode("after", InvokableLambda(func(ctx context.Context, in []*schema.Message) ([]*schema.Message, error) { return in, nil }))
		_ = g.AddEdge(START, "tools")
		_ = g.AddEdge("tools", "after")
		_ = g.AddEdge("after", END)
		r, cerr := g.Compile(ctx)
		vassert(cerr == nil, "graph compiles")
		if mode == 1 {
			sr, e := r.Stream(ctx, msg)
			rerr = e
			if e == nil {
				rerr = drain(sr)
			}
		} else {
			_, rerr = r.Invoke(ctx, msg)
		}
	case 0:
		sr, e := tn.Stream(ctx, msg)
		rerr = e
		if e == nil {
			rerr = drain(sr)
		}
	case 2:
		_, rerr = tn.Invoke(ctx, msg)
	}
	vquiesce()
	vassert(rerr != nil && errors.Is(rerr, c17Err), "a tool failing in the middle of (or at the start of) its stream makes the "+what+" fail with that tool's error")
}

// per-call tool list (WithToolList): not given / empty but non-nil / a subset; Invoke and Stream treat it alike: a
// call to a tool that is not in the effective list is an unknown tool (error, or the handler's answer)
func VerifC17ToolList() {
	ctx := context.Background()
	vcfg("fifo", 1)
	vcfg("selectfirst", 1)
	b := &c17Behav{fail: map[string]int{}}
	t0, t2 := &c17Both{c17Base{"t0", b}}, &c17InvokeOnly{c17Base{"t2", b}}
	conf := &ToolsNodeConfig{Tools: []tool.BaseTool{t0, t2}}
	withHandler := vchoose("handler", 2) == 1
	if withHandler {
		conf.UnknownToolsHandler = func(ctx context.Context, name, input string) (string, error) {
			return vsymUFStr("unknown_"+name, input), nil
		}
	}
	tn, err := NewToolNode(ctx, conf)
	vassert(err == nil, "tools node is created")
	var opts []ToolsNodeOption
	eff := map[string]bool{"t0": true, "t2": true}
	switch vchoose("list", 4) {
	case 1:
		opts = append(opts, WithToolList()) // no tools named: nil list, the configured tools stay
	case 2:
		opts = append(opts, WithToolList([]tool.BaseTool{}...)) // a filter that kept nothing
		eff = map[string]bool{}
	case 3:
		opts = append(opts, WithToolList(t0))
		eff = map[string]bool{"t0": true}
	}
	msg := &schema.Message{Role: schema.Assistant}
	var want []string
	unknown := false
	for i := 0; i < 2; i++ {
		name := []string{"t0", "t2"}[vchoose("tool", 2)]
		args := vsymStr("args")
		msg.ToolCalls = append(msg.ToolCalls, schema.ToolCall{ID: []string{"id0", "id1"}[i], Function: schema.FunctionCall{Name: name, Arguments: args}})
		if eff[name] {
			want = append(want, c17Out(name, args))
		} else {
			unknown = true
			want = append(want, vsymUFStr("unknown_"+name, args))
		}
	}
	got := make([]string, 2)
	var rerr error
	if vchoose("stream", 2) == 1 {
		sr, e := tn.Stream(ctx, msg, opts...)
		rerr = e
		if e == nil {
			for k := 0; k < 8; k++ {
				ms, e := sr.Recv()
				if e == io.EOF {
					break
				}
				if e != nil {
					rerr = e
					break
				}
				for i, m := range ms {
					if m != nil {
						got[i] += m.Content
					}
				}
			}
			sr.Close()
		}
	} else {
		ms, e := tn.Invoke(ctx, msg, opts...)
		rerr = e
		if e == nil {
			for i, m := range ms {
				got[i] = m.Content
			}
		}
	}
	if unknown && !withHandler {
		vassert(rerr != nil, "a call to a tool outside the effective tool list is an unknown tool: an error without a handler")
		return
	}
	vassert(rerr == nil, "calls within the effective tool list (or answered by the handler) succeed")
	for i := range want {
		vassert(got[i] == want[i], "each call is answered by its tool from the effective list, or by the unknown-tool handler")
	}
}

func VerifC17FiveCalls() {
	ctx := context.Background()
	vcfg("fifo", 1)
	gate := make(chan struct{})
	late := func(name string) tool.BaseTool {
		return &c17Gated{c17Base{name, &c17Behav{fail: map[string]int{}}}, gate}
	}
	tn, err := NewToolNode(ctx, &ToolsNodeConfig{Tools: []tool.BaseTool{late("t0")}})
	vassert(err == nil, "tools node is created")
	msg := &schema.Message{Role: schema.Assistant}
	first := vchoose("first", 5) // the call whose stream ends first
	for i := 0; i < 5; i++ {
		args := "late"
		if i == first {
			args = "now"
		}
		msg.ToolCalls = append(msg.ToolCalls, schema.ToolCall{ID: []string{"id0", "id1", "id2", "id3", "id4"}[i], Function: schema.FunctionCall{Name: "t0", Arguments: args}})
	}
	sr, e := tn.Stream(ctx, msg)
	vassert(e == nil, "stream call starts")
	got := make([]string, 5)
	k := 0
	for ; k < 16; k++ {
		if k == 1 {
			close(gate) // the other tools deliver only after the first answer has been received
		}
		ms, e := sr.Recv()
		if e == io.EOF {
			break
		}
		vassert(e == nil, "no error item")
		for i, m := range ms {
			if m != nil {
				got[i] += m.Content
			}
		}
	}
	sr.Close()
	vquiesce()
	for i := 0; i < 5; i++ {
		want := "late-done"
		if i == first {
			want = "now-done"
		}
		vassert(got[i] == want, "every one of five calls is answered in the streamed form whatever the completion order")
	}
}

type c17Gated struct {
	c17Base
	gate chan struct{}
}

func (t *c17Gated) StreamableRun(ctx context.Context, args string, opts ...tool.Option) (*schema.StreamReader[string], error) {
	sr, sw := schema.Pipe[string](1)
	go func() {
		if args != "now" {
			<-t.gate
		}
		sw.Send(args+"-done", nil)
		sw.Close()
	}()
	return sr, nil
}

type c17Silent struct{ c17Base }

func (t *c17Silent) StreamableRun(ctx context.Context, args string, opts ...tool.Option) (*schema.StreamReader[string], error) {
	return schema.StreamReaderFromArray([]string{}), nil
}

// a stream-only tool that emits no frame at all, next to a normal call: Invoke and Stream give the same verdict, and
// when they succeed every call has its message
func VerifC17SilentTool() {
	ctx := context.Background()
	vcfg("fifo", 1)
	vcfg("selectfirst", 1)
	b := &c17Behav{fail: map[string]int{}}
	tn, err := NewToolNode(ctx, &ToolsNodeConfig{Tools: []tool.BaseTool{&c17Both{c17Base{"t0", b}}, &c17Silent{c17Base{"quiet", b}}}})
	vassert(err == nil, "tools node is created")
	msg := &schema.Message{Role: schema.Assistant, ToolCalls: []schema.ToolCall{
		{ID: "id0", Function: schema.FunctionCall{Name: "t0", Arguments: "x"}},
		{ID: "id1", Function: schema.FunctionCall{Name: "quiet", Arguments: "y"}}}}
	ms, e0 := tn.Invoke(ctx, msg)
	holes := 0
	var e1 error
	sr, e := tn.Stream(ctx, msg)
	e1 = e
	seen := make([]bool, 2)
	if e == nil {
		for k := 0; k < 8; k++ {
			chunk, e := sr.Recv()
			if e == io.EOF {
				break
			}
			if e != nil {
				e1 = e
				break
			}
			for i, m := range chunk {
				if m != nil {
					seen[i] = true
				}
			}
		}
		sr.Close()
		for _, s := range seen {
			if !s {
				holes++
			}
		}
	}
	vquiesce()
	vassert((e0 == nil) == (e1 == nil), "a tool that emits no frame: Invoke and Stream both succeed or both fail")
	if e0 == nil {
		vassert(len(ms) == 2 && ms[1] != nil && ms[1].ToolCallID == "id1", "Invoke answers the silent call with a message carrying its id")
	}
	if e1 == nil {
		vassert(holes == 0, "the streamed form has a message for every call, also for a tool that emitted no frame")
	}
}

// thorough tier: four calls
func VerifC17Invoke4() { c17Run(4, false, false, true, false, false) }
func VerifC17Stream4() { c17Run(4, true, false, true, false, false) }
