package compose

import (
	"context"
	"errors"
	"io"

	"github.com/cloudwego/eino/components/tool"
	"github.com/cloudwego/eino/schema"
)

// C17: ToolsNode answers every tool call, in call order, whatever the completion order.

var c17Err = errors.New("c17 tool failed")

type c17Behav struct {
	fail  map[string]int // call id -> 0 ok, 1 error, 2 panic
	yield bool
}

type c17Base struct {
	name string
	b    *c17Behav
}

func (t *c17Base) Info(ctx context.Context) (*schema.ToolInfo, error) {
	return &schema.ToolInfo{Name: t.name}, nil
}

func (t *c17Base) pre(ctx context.Context) error {
	if t.b.yield {
		vyield()
	}
	switch t.b.fail[GetToolCallID(ctx)] {
	case 1:
		return c17Err
	case 2:
		panic("c17 tool panic")
	}
	return nil
}

// expected outputs: deterministic functions of (tool name, arguments)
func c17P(name, args string) string { return vsymUFStr("p_"+name, args) }
func c17Q(name, args string) string { return vsymUFStr("q_"+name, args) }
func c17Out(name, args string) string {
	return c17P(name, args) + c17Q(name, args)
}

type c17Both struct{ c17Base }

func (t *c17Both) InvokableRun(ctx context.Context, args string, opts ...tool.Option) (string, error) {
	if err := t.pre(ctx); err != nil {
		return "", err
	}
	return c17Out(t.name, args), nil
}
func (t *c17Both) StreamableRun(ctx context.Context, args string, opts ...tool.Option) (*schema.StreamReader[string], error) {
	if err := t.pre(ctx); err != nil {
		return nil, err
	}
	return schema.StreamReaderFromArray([]string{c17P(t.name, args), c17Q(t.name, args)}), nil
}

type c17StreamOnly struct{ c17Base }

func (t *c17StreamOnly) StreamableRun(ctx context.Context, args string, opts ...tool.Option) (*schema.StreamReader[string], error) {
	if err := t.pre(ctx); err != nil {
		return nil, err
	}
	return schema.StreamReaderFromArray([]string{c17P(t.name, args), c17Q(t.name, args)}), nil
}

type c17InvokeOnly struct{ c17Base }

func (t *c17InvokeOnly) InvokableRun(ctx context.Context, args string, opts ...tool.Option) (string, error) {
	if err := t.pre(ctx); err != nil {
		return "", err
	}
	return c17Out(t.name, args), nil
}

var c17Names = []string{"t0", "t1", "t2", "ghost"}

var c17FixedNames = false

func c17Run(n int, useStream bool, inGraph bool, withHandler bool, faults bool, sched bool) {
	ctx := context.Background()
	if sched {
		vcfg("preempt", 2)
		vcfg("race", 1)
	} else {
		vcfg("fifo", 1)
	}
	b := &c17Behav{fail: map[string]int{}, yield: sched}
	conf := &ToolsNodeConfig{Tools: []tool.BaseTool{&c17Both{c17Base{"t0", b}}, &c17StreamOnly{c17Base{"t1", b}}, &c17InvokeOnly{c17Base{"t2", b}}}}
	if withHandler {
		conf.UnknownToolsHandler = func(ctx context.Context, name, input string) (string, error) {
			return vsymUFStr("unknown_"+name, input), nil
		}
	}
	tn, err := NewToolNode(ctx, conf)
	vassert(err == nil, "tools node is created")
	msg := &schema.Message{Role: schema.Assistant}
	var want []string
	var ids []string
	anyFault, anyGhost := 0, false
	desc := ""
	for i := 0; i < n; i++ {
		var name string
		if c17FixedNames {
			name = c17Names[i%3]
		} else {
			name = c17Names[vchoose("tool", len(c17Names))]
		}
		args := vsymStr("args")
		id := []string{"id0", "id1", "id2", "id3"}[i]
		msg.ToolCalls = append(msg.ToolCalls, schema.ToolCall{ID: id, Function: schema.FunctionCall{Name: name, Arguments: args}})
		ids = append(ids, id)
		desc += name + " "
		if name == "ghost" {
			anyGhost = true
			want = append(want, vsymUFStr("unknown_ghost", args))
			continue
		}
		want = append(want, c17Out(name, args))
		if faults {
			f := vchoose("fault", 3)
			if !inGraph && f == 2 {
				f = 1 // a panic is only required to be contained by the enclosing run
			}
			b.fail[id] = f
			if f != 0 && anyFault == 0 {
				anyFault = f
			}
			desc += []string{"", "(fails) ", "(panics) "}[f]
		}
	}
	// run
	got := make([]string, n)
	gotIDs := make([]string, n)
	count := make([]int, n)
	var rerr error
	collect := func(ms []*schema.Message) {
		vassert(len(ms) == n, "every output list has one position per tool call: "+desc)
		for i, m := range ms {
			if m != nil {
				got[i] += m.Content
				gotIDs[i] = m.ToolCallID
				count[i]++
				vassert(m.Role == schema.Tool, "answers are tool messages")
			}
		}
	}
	if inGraph {
		g := NewGraph[*schema.Message, []*schema.Message]()
		_ = g.AddToolsNode("tools", tn)
		_ = g.AddEdge(START, "tools")
		_ = g.AddEdge("tools", END)
		r, cerr := g.Compile(ctx)
		vassert(cerr == nil, "graph with tools node compiles")
		if useStream {
			sr, e := r.Stream(ctx, msg)
			rerr = e
			if e == nil {
				for k := 0; k < 16; k++ {
					ms, e := sr.Recv()
					if e == io.EOF {
						break
					}
					if e != nil {
						rerr = e
						break
					}
					collect(ms)
				}
				sr.Close()
			}
		} else {
			ms, e := r.Invoke(ctx, msg)
			rerr = e
			if e == nil {
				collect(ms)
			}
		}
	} else if useStream {
		sr, e := tn.Stream(ctx, msg)
		rerr = e
		if e == nil {
			for k := 0; k < 16; k++ {
				ms, e := sr.Recv()
				if e == io.EOF {
					break
				}
				if e != nil {
					rerr = e
					break
				}
				collect(ms)
			}
			sr.Close()
		}
	} else {
		ms, e := tn.Invoke(ctx, msg)
		rerr = e
		if e == nil {
			collect(ms)
		}
	}
	vquiesce()
	if anyGhost && !withHandler {
		vassert(rerr != nil, "an unknown tool name is an error when no unknown-tool handler is configured: "+desc)
		return
	}
	if anyFault != 0 {
		vassert(rerr != nil, "a failing or panicking tool makes the whole call fail: "+desc)
		onlyErrors := true
		for _, f := range b.fail {
			if f == 2 {
				onlyErrors = false
			}
		}
		if onlyErrors {
			vassert(errors.Is(rerr, c17Err), "the failure carries the failing tool's error: "+desc)
		}
		return
	}
	vassert(rerr == nil, "a call whose tools all succeed succeeds: "+desc)
	for i := 0; i < n; i++ {
		vassert(count[i] >= 1, "call "+ids[i]+" is answered: "+desc)
		vassert(gotIDs[i] == ids[i], "the i-th answer carries the i-th call's id: "+desc)
		vassert(got[i] == want[i], "the i-th answer is the output of the tool named by the i-th call on that call's arguments (streamed chunks concatenate to it): "+desc)
	}
}

func VerifC17Invoke2()     { c17Run(2, false, false, vchoose("handler", 2) == 1, false, false) }
func VerifC17Stream2()     { c17Run(2, true, false, vchoose("handler", 2) == 1, false, false) }
func VerifC17Invoke3()     { c17Run(3, false, false, true, false, false) }
func VerifC17Stream3()     { c17Run(3, true, false, true, false, false) }
func VerifC17Faults()      { c17Run(2, vchoose("stream", 2) == 1, false, true, true, false) }
func VerifC17GraphFaults() { c17Run(2, vchoose("stream", 2) == 1, true, true, true, false) }
func VerifC17Sched() {
	c17FixedNames = true
	c17Run(3, false, false, true, false, true)
}
func VerifC17SchedStream() {
	c17FixedNames = true
	c17Run(2, true, false, true, false, true)
}
func VerifC17GraphSchedFaults() {
	c17FixedNames = true
	c17Run(2+vtier(), false, true, true, true, true)
}
