package compose

import (
	"context"

	"github.com/cloudwego/eino/schema"
)

// C11: graph state is per run and accessed under mutual exclusion.

type c11State struct {
	Cnt    int
	Owner  int
	Inside bool
	Gen    int
}

var c11Gens = 0

func c11Gen(ctx context.Context) *c11State {
	vMu.Lock()
	defer vMu.Unlock()
	c11Gens++
	return &c11State{Gen: c11Gens}
}

type c11Mon struct{ bad string }

// enter/leave a state section: the flag lives in the state itself
func (m *c11Mon) section(s *c11State, add int, yield bool) {
	if s.Inside && m.bad == "" {
		m.bad = "two state handlers / ProcessState callbacks ran inside the state section at the same time"
	}
	s.Inside = true
	c := s.Cnt
	if yield {
		vyield()
	}
	s.Cnt = c + add
	s.Inside = false
}

// (1) mutual exclusion and no lost update with parallel nodes, in Pregel / DAG / Workflow (eager) mode
func c11Parallel(mode int, streamH bool) {
	ctx := context.Background()
	vcfg("preempt", 2+2*vtier())
	vcfg("race", 1)
	mon := &c11Mon{}
	da, db, dp, dq := vsymInt("da"), vsymInt("db"), vsymInt("dp"), vsymInt("dq")
	dc, extra := vsymInt("dc"), 0
	body := func(key string, add int) *Lambda {
		return InvokableLambda(func(ctx context.Context, in map[string]any) (map[string]any, error) {
			err := ProcessState(ctx, func(ctx context.Context, s *c11State) error {
				mon.section(s, add, true)
				return nil
			})
			return map[string]any{key: 1}, err
		})
	}
	pre := func(add int) GraphAddNodeOpt {
		if streamH {
			return WithStreamStatePreHandler(func(ctx context.Context, in *schema.StreamReader[map[string]any], s *c11State) (*schema.StreamReader[map[string]any], error) {
				mon.section(s, add, false)
				return in, nil
			})
		}
		return WithStatePreHandler(func(ctx context.Context, in map[string]any, s *c11State) (map[string]any, error) {
			mon.section(s, add, false)
			return in, nil
		})
	}
	post := func(add int) GraphAddNodeOpt {
		if streamH {
			return WithStreamStatePostHandler(func(ctx context.Context, out *schema.StreamReader[map[string]any], s *c11State) (*schema.StreamReader[map[string]any], error) {
				mon.section(s, add, false)
				return out, nil
			})
		}
		return WithStatePostHandler(func(ctx context.Context, out map[string]any, s *c11State) (map[string]any, error) {
			mon.section(s, add, false)
			return out, nil
		})
	}
	final := 0
	last := InvokableLambda(func(ctx context.Context, in map[string]any) (map[string]any, error) {
		err := ProcessState(ctx, func(ctx context.Context, s *c11State) error {
			final = s.Cnt
			return nil
		})
		return map[string]any{"j": 1}, err
	})
	var r Runnable[map[string]any, map[string]any]
	var err error
	switch mode {
	case 0, 1:
		g := NewGraph[map[string]any, map[string]any](WithGenLocalState(c11Gen))
		_ = g.AddLambdaNode("a", body("a", da), pre(dp))
		_ = g.AddLambdaNode("b", body("b", db), post(dq))
		_ = g.AddLambdaNode("j", last)
		_ = g.AddEdge(START, "a")
		_ = g.AddEdge(START, "b")
		_ = g.AddEdge("a", "j")
		_ = g.AddEdge("b", "j")
		_ = g.AddEdge("j", END)
		if vtier() > 0 { // thorough tier: a third parallel node with both handlers
			_ = g.AddLambdaNode("c", body("c", dc), pre(dc), post(dc))
			_ = g.AddEdge(START, "c")
			_ = g.AddEdge("c", "j")
			extra = 3 * dc
		}
		var opts []GraphCompileOption
		if mode == 1 {
			opts = append(opts, WithNodeTriggerMode(AllPredecessor))
		}
		r, err = g.Compile(ctx, opts...)
	default:
		// Workflow: START -> a (slow, inside ProcessState) ; START -> b -> n (n has a pre-handler) ; j <- a, n
		wf := NewWorkflow[map[string]any, map[string]any](WithGenLocalState(c11Gen))
		wf.AddLambdaNode("a", body("a", da)).AddInput(START)
		wf.AddLambdaNode("b", body("b", db), post(dq)).AddInput(START)
		wf.AddLambdaNode("n", InvokableLambda(func(ctx context.Context, in map[string]any) (map[string]any, error) {
			return map[string]any{"n": 1}, nil
		}), pre(dp)).AddInput("b")
		wf.AddLambdaNode("j", last).AddInput("a", ToField("a")).AddInput("n", ToField("n"))
		wf.End().AddInput("j")
		r, err = wf.Compile(ctx)
	}
	vassert(err == nil, "stateful graph compiles")
	_, rerr := r.Invoke(ctx, map[string]any{"in": 1})
	vassert(rerr == nil, "run succeeds")
	vquiesce()
	vassert(mon.bad == "", mon.bad)
	vassert(final == da+db+dp+dq+extra, "state updates made by pre-handlers, post-handlers and ProcessState are never lost when nodes run in parallel")
}

func VerifC11ParPregel()   { c11Parallel(0, false) }
func VerifC11ParDAG()      { c11Parallel(1, false) }
func VerifC11ParWorkflow() { c11Parallel(2, false) }

// the same with the stream forms of the state handlers (WithStreamStatePreHandler / WithStreamStatePostHandler)
func VerifC11ParStreamHandlers() { c11Parallel(vchoose("mode", 3), true) }

// (2) every run gets its own freshly generated state: sequential and overlapping runs
func VerifC11PerRun() {
	ctx := context.Background()
	vcfg("preempt", 2)
	g := NewGraph[int, int](WithGenLocalState(c11Gen))
	_ = g.AddLambdaNode("n1", InvokableLambda(func(ctx context.Context, id int) (int, error) {
		err := ProcessState(ctx, func(ctx context.Context, s *c11State) error {
			s.Owner = id
			return nil
		})
		vyield()
		return id, err
	}))
	bad := ""
	_ = g.AddLambdaNode("n2", InvokableLambda(func(ctx context.Context, id int) (int, error) { return id, nil }),
		WithStatePreHandler(func(ctx context.Context, id int, s *c11State) (int, error) {
			vMu.Lock()
			if s.Owner != id && bad == "" {
				bad = "a run observed the state of another run"
			}
			vMu.Unlock()
			return id, nil
		}))
	_ = g.AddEdge(START, "n1")
	_ = g.AddEdge("n1", "n2")
	_ = g.AddEdge("n2", END)
	r, err := g.Compile(ctx)
	vassert(err == nil, "graph compiles")
	gens0 := c11Gens
	out1, e1 := r.Invoke(ctx, 1)
	out2, e2 := r.Invoke(ctx, 2)
	vassert(e1 == nil && e2 == nil && out1 == 1 && out2 == 2, "sequential runs succeed")
	vassert(c11Gens == gens0+2, "the state generator is called once per run")
	// two overlapping runs
	doneB := false
	go func() {
		o, e := r.Invoke(ctx, 4)
		vMu.Lock()
		if e != nil || o != 4 {
			bad = "overlapping run B failed"
		}
		doneB = true
		vMu.Unlock()
	}()
	o, e := r.Invoke(ctx, 3)
	vassert(e == nil && o == 3, "overlapping run A succeeds")
	vquiesce()
	vassert(doneB, "run B finished")
	vassert(bad == "", bad)
	vassert(c11Gens == gens0+4, "each overlapping run generated its own state")
}

// (3) a nested graph that declares state gets its own state object
func VerifC11Nested() {
	ctx := context.Background()
	vcfg("fifo", 1)
	innerGen, outerGen := 0, 0
	inner := NewGraph[int, int](WithGenLocalState(c11Gen))
	_ = inner.AddLambdaNode("i", InvokableLambda(func(ctx context.Context, x int) (int, error) {
		err := ProcessState(ctx, func(ctx context.Context, s *c11State) error {
			innerGen = s.Gen
			s.Cnt += 100
			return nil
		})
		return x, err
	}))
	_ = inner.AddEdge(START, "i")
	_ = inner.AddEdge("i", END)
	outer := NewGraph[int, int](WithGenLocalState(c11Gen))
	_ = outer.AddGraphNode("sub", inner)
	outerCnt := -1
	_ = outer.AddLambdaNode("o", InvokableLambda(func(ctx context.Context, x int) (int, error) {
		err := ProcessState(ctx, func(ctx context.Context, s *c11State) error {
			outerGen = s.Gen
			outerCnt = s.Cnt
			return nil
		})
		return x, err
	}))
	_ = outer.AddEdge(START, "sub")
	_ = outer.AddEdge("sub", "o")
	_ = outer.AddEdge("o", END)
	r, err := outer.Compile(ctx)
	vassert(err == nil, "nested stateful graphs compile")
	_, rerr := r.Invoke(ctx, vsymInt("x"))
	vassert(rerr == nil, "run succeeds")
	vassert(innerGen != 0 && outerGen != 0 && innerGen != outerGen, "the nested graph has its own state object")
	vassert(outerCnt == 0, "updates of the nested graph's state do not touch the outer state")
}

// (4) pre-handler before the node, post-handler after it, their results are what the node / successors receive;
//
//	the state is carried unchanged (apart from the caller's StateModifier) across interrupt and resume
func VerifC11Handlers() {
	ctx := context.Background()
	vcfg("fifo", 1)
	_ = RegisterSerializableType[c11State]("c11_state")
	store := &vStore{m: map[string][]byte{}}
	order := ""
	x := vsymInt("x")
	g := NewGraph[int, int](WithGenLocalState(c11Gen))
	sawA, sawB := 0, 0
	_ = g.AddLambdaNode("a", InvokableLambda(func(ctx context.Context, in int) (int, error) {
		order += "a;"
		sawA = in
		return vsymUF("f_a", in), nil
	}), WithStatePreHandler(func(ctx context.Context, in int, s *c11State) (int, error) {
		order += "preA;"
		return vsymUF("pre_a", in), nil
	}), WithStatePostHandler(func(ctx context.Context, out int, s *c11State) (int, error) {
		order += "postA;"
		s.Cnt = out
		return vsymUF("post_a", out), nil
	}))
	stateAtB := 0
	_ = g.AddLambdaNode("b", InvokableLambda(func(ctx context.Context, in int) (int, error) {
		order += "b;"
		sawB = in
		return in, nil
	}), WithStatePreHandler(func(ctx context.Context, in int, s *c11State) (int, error) {
		order += "preB;"
		stateAtB = s.Cnt
		return in, nil
	}))
	_ = g.AddEdge(START, "a")
	_ = g.AddEdge("a", "b")
	_ = g.AddEdge("b", END)
	interrupt := vchoose("interrupt", 3) // 0 none, 1 before b, 2 before b with a state modifier on resume
	opts := []GraphCompileOption{WithCheckPointStore(store)}
	if interrupt > 0 {
		opts = append(opts, WithInterruptBeforeNodes([]string{"b"}))
	}
	r, err := g.Compile(ctx, opts...)
	vassert(err == nil, "graph compiles")
	out, rerr := r.Invoke(ctx, x, WithCheckPointID("cp"))
	if interrupt > 0 {
		info, ok := ExtractInterruptInfo(rerr)
		vassert(ok, "run is interrupted before b")
		st, _ := info.State.(*c11State)
		vassert(st != nil && st.Cnt == vsymUF("f_a", vsymUF("pre_a", x)), "the interrupt info carries the state")
		ropts := []Option{WithCheckPointID("cp")}
		if interrupt == 2 {
			ropts = append(ropts, WithStateModifier(func(ctx context.Context, path NodePath, state any) error {
				state.(*c11State).Cnt += 1
				return nil
			}))
		}
		out, rerr = r.Invoke(ctx, x, ropts...)
	}
	vassert(rerr == nil, "run completes")
	fa := vsymUF("f_a", vsymUF("pre_a", x))
	vassert(sawA == vsymUF("pre_a", x), "the node receives what its pre-handler returned")
	vassert(sawB == vsymUF("post_a", fa) && out == sawB, "successors receive what the post-handler returned")
	vassert(order == "preA;a;postA;preB;b;", "a node's pre-handler runs before it and its post-handler after it, each once (also across interrupt/resume)")
	if interrupt == 2 {
		vassert(stateAtB == fa+1, "after resume the state is the checkpointed one plus the caller-supplied modification")
	} else {
		vassert(stateAtB == fa, "the state written before the interrupt is what handlers see after resume")
	}
}

// a node typed any that returns nil: its post-handler still runs and what it returns is what successors receive
func VerifC11NilOutput() {
	ctx := context.Background()
	vcfg("fifo", 1)
	dag := vchoose("dag", 2) == 1
	seen := 0
	g := NewGraph[int, any](WithGenLocalState(c11Gen))
	_ = g.AddLambdaNode("lookup", InvokableLambda(func(ctx context.Context, in int) (any, error) { return nil, nil }),
		WithStatePostHandler(func(ctx context.Context, out any, s *c11State) (any, error) {
			s.Cnt++
			seen = s.Cnt
			if out == nil {
				return "fallback", nil
			}
			return out, nil
		}))
	got := any(nil)
	_ = g.AddLambdaNode("render", InvokableLambda(func(ctx context.Context, in any) (any, error) { got = in; return in, nil }))
	_ = g.AddEdge(START, "lookup")
	_ = g.AddEdge("lookup", "render")
	_ = g.AddEdge("render", END)
	var opts []GraphCompileOption
	if dag {
		opts = append(opts, WithNodeTriggerMode(AllPredecessor))
	}
	r, err := g.Compile(ctx, opts...)
	vassert(err == nil, "graph compiles")
	out, rerr := r.Invoke(ctx, 1)
	vassert(rerr == nil, "run succeeds")
	vassert(seen == 1, "the post-handler runs after its node also when the node returned a nil interface value")
	vassert(got == "fallback" && out == "fallback", "successors receive what the post-handler returned")
}

type c11Deep struct{ N int }

// Two stateful graphs side by side below 2-4 wrapping graphs (node paths of length 3-5), both interrupted and resumed with a state modifier: the
// modifier is called once for each of them, with that graph's own node path, and its change reaches that graph.
func VerifC11DeepModifier() {
	ctx := context.Background()
	vcfg("fifo", 1)
	_ = RegisterSerializableType[c11Deep]("c11_deep")
	seen := map[string]int{}
	mkLeaf := func(tag string) AnyGraph {
		g := NewGraph[map[string]any, map[string]any](WithGenLocalState(func(ctx context.Context) *c11Deep { return &c11Deep{} }))
		_ = g.AddLambdaNode("p", InvokableLambda(func(ctx context.Context, in map[string]any) (map[string]any, error) { return in, nil }))
		_ = g.AddLambdaNode("q", InvokableLambda(func(ctx context.Context, in map[string]any) (map[string]any, error) {
			n := 0
			_ = ProcessState(ctx, func(ctx context.Context, s *c11Deep) error { n = s.N; return nil })
			vMu.Lock()
			seen[tag] = n
			vMu.Unlock()
			return map[string]any{tag: n}, nil
		}))
		_ = g.AddEdge(START, "p")
		_ = g.AddEdge("p", "q")
		_ = g.AddEdge("q", END)
		return g
	}
	leafOpt := WithGraphCompileOptions(WithInterruptBeforeNodes([]string{"q"}))
	c := NewGraph[map[string]any, map[string]any]()
	_ = c.AddGraphNode("d1", mkLeaf("d1"), leafOpt)
	_ = c.AddGraphNode("d2", mkLeaf("d2"), leafOpt)
	_ = c.AddEdge(START, "d1")
	_ = c.AddEdge(START, "d2")
	_ = c.AddEdge("d1", END)
	_ = c.AddEdge("d2", END)
	wrap := func(key string, inner AnyGraph) AnyGraph {
		g := NewGraph[map[string]any, map[string]any]()
		_ = g.AddGraphNode(key, inner)
		_ = g.AddEdge(START, key)
		_ = g.AddEdge(key, END)
		return g
	}
	m1, m2 := vsymInt("m1"), vsymInt("m2")
	depth := 2 + vchoose("depth", 3) // number of wrapping levels above the two stateful graphs: 2, 3 or 4
	keys := []string{"c", "b", "a", "z"}[:depth]
	var top AnyGraph = c
	prefix := ""
	for _, k := range keys {
		top = wrap(k, top)
		prefix = k + "/" + prefix
	}
	store := &vStoreLite{m: map[string][]byte{}}
	r, err := top.(*Graph[map[string]any, map[string]any]).Compile(ctx, WithCheckPointStore(store))
	vassert(err == nil, "nested graphs compile")
	in := map[string]any{"in": 1}
	_, e1 := r.Invoke(ctx, in, WithCheckPointID("deep"))
	_, ok := ExtractInterruptInfo(e1)
	vassert(ok, "both inner graphs interrupt")
	var paths []string
	out, e2 := r.Invoke(ctx, in, WithCheckPointID("deep"), WithStateModifier(func(ctx context.Context, path NodePath, state any) error {
		p := ""
		for _, k := range path.path {
			p += k + "/"
		}
		vMu.Lock()
		paths = append(paths, p)
		vMu.Unlock()
		if s, ok := state.(*c11Deep); ok {
			if len(path.path) > 0 && path.path[len(path.path)-1] == "d1" {
				s.N = m1
			} else {
				s.N = m2
			}
		}
		return nil
	}))
	vassert(e2 == nil, "the resumed run completes")
	n1, n2 := 0, 0
	for _, p := range paths {
		if p == prefix+"d1/" {
			n1++
		}
		if p == prefix+"d2/" {
			n2++
		}
	}
	vassert(n1 == 1 && n2 == 1, "the state modifier is called once for each stateful nested graph with that graph's own node path")
	vassert(out["d1"] == m1 && out["d2"] == m2 && seen["d1"] == m1 && seen["d2"] == m2, "each nested graph continues on its own state as changed by the caller's modifier")
}

type vStoreLite struct{ m map[string][]byte }

func (s *vStoreLite) Get(ctx context.Context, id string) ([]byte, bool, error) {
	b, ok := s.m[id]
	return b, ok, nil
}
func (s *vStoreLite) Set(ctx context.Context, id string, b []byte) error {
	s.m[id] = append([]byte{}, b...)
	return nil
}

// A nested graph that declares no state of its own works on the enclosing graph's state; interrupted inside and
// resumed, its updates still reach that one state object (nothing is applied to a private copy).
func VerifC11ParentState() {
	ctx := context.Background()
	vcfg("fifo", 1)
	vcfg("selectfirst", 1)
	_ = RegisterSerializableType[c11Deep]("c11_deep")
	d1, d2, d3 := vsymInt("d1"), vsymInt("d2"), vsymInt("d3")
	bump := func(key string, d int) *Lambda {
		return InvokableLambda(func(ctx context.Context, in map[string]any) (map[string]any, error) {
			err := ProcessState(ctx, func(ctx context.Context, s *c11Deep) error { s.N += d; return nil })
			return map[string]any{key: 1}, err
		})
	}
	final := -1
	build := func(interrupts bool, store CheckPointStore) (Runnable[map[string]any, map[string]any], error) {
		sub := NewGraph[map[string]any, map[string]any]() // no state of its own
		_ = sub.AddLambdaNode("s1", bump("s1", d1))
		_ = sub.AddLambdaNode("s2", bump("s2", d2))
		_ = sub.AddEdge(START, "s1")
		_ = sub.AddEdge("s1", "s2")
		_ = sub.AddEdge("s2", END)
		g := NewGraph[map[string]any, map[string]any](WithGenLocalState(func(ctx context.Context) *c11Deep { return &c11Deep{} }))
		var o []GraphAddNodeOpt
		if interrupts {
			o = append(o, WithGraphCompileOptions(WithInterruptBeforeNodes([]string{"s2"})))
		}
		_ = g.AddGraphNode("sub", sub, o...)
		_ = g.AddLambdaNode("after", InvokableLambda(func(ctx context.Context, in map[string]any) (map[string]any, error) {
			err := ProcessState(ctx, func(ctx context.Context, s *c11Deep) error { s.N += d3; final = s.N; return nil })
			return in, err
		}))
		_ = g.AddEdge(START, "sub")
		_ = g.AddEdge("sub", "after")
		_ = g.AddEdge("after", END)
		var copts []GraphCompileOption
		if interrupts {
			copts = append(copts, WithCheckPointStore(store))
		}
		return g.Compile(ctx, copts...)
	}
	store := &vStoreLite{m: map[string][]byte{}}
	r, err := build(true, store)
	vassert(err == nil, "graph compiles")
	in := map[string]any{"in": 1}
	_, e1 := r.Invoke(ctx, in, WithCheckPointID("ps"))
	_, ok := ExtractInterruptInfo(e1)
	vassert(ok, "the nested graph interrupts before s2")
	_, e2 := r.Invoke(ctx, in, WithCheckPointID("ps"))
	vassert(e2 == nil, "the resumed run completes")
	vassert(final == d1+d2+d3, "every update made through the nested graph, before and after the interrupt, reaches the enclosing graph's state")
}

// the rerun path of the above: the nested node asks for a rerun; the update it makes after the resume reaches the
// enclosing graph's state
func VerifC11ParentStateRerun() {
	ctx := context.Background()
	vcfg("fifo", 1)
	vcfg("selectfirst", 1)
	_ = RegisterSerializableType[c11Deep]("c11_deep")
	d1, d2 := vsymInt("d1"), vsymInt("d2")
	attempts := 0
	final := -1
	sub := NewGraph[map[string]any, map[string]any]() // no state of its own
	_ = sub.AddLambdaNode("s", InvokableLambda(func(ctx context.Context, in map[string]any) (map[string]any, error) {
		attempts++
		if attempts == 1 {
			return nil, InterruptAndRerun
		}
		err := ProcessState(ctx, func(ctx context.Context, s *c11Deep) error { s.N += d2; return nil })
		return map[string]any{"s": 1}, err
	}))
	_ = sub.AddEdge(START, "s")
	_ = sub.AddEdge("s", END)
	g := NewGraph[map[string]any, map[string]any](WithGenLocalState(func(ctx context.Context) *c11Deep { return &c11Deep{} }))
	_ = g.AddLambdaNode("pre", InvokableLambda(func(ctx context.Context, in map[string]any) (map[string]any, error) {
		err := ProcessState(ctx, func(ctx context.Context, s *c11Deep) error { s.N += d1; return nil })
		return in, err
	}))
	_ = g.AddGraphNode("sub", sub)
	_ = g.AddLambdaNode("after", InvokableLambda(func(ctx context.Context, in map[string]any) (map[string]any, error) {
		err := ProcessState(ctx, func(ctx context.Context, s *c11Deep) error { final = s.N; return nil })
		return in, err
	}))
	_ = g.AddEdge(START, "pre")
	_ = g.AddEdge("pre", "sub")
	_ = g.AddEdge("sub", "after")
	_ = g.AddEdge("after", END)
	store := &vStoreLite{m: map[string][]byte{}}
	r, err := g.Compile(ctx, WithCheckPointStore(store))
	vassert(err == nil, "graph compiles")
	in := map[string]any{"in": 1}
	_, e1 := r.Invoke(ctx, in, WithCheckPointID("psr"))
	_, ok := ExtractInterruptInfo(e1)
	vassert(ok, "the nested node asks for a rerun")
	var e2 error
	if vchoose("stream", 2) == 1 {
		sr, e := r.Stream(ctx, in, WithCheckPointID("psr"))
		e2 = e
		if e == nil {
			for i := 0; i < 4; i++ {
				if _, e := sr.Recv(); e != nil {
					break
				}
			}
			sr.Close()
		}
	} else {
		_, e2 = r.Invoke(ctx, in, WithCheckPointID("psr"))
	}
	vassert(e2 == nil, "the resumed run completes")
	vassert(final == d1+d2, "the update made by the re-run nested node reaches the enclosing graph's state")
}

// eager run with three state-updating lanes and an interrupt-before node behind the quickest one: the state reported
// with the interrupt and carried into the resumed run contains the update of every node that had started
func VerifC11EagerInterrupt() {
	ctx := context.Background()
	vcfg("delaybound", 1+vtier())
	vcfg("selectfirst", 1)
	vcfg("race", 1)
	_ = RegisterSerializableType[c11Deep]("c11_deep")
	started := map[string]int{}
	lane := func(key string, yields int) *Lambda {
		return InvokableLambda(func(ctx context.Context, in map[string]any) (map[string]any, error) {
			vMu.Lock()
			started[key]++
			vMu.Unlock()
			for i := 0; i < yields; i++ {
				vyield()
			}
			err := ProcessState(ctx, func(ctx context.Context, s *c11Deep) error { s.N++; return nil })
			return map[string]any{key: 1}, err
		})
	}
	post := WithStatePostHandler(func(ctx context.Context, out map[string]any, s *c11Deep) (map[string]any, error) {
		s.N += 10
		return out, nil
	})
	final := -1
	wf := NewWorkflow[map[string]any, map[string]any](WithGenLocalState(func(ctx context.Context) *c11Deep { return &c11Deep{} }))
	wf.AddLambdaNode("a", lane("a", 0), post).AddInput(START)
	wf.AddLambdaNode("b", lane("b", 1), post).AddInput(START)
	wf.AddLambdaNode("c", lane("c", 2), post).AddInput(START)
	wf.AddLambdaNode("z", InvokableLambda(func(ctx context.Context, in map[string]any) (map[string]any, error) {
		err := ProcessState(ctx, func(ctx context.Context, s *c11Deep) error { final = s.N; return nil })
		return in, err
	})).AddInput("a", ToField("a")).AddInput("b", ToField("b")).AddInput("c", ToField("c"))
	wf.End().AddInput("z")
	store := &vStoreLite{m: map[string][]byte{}}
	r, err := wf.Compile(ctx, WithCheckPointStore(store), WithInterruptAfterNodes([]string{"a"}))
	vassert(err == nil, "workflow compiles")
	in := map[string]any{"in": 1}
	_, e1 := r.Invoke(ctx, in, WithCheckPointID("ei"))
	info, ok := ExtractInterruptInfo(e1)
	vassert(ok, "the run is interrupted after a")
	vquiesce()
	st, _ := info.State.(*c11Deep)
	n := started["a"] + started["b"] + started["c"]
	vassert(st != nil && st.N == 11*n, "the state reported with the interrupt holds the body and post-handler update of every node that had started")
	_, e2 := r.Invoke(ctx, in, WithCheckPointID("ei"))
	vassert(e2 == nil, "the resumed run completes")
	vassert(final == 33, "no update is lost across interrupt and resume")
}

// Batch step (Pregel / all-predecessor graph) with two nodes that ask for interrupt-and-rerun and a third, slower node
// that updates the state in its body and in its post-handler: the state carried by the interrupt and into the resumed
// run holds the third node's updates (its completion is collected before the checkpoint is built), and the resumed
// run completes with nothing lost.
func VerifC11RerunSiblings() {
	ctx := context.Background()
	vcfg("delaybound", 1+vtier())
	vcfg("selectfirst", 1)
	vcfg("race", 1)
	_ = RegisterSerializableType[c11Deep]("c11_deep")
	attempts := map[string]int{}
	asker := func(key string) *Lambda {
		return InvokableLambda(func(ctx context.Context, in map[string]any) (map[string]any, error) {
			vMu.Lock()
			attempts[key]++
			first := attempts[key] == 1
			vMu.Unlock()
			if first {
				return nil, InterruptAndRerun
			}
			return map[string]any{key: 1}, nil
		})
	}
	worker := InvokableLambda(func(ctx context.Context, in map[string]any) (map[string]any, error) {
		vyield()
		vyield()
		err := ProcessState(ctx, func(ctx context.Context, s *c11Deep) error { s.N++; return nil })
		return map[string]any{"c": 1}, err
	})
	post := WithStatePostHandler(func(ctx context.Context, out map[string]any, s *c11Deep) (map[string]any, error) {
		s.N += 10
		return out, nil
	})
	final := -1
	g := NewGraph[map[string]any, map[string]any](WithGenLocalState(func(ctx context.Context) *c11Deep { return &c11Deep{} }))
	_ = g.AddLambdaNode("a", asker("a"))
	_ = g.AddLambdaNode("b", asker("b"))
	_ = g.AddLambdaNode("c", worker, post)
	_ = g.AddLambdaNode("z", InvokableLambda(func(ctx context.Context, in map[string]any) (map[string]any, error) {
		err := ProcessState(ctx, func(ctx context.Context, s *c11Deep) error { final = s.N; return nil })
		return map[string]any{"n": len(in)}, err
	}))
	for _, k := range []string{"a", "b", "c"} {
		_ = g.AddEdge(START, k)
		_ = g.AddEdge(k, "z")
	}
	_ = g.AddEdge("z", END)
	store := &vStoreLite{m: map[string][]byte{}}
	var opts []GraphCompileOption
	opts = append(opts, WithCheckPointStore(store))
	if vchoose("dag", 2) == 1 {
		opts = append(opts, WithNodeTriggerMode(AllPredecessor))
	}
	r, err := g.Compile(ctx, opts...)
	vassert(err == nil, "graph compiles")
	in := map[string]any{"in": 1}
	_, e1 := r.Invoke(ctx, in, WithCheckPointID("rs"))
	info, ok := ExtractInterruptInfo(e1)
	vassert(ok, "the run is interrupted by the asking nodes")
	if !ok {
		return
	}
	st, _ := info.State.(*c11Deep)
	vassert(st != nil && st.N == 11, "the state reported with the interrupt holds the body and post-handler update of the sibling that ran in the same step")
	vquiesce()
	out, e2 := r.Invoke(ctx, in, WithCheckPointID("rs"))
	vassert(e2 == nil, "the resumed run completes")
	vassert(final == 11 && out["n"] == 3, "no state update and no output is lost across interrupt and resume")
}

// A state handler or ProcessState callback that panics releases the state: the run fails with an error, and the
// handlers of a parallel node still get the state (no goroutine is left blocked on it), whichever of the two goes first.
func VerifC11HandlerPanic() {
	ctx := context.Background()
	vcfg("preempt", 2)
	which := vchoose("which", 5) // a's panicking piece: pre, post, ProcessState, stream pre, stream post
	mode := vchoose("mode", 2)
	mon := &c11Mon{}
	var aOpts []GraphAddNodeOpt
	switch which {
	case 0:
		aOpts = append(aOpts, WithStatePreHandler(func(ctx context.Context, in map[string]any, s *c11State) (map[string]any, error) {
			panic("boom")
		}))
	case 1:
		aOpts = append(aOpts, WithStatePostHandler(func(ctx context.Context, out map[string]any, s *c11State) (map[string]any, error) {
			panic("boom")
		}))
	case 3:
		aOpts = append(aOpts, WithStreamStatePreHandler(func(ctx context.Context, in *schema.StreamReader[map[string]any], s *c11State) (*schema.StreamReader[map[string]any], error) {
			panic("boom")
		}))
	case 4:
		aOpts = append(aOpts, WithStreamStatePostHandler(func(ctx context.Context, out *schema.StreamReader[map[string]any], s *c11State) (*schema.StreamReader[map[string]any], error) {
			panic("boom")
		}))
	}
	g := NewGraph[map[string]any, map[string]any](WithGenLocalState(c11Gen))
	_ = g.AddLambdaNode("a", InvokableLambda(func(ctx context.Context, in map[string]any) (map[string]any, error) {
		if which == 2 {
			_ = ProcessState(ctx, func(ctx context.Context, s *c11State) error { panic("boom") })
		}
		return map[string]any{"a": 1}, nil
	}), aOpts...)
	_ = g.AddLambdaNode("b", InvokableLambda(func(ctx context.Context, in map[string]any) (map[string]any, error) {
		err := ProcessState(ctx, func(ctx context.Context, s *c11State) error {
			mon.section(s, 1, true)
			return nil
		})
		return map[string]any{"b": 1}, err
	}), WithStatePreHandler(func(ctx context.Context, in map[string]any, s *c11State) (map[string]any, error) {
		mon.section(s, 1, false)
		return in, nil
	}), WithStatePostHandler(func(ctx context.Context, out map[string]any, s *c11State) (map[string]any, error) {
		mon.section(s, 1, false)
		return out, nil
	}))
	_ = g.AddEdge(START, "a")
	_ = g.AddEdge(START, "b")
	_ = g.AddEdge("a", END)
	_ = g.AddEdge("b", END)
	var opts []GraphCompileOption
	if mode == 1 {
		opts = append(opts, WithNodeTriggerMode(AllPredecessor))
	}
	r, err := g.Compile(ctx, opts...)
	vassert(err == nil, "stateful graph compiles")
	_, rerr := r.Invoke(ctx, map[string]any{"in": 1})
	vassert(rerr != nil, "a panicking state handler fails the run with an error")
	vquiesce()
	vassert(mon.bad == "", mon.bad)
}
