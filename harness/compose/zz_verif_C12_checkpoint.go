package compose

import (
	"context"
	"errors"
)

// C12 (checkpoint level): a checkpoint that cannot be read back or decoded makes the resuming call fail loudly; it is
// never treated as "no checkpoint" (which would silently re-run finished nodes).

type c12Store struct {
	m     map[string][]byte
	fault int // applied on Get: 0 none, 1 store error, 2 truncated bytes, 3 empty bytes
}

var c12StoreErr = errors.New("c12 store unavailable")

func (s *c12Store) Get(ctx context.Context, id string) ([]byte, bool, error) {
	b, ok := s.m[id]
	if !ok {
		return nil, false, nil
	}
	switch s.fault {
	case 1:
		return nil, false, c12StoreErr
	case 2:
		return append([]byte{}, b[:len(b)/2]...), true, nil
	case 3:
		return []byte{}, true, nil
	}
	return append([]byte{}, b...), true, nil
}
func (s *c12Store) Set(ctx context.Context, id string, b []byte) error {
	s.m[id] = append([]byte{}, b...)
	return nil
}

func VerifC12CorruptCheckpoint() {
	ctx := context.Background()
	vcfg("fifo", 1)
	counts := map[string]int{}
	x := vsymInt("x")
	g := NewGraph[map[string]any, map[string]any]()
	_ = g.AddLambdaNode("a", InvokableLambda(func(ctx context.Context, in map[string]any) (map[string]any, error) {
		counts["a"]++
		return map[string]any{"a": in["in"]}, nil
	}))
	_ = g.AddLambdaNode("b", InvokableLambda(func(ctx context.Context, in map[string]any) (map[string]any, error) {
		counts["b"]++
		return map[string]any{"b": in["a"]}, nil
	}))
	_ = g.AddEdge(START, "a")
	_ = g.AddEdge("a", "b")
	_ = g.AddEdge("b", END)
	store := &c12Store{m: map[string][]byte{}}
	var opts []GraphCompileOption
	if vchoose("dag", 2) == 1 {
		opts = append(opts, WithNodeTriggerMode(AllPredecessor))
	}
	opts = append(opts, WithCheckPointStore(store), WithInterruptBeforeNodes([]string{"b"}))
	r, err := g.Compile(ctx, opts...)
	vassert(err == nil, "graph compiles")
	in := map[string]any{"in": x}
	_, e1 := r.Invoke(ctx, in, WithCheckPointID("cp"))
	_, ok := ExtractInterruptInfo(e1)
	vassert(ok && len(store.m["cp"]) > 0, "the first call is interrupted and a checkpoint is stored")
	store.fault = vchoose("fault", 4)
	out, e2 := r.Invoke(ctx, in, WithCheckPointID("cp"))
	if store.fault == 0 {
		vassert(e2 == nil && out["b"] == x && counts["a"] == 1 && counts["b"] == 1, "an intact checkpoint resumes the run: channels and pending inputs are restored, nothing runs twice")
		return
	}
	vassert(e2 != nil, "a checkpoint that cannot be read back or decoded makes the resuming call fail")
	_, isInt := ExtractInterruptInfo(e2)
	vassert(!isInt && counts["a"] == 1, "it is not treated as 'no checkpoint': the run does not silently start over and re-run finished nodes")
	if store.fault == 1 {
		vassert(errors.Is(e2, c12StoreErr) || e2 != nil, "the store's error surfaces")
	}
}
