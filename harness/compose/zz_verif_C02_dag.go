package compose

import (
	"context"
	"sort"
)

// C02: all-predecessor (DAG / Workflow) nodes run at most once, exactly when triggered.

// ---------------------------------------------------------------- (a) one-step inductive kernel on dagChannel

// Arbitrary state satisfying the representation invariant, one operation with an arbitrary argument subset.
// Control predecessors {a, b}; data predecessors {a, d} (a is both, d is data-only).
func c02Inv(ch *dagChannel) bool {
	allSkipped := ch.ControlPredecessors["a"] == dependencyStateSkipped && ch.ControlPredecessors["b"] == dependencyStateSkipped
	if ch.Skipped != allSkipped {
		return false
	}
	if ch.ControlPredecessors["a"] == dependencyStateSkipped && !ch.DataPredecessors["a"] {
		return false
	}
	for k := range ch.Values {
		if !ch.DataPredecessors[k] {
			return false
		}
	}
	return len(ch.ControlPredecessors) == 2 && len(ch.DataPredecessors) == 2
}

func VerifC02ChannelStep() {
	vcfg("maporder", 1)
	ch := dagChannelBuilder([]string{"a", "b"}, []string{"a", "d"}, func() any { return map[string]any(nil) }, nil).(*dagChannel)
	sa := dependencyState(vrange("sa", 0, 2))
	sb := dependencyState(vrange("sb", 0, 2))
	da, dd := vsymBool("da"), vsymBool("dd")
	ha, hd := vsymBool("ha"), vsymBool("hd") // value present
	xa, xd := vsymInt("xa"), vsymInt("xd")
	ch.ControlPredecessors["a"], ch.ControlPredecessors["b"] = sa, sb
	ch.DataPredecessors["a"], ch.DataPredecessors["d"] = da, dd
	if ha {
		ch.Values["a"] = map[string]any{"a": xa}
	}
	if hd {
		ch.Values["d"] = map[string]any{"d": xd}
	}
	ch.Skipped = vsymBool("skipped")
	vassume(c02Inv(ch))
	wasSkipped := ch.Skipped
	op := vchoose("op", 5)
	switch op {
	case 4: // restore from a checkpoint: a fresh channel loaded from this state decides and hands out the same
		fresh := dagChannelBuilder([]string{"a", "b"}, []string{"a", "d"}, func() any { return map[string]any(nil) }, nil).(*dagChannel)
		vassert(fresh.load(ch) == nil, "load succeeds")
		vassert(fresh.Skipped == wasSkipped && fresh.ControlPredecessors["a"] == sa && fresh.ControlPredecessors["b"] == sb &&
			fresh.DataPredecessors["a"] == bool(da) && fresh.DataPredecessors["d"] == bool(dd) && len(fresh.Values) == len(ch.Values),
			"a channel restored from a checkpoint carries the complete trigger state (predecessor states, reported flags, skipped flag, values)")
		wantReady := !wasSkipped && sa != dependencyStateWaiting && sb != dependencyStateWaiting && bool(da) && bool(dd)
		_, ready, err := fresh.get(false)
		vassert(err == nil && ready == wantReady, "a restored channel is ready exactly when the saved one was")
	case 0: // reportValues with an arbitrary subset of {a, d, stranger}
		ins := map[string]any{}
		ra, rd, rs := vsymBool("ra"), vsymBool("rd"), vsymBool("rs")
		na, nd := vsymInt("na"), vsymInt("nd")
		if ra {
			ins["a"] = map[string]any{"a": na}
		}
		if rd {
			ins["d"] = map[string]any{"d": nd}
		}
		if rs {
			ins["zz"] = map[string]any{"zz": 1}
		}
		err := ch.reportValues(ins)
		vassert(err == nil, "reportValues succeeds")
		vassert(c02Inv(ch), "invariant after reportValues")
		if !wasSkipped {
			if ra {
				vassert(ch.DataPredecessors["a"] && vMapEq(ch.Values["a"].(map[string]any), map[string]any{"a": na}), "reported value of a data predecessor is stored")
			}
			if rd {
				vassert(ch.DataPredecessors["d"] && vMapEq(ch.Values["d"].(map[string]any), map[string]any{"d": nd}), "reported value of a data-only predecessor is stored")
			}
		}
		_, has := ch.Values["zz"]
		vassert(!has, "values from non-predecessors are ignored")
	case 1: // reportDependencies
		var deps []string
		ra, rb := vsymBool("ra"), vsymBool("rb")
		if ra {
			deps = append(deps, "a")
		}
		if rb {
			deps = append(deps, "b")
		}
		deps = append(deps, "zz")
		ch.reportDependencies(deps)
		if !wasSkipped {
			if ra {
				vassert(ch.ControlPredecessors["a"] == dependencyStateReady, "reported control predecessor becomes ready")
			}
			if rb {
				vassert(ch.ControlPredecessors["b"] == dependencyStateReady, "reported control predecessor becomes ready")
			}
		}
		vassert(len(ch.ControlPredecessors) == 2, "unknown dependencies are ignored")
	case 2: // reportSkip
		var ks []string
		ra, rb := vsymBool("ra"), vsymBool("rb")
		if ra {
			ks = append(ks, "a")
		}
		if rb {
			ks = append(ks, "b")
		}
		r := ch.reportSkip(ks)
		all := ch.ControlPredecessors["a"] == dependencyStateSkipped && ch.ControlPredecessors["b"] == dependencyStateSkipped
		vassert(r == all, "reportSkip reports 'skipped' exactly when every control predecessor is skipped")
		vassert(c02Inv(ch), "invariant after reportSkip")
		if ra {
			vassert(ch.ControlPredecessors["a"] == dependencyStateSkipped && ch.DataPredecessors["a"], "skipped predecessor is marked skipped and counts as reported")
		}
	case 3: // get
		wantReady := !ch.Skipped && sa != dependencyStateWaiting && sb != dependencyStateWaiting && bool(da) && bool(dd)
		v, ready, err := ch.get(false)
		vassert(err == nil, "get succeeds")
		vassert(ready == wantReady, "ready exactly when not skipped, no control predecessor waiting, every data predecessor reported")
		if ready {
			want := map[string]any{}
			if ha {
				want["a"] = xa
			}
			if hd {
				want["d"] = xd
			}
			got, _ := v.(map[string]any)
			vassert(vMapEq(got, want), "value handed out is the merge of exactly the reported values (zero value when none)")
			vassert(len(ch.Values) == 0 && ch.ControlPredecessors["a"] == dependencyStateWaiting && ch.ControlPredecessors["b"] == dependencyStateWaiting &&
				!ch.DataPredecessors["a"] && !ch.DataPredecessors["d"], "state is reset after the value was handed out")
		} else {
			vassert(ch.ControlPredecessors["a"] == sa && ch.ControlPredecessors["b"] == sb, "a non-ready get changes nothing")
		}
	}
}

// ---------------------------------------------------------------- (b) run-level: graphs in AllPredecessor mode

// reference trigger rule: a node runs iff at least one incoming link routed to it (every link is resolved because
// the graph is acyclic); its input is the merge of the outputs of the sources of its routed links.
func (g *vG) referenceDAG(in map[string]any, log *vLog, d *vDecider) (map[string]any, bool) {
	out := map[string]map[string]any{START: in}
	ran := map[string]bool{START: true}
	chosen := map[string]map[string]bool{} // from -> target chosen by some branch of from
	// topological order by repeated scan (graphs are tiny)
	order := []string{}
	done := map[string]bool{START: true}
	all := append(append([]string{}, g.nodes...), END)
	for len(order) < len(all) {
		progress := false
		for _, n := range all {
			if done[n] {
				continue
			}
			ok := true
			for _, e := range g.edges {
				if e[1] == n && !done[e[0]] {
					ok = false
				}
			}
			for _, b := range g.branches {
				for _, t := range b.targets {
					if t == n && !done[b.from] {
						ok = false
					}
				}
			}
			if ok {
				done[n] = true
				order = append(order, n)
				progress = true
			}
		}
		if !progress {
			return nil, false
		}
	}
	evalBranches := func(from string) {
		chosen[from] = map[string]bool{}
		for bi, b := range g.branches {
			if b.from == from {
				k := d.cntM[bi]
				d.cntM[bi]++
				chosen[from][b.targets[d.get(bi, k)]] = true
			}
		}
	}
	evalBranches(START)
	for _, n := range order {
		ins := map[string]map[string]any{}
		for _, e := range g.edges {
			if e[1] == n && ran[e[0]] {
				ins[e[0]] = out[e[0]]
			}
		}
		for _, b := range g.branches {
			for _, t := range b.targets {
				if t == n && ran[b.from] && chosen[b.from][n] {
					ins[b.from] = out[b.from]
				}
			}
		}
		if len(ins) == 0 {
			continue // skipped
		}
		ran[n] = true
		merged := vMergeRef(ins)
		if n == END {
			return merged, true
		}
		x := vFold(merged)
		log.execs = append(log.execs, vExec{n, x})
		out[n] = map[string]any{n: vsymUF("f_"+n, x)}
		evalBranches(n)
	}
	return nil, false
}

func c02Check(g *vG, useStream bool) { c02CheckOpt(g, useStream, true) }

func c02CheckOpt(g *vG, useStream bool, mapOrder bool) {
	ctx := context.Background()
	vcfg("fifo", 1)
	if mapOrder {
		vcfgMapOrderIn("dagChannel).reportSkip")
	}

	d := &vDecider{g: g, taken: map[int][]int{}, cntR: map[int]int{}, cntM: map[int]int{}}
	realLog, refLog := &vLog{}, &vLog{}
	gr := g.build(realLog, d)
	r, err := gr.Compile(ctx, WithNodeTriggerMode(AllPredecessor))
	vassume(err == nil)
	in := map[string]any{"in": vsymInt("x")}
	var out map[string]any
	var rerr error
	if useStream {
		sr, e := r.Stream(ctx, in)
		if e != nil {
			rerr = e
		} else {
			out, rerr = vDrainMap(sr)
		}
	} else {
		out, rerr = r.Invoke(ctx, in)
	}
	want, reached := g.referenceDAG(in, refLog, d)
	if !reached {
		vassert(rerr != nil, "a run in which END is skipped fails")
	} else {
		vassert(rerr == nil, "run succeeds when END is triggered")
		vassert(vMapEq(out, want), "result is the value assembled for END from exactly the predecessors that ran and routed to it")
	}
	for _, n := range g.nodes {
		a, b := realLog.of(n), refLog.of(n)
		vassert(len(a) <= 1, "node "+n+" executes at most once per run")
		if reached {
			vassert(len(a) == len(b), "node "+n+" executes exactly when triggered (all predecessors finished or skipped, at least one routed to it)")
			for i := range a {
				vassert(a[i] == b[i], "node "+n+" receives the merge of exactly the outputs routed to it")
			}
		}
	}
}

func VerifC02Diamond() {
	g := &vG{nodes: []string{"a", "b", "c"}, edges: [][2]string{{START, "a"}, {START, "b"}, {"a", "c"}, {"b", "c"}, {"c", END}}}
	for _, e := range [][2]string{{"a", END}, {START, "c"}, {"b", END}} {
		if vchoose("edge", 2) == 1 {
			g.edges = append(g.edges, e)
		}
	}
	c02Check(g, vchoose("stream", 2) == 1)
}

func VerifC02BranchSkip() {
	// START->a ; a -(br)-> b | c ; b->d ; c->d ; d->END ; optional a->d, c->e->END (nested skips)
	g := &vG{nodes: []string{"a", "b", "c", "d", "e"}, edges: [][2]string{{START, "a"}, {"b", "d"}, {"c", "d"}, {"d", END}, {"c", "e"}, {"e", END}},
		branches: []vBranch{{"a", []string{"b", "c"}}}}
	if vchoose("edge", 2) == 1 {
		g.edges = append(g.edges, [2]string{"a", "d"})
	}
	c02Check(g, vchoose("stream", 2) == 1)
}

func VerifC02TwoBranchesConverge() {
	// two branches of the same node sharing a target, and a second source with its own branch
	g := &vG{nodes: []string{"p", "q", "x", "y", "z"}, edges: [][2]string{{START, "p"}, {START, "q"}, {"x", END}, {"y", END}, {"z", END}},
		branches: []vBranch{{"p", []string{"x", "y"}}, {"p", []string{"x", "z"}}, {"q", []string{"y", "z"}}}}
	c02Check(g, vchoose("stream", 2) == 1)
}

// a node n with two control predecessors: p finishes (and routes to n) one step before the branch of a decides to skip
// q, n's other predecessor - the skip is the last thing n hears; n still runs once on p's output
func VerifC02LateSkip() {
	g := &vG{nodes: []string{"p", "a1", "a", "q", "z", "n"},
		edges:    [][2]string{{START, "p"}, {"p", "n"}, {START, "a1"}, {"a1", "a"}, {"q", "n"}, {"n", END}, {"z", END}},
		branches: []vBranch{{"a", []string{"q", "z"}}}}
	c02Check(g, vchoose("stream", 2) == 1)
}

func VerifC02MultiWay() {
	// a three-way branch with END as a target, targets chained
	g := &vG{nodes: []string{"a", "b", "c", "d"}, edges: [][2]string{{START, "a"}, {"b", "d"}, {"c", "d"}, {"d", END}},
		branches: []vBranch{{"a", []string{"b", "c", END}}}}
	c02Check(g, false)
}

// ---------------------------------------------------------------- (c) run-level: Workflow dependencies

type c02Dep struct {
	from  string
	field string // "" for control-only
	kind  int    // 0 AddInput, 1 data-only (WithNoDirectDependency), 2 control-only (AddDependency)
}

type c02WF struct {
	nodes    []string
	deps     map[string][]c02Dep // node -> dependencies (END included)
	branches []vBranch
}

func vFoldDeep(in map[string]any) int {
	keys := make([]string, 0, len(in))
	for k := range in {
		keys = append(keys, k)
	}
	sort.Strings(keys)
	acc := 0
	for _, k := range keys {
		switch v := in[k].(type) {
		case int:
			acc = vsymUF("mix", acc, vKeyID(k), v)
		case map[string]any:
			acc = vsymUF("mix", acc, vKeyID(k), vFoldDeep(v))
		}
	}
	return acc
}

func (w *c02WF) build(log *vLog, d *vDecider) *Workflow[map[string]any, map[string]any] {
	wf := NewWorkflow[map[string]any, map[string]any]()
	add := func(n *WorkflowNode, key string) {
		for _, dp := range w.deps[key] {
			switch dp.kind {
			case 0:
				n.AddInput(dp.from, ToField(dp.field))
			case 1:
				n.AddInputWithOptions(dp.from, []*FieldMapping{ToField(dp.field)}, WithNoDirectDependency())
			case 2:
				n.AddDependency(dp.from)
			}
		}
	}
	for _, k := range w.nodes {
		k := k
		n := wf.AddLambdaNode(k, InvokableLambda(func(ctx context.Context, in map[string]any) (map[string]any, error) {
			x := vFoldDeep(in)
			log.add(k, x)
			return map[string]any{k: vsymUF("f_"+k, x)}, nil
		}))
		add(n, k)
	}
	add(wf.End(), END)
	for bi, b := range w.branches {
		bi, b := bi, b
		ends := map[string]bool{}
		for _, t := range b.targets {
			ends[t] = true
		}
		wf.AddBranch(b.from, NewGraphBranch(func(ctx context.Context, in map[string]any) (string, error) {
			k := d.cntR[bi]
			d.cntR[bi]++
			return b.targets[d.get(bi, k)], nil
		}, ends))
	}
	return wf
}

func (w *c02WF) reference(in map[string]any, log *vLog, d *vDecider) (map[string]any, bool) {
	out := map[string]map[string]any{START: in}
	ran := map[string]bool{START: true}
	resolved := map[string]bool{START: true}
	chosen := map[string]map[string]bool{}
	evalBranches := func(from string) {
		chosen[from] = map[string]bool{}
		for bi, b := range w.branches {
			if b.from == from {
				k := d.cntM[bi]
				d.cntM[bi]++
				chosen[from][b.targets[d.get(bi, k)]] = true
			}
		}
	}
	evalBranches(START)
	all := append(append([]string{}, w.nodes...), END)
	for round := 0; round < len(all)+1; round++ {
		for _, n := range all {
			if resolved[n] {
				continue
			}
			ready, routed := true, false
			for _, dp := range w.deps[n] {
				if dp.kind == 1 {
					continue
				}
				if !resolved[dp.from] {
					ready = false
				} else if ran[dp.from] {
					routed = true
				}
			}
			for _, b := range w.branches {
				for _, t := range b.targets {
					if t == n {
						if !resolved[b.from] {
							ready = false
						} else if ran[b.from] && chosen[b.from][n] {
							routed = true
						}
					}
				}
			}
			if !ready {
				continue
			}
			resolved[n] = true
			if !routed {
				continue
			}
			ran[n] = true
			input := map[string]any{}
			for _, dp := range w.deps[n] {
				if dp.kind != 2 && ran[dp.from] {
					input[dp.field] = out[dp.from]
				}
			}
			if n == END {
				return input, true
			}
			x := vFoldDeep(input)
			log.execs = append(log.execs, vExec{n, x})
			out[n] = map[string]any{n: vsymUF("f_"+n, x)}
			evalBranches(n)
		}
	}
	return nil, false
}

func c02DeepEq(a, b map[string]any) bool {
	return vFoldDeep(a) == vFoldDeep(b) && len(a) == len(b)
}

func c02CheckWF(w *c02WF) {
	ctx := context.Background()
	vcfg("fifo", 1)
	vcfgMapOrderIn("dagChannel).reportSkip")

	d := &vDecider{g: &vG{branches: w.branches}, taken: map[int][]int{}, cntR: map[int]int{}, cntM: map[int]int{}}
	realLog, refLog := &vLog{}, &vLog{}
	wf := w.build(realLog, d)
	r, err := wf.Compile(ctx)
	vassume(err == nil)
	in := map[string]any{"in": vsymInt("x")}
	out, rerr := r.Invoke(ctx, in)
	want, reached := w.reference(in, refLog, d)
	if !reached {
		vassert(rerr != nil, "a workflow run in which END is skipped fails")
		return
	}
	vassert(rerr == nil, "workflow run succeeds when END is triggered")
	vassert(c02DeepEq(out, want), "END receives exactly the mapped outputs of the data predecessors that ran")
	for _, n := range w.nodes {
		a, b := realLog.of(n), refLog.of(n)
		vassert(len(a) == len(b) && len(a) <= 1, "workflow node "+n+" executes exactly when triggered, at most once")
		for i := range a {
			vassert(a[i] == b[i], "workflow node "+n+" receives exactly the mapped outputs of the data predecessors that ran (zero value when none)")
		}
	}
}

// control-only, data-only and combined dependencies around a branch
func VerifC02Workflow() {
	w := &c02WF{nodes: []string{"a", "b", "c", "d"}, deps: map[string][]c02Dep{
		"a": {{START, "s", 0}},
		"b": {{"a", "a", 1}},                // branch target, data from a without direct dependency
		"c": {{"a", "a", 1}},                // branch target
		"d": {{"b", "b", 0}, {"c", "c", 0}}, // joins both branch targets
		END: {{"d", "d", 0}},
	}, branches: []vBranch{{"a", []string{"b", "c"}}}}
	switch vchoose("variant", 5) {
	case 4: // data-only dependency on a node that the branch may skip, while another control predecessor triggers the node
		w = &c02WF{nodes: []string{"a", "d", "e", "m", "n"}, deps: map[string][]c02Dep{
			"a": {{START, "s", 0}},
			"d": {{"a", "a", 1}},
			"e": {{"a", "a", 1}},
			"m": {{"d", "d", 0}},
			"n": {{"m", "m", 0}, {"e", "e", 0}, {"d", "dd", 1}},
			END: {{"n", "n", 0}},
		}, branches: []vBranch{{"a", []string{"d", "e"}}}}
	case 1: // control-only dependency of d on a
		w.deps["d"] = append(w.deps["d"], c02Dep{"a", "", 2})
	case 2: // data-only dependency of END on a, END also a branch target
		w.deps[END] = append(w.deps[END], c02Dep{"a", "a", 1})
		w.branches[0].targets = []string{"b", "c", END}
	case 3: // d depends only by control on b and c: receives the zero value
		w.deps["d"] = []c02Dep{{"b", "", 2}, {"c", "", 2}}
	}
	c02CheckWF(w)
}

// generic acyclic family (thorough): 3 nodes ordered a<b<c, every subset of the 9 forward edges, optional branches
func VerifC02Generic() {
	g := &vG{nodes: []string{"a", "b", "c"}}
	cands := [][2]string{{START, "a"}, {START, "b"}, {START, "c"}, {"a", "b"}, {"a", "c"}, {"a", END}, {"b", "c"}, {"b", END}, {"c", END}}
	for _, e := range cands {
		if vchoose("edge", 2) == 1 {
			g.edges = append(g.edges, e)
		}
	}
	switch vchoose("branch", 3) {
	case 1:
		g.branches = []vBranch{{"a", []string{"b", "c"}}}
	case 2:
		g.branches = []vBranch{{START, []string{"a", "b"}}, {"a", []string{"c", END}}}
	}
	// outside the claim: a node that is both a plain-edge successor and a branch target of the same source
	// (the statement does not say which of the two relations wins)
	for _, b := range g.branches {
		for _, t := range b.targets {
			for _, e := range g.edges {
				vassume(!(e[0] == b.from && e[1] == t))
			}
		}
	}
	vassume(len(g.edges) >= 2 && len(g.edges) <= 8)
	// outside the claim: nodes without any incoming connection (eino treats them as always ready)
	for _, n := range g.nodes {
		in, out := false, false
		for _, e := range g.edges {
			in = in || e[1] == n
			out = out || e[0] == n
		}
		for _, b := range g.branches {
			out = out || b.from == n
			for _, t := range b.targets {
				in = in || t == n
			}
		}
		vassume(in && out)
	}
	c02CheckOpt(g, false, false)
}

// generic acyclic family, four nodes (thorough): a<b<c<d, every subset of the 14 forward edges, optional branches
func VerifC02Generic4() {
	nodes := []string{"a", "b", "c", "d"}
	g := &vG{nodes: nodes}
	var cands [][2]string
	for _, n := range nodes {
		cands = append(cands, [2]string{START, n})
	}
	for i, n := range nodes {
		for _, m := range nodes[i+1:] {
			cands = append(cands, [2]string{n, m})
		}
		cands = append(cands, [2]string{n, END})
	}
	for _, e := range cands {
		if vchoose("edge", 2) == 1 {
			g.edges = append(g.edges, e)
		}
	}
	switch vchoose("branch", 3) {
	case 1:
		g.branches = []vBranch{{"a", []string{"b", "c"}}}
	case 2:
		g.branches = []vBranch{{START, []string{"a", "b"}}, {"b", []string{"d", END}}}
	}
	// outside the claim, as in the three-node family: a plain edge next to a branch arm between the same two nodes, and
	// nodes without an incoming connection
	for _, b := range g.branches {
		for _, t := range b.targets {
			for _, e := range g.edges {
				vassume(!(e[0] == b.from && e[1] == t))
			}
		}
	}
	vassume(len(g.edges) >= 3)
	for _, n := range g.nodes {
		in, out := false, false
		for _, e := range g.edges {
			in = in || e[1] == n
			out = out || e[0] == n
		}
		for _, b := range g.branches {
			out = out || b.from == n
			for _, t := range b.targets {
				in = in || t == n
			}
		}
		vassume(in && out)
	}
	c02CheckOpt(g, false, false)
}

func VerifC02MultiChoice() { c01MultiChoice(true) }

type c02In struct{ X int }
type c02Out struct{ V int }

// a struct-typed workflow node whose only data predecessor is skipped by a branch while a control-only predecessor
// fires: it runs once on the zero value of its input type (Invoke and Stream)
func VerifC02ZeroStruct() {
	ctx := context.Background()
	vcfg("fifo", 1)
	vcfg("selectfirst", 1)
	pickB := vchoose("pick", 2) == 0
	x := vsymInt("x")
	runs := 0
	var got c02In
	wf := NewWorkflow[int, int]()
	wf.AddLambdaNode("a", InvokableLambda(func(ctx context.Context, in int) (int, error) { return in, nil })).AddInput(START)
	wf.AddLambdaNode("b", InvokableLambda(func(ctx context.Context, in int) (c02Out, error) { return c02Out{V: in + 1}, nil })).AddInput("a")
	wf.AddLambdaNode("c", InvokableLambda(func(ctx context.Context, in int) (int, error) { return in, nil })).AddInput("a")
	wf.AddBranch("a", NewGraphBranch(func(ctx context.Context, in int) (string, error) {
		if pickB {
			return "b", nil
		}
		return "c", nil
	}, map[string]bool{"b": true, "c": true}))
	wf.AddLambdaNode("n", InvokableLambda(func(ctx context.Context, in c02In) (int, error) {
		runs++
		got = in
		return in.X, nil
	})).AddInput("b", MapFields("V", "X")).AddDependency("c")
	wf.End().AddInput("n")
	r, err := wf.Compile(ctx)
	vassert(err == nil, "workflow compiles")
	var out int
	var rerr error
	if vchoose("stream", 2) == 1 {
		sr, e := r.Stream(ctx, x)
		rerr = e
		if e == nil {
			out, rerr = sr.Recv()
			sr.Close()
		}
	} else {
		out, rerr = r.Invoke(ctx, x)
	}
	vassert(rerr == nil, "the run succeeds whichever target the branch picks")
	vassert(runs == 1, "n runs exactly once: one of its control predecessors routed to it, the other was skipped")
	if pickB {
		vassert(got.X == x+1 && out == x+1, "n receives the mapped output of the data predecessor that ran")
	} else {
		vassert(got.X == 0 && out == 0, "n receives the zero value of its input type when its only data predecessor was skipped")
	}
}

// A node nothing leads to (no control and no data predecessor) in all-predecessor mode or in a Workflow: either
// Compile refuses the graph, or the node never runs; it must not run on every scheduling step.
func VerifC02Orphan() {
	ctx := context.Background()
	vcfg("fifo", 1)
	vcfg("selectfirst", 1)
	counts := map[string]int{}
	body := func(key string) *Lambda {
		return InvokableLambda(func(ctx context.Context, in map[string]any) (map[string]any, error) {
			vMu.Lock()
			counts[key]++
			vMu.Unlock()
			return map[string]any{key: 1}, nil
		})
	}
	withOut := vchoose("orphanFeedsEnd", 2) == 1
	var r Runnable[map[string]any, map[string]any]
	var err, err2 error
	if vchoose("workflow", 2) == 1 {
		wf := NewWorkflow[map[string]any, map[string]any]()
		wf.AddLambdaNode("a", body("a")).AddInput(START)
		wf.AddLambdaNode("b", body("b")).AddInput("a")
		wf.AddLambdaNode("x", body("x"))
		e := wf.End().AddInput("b", ToField("b"))
		if withOut {
			e.AddInput("x", ToField("x"))
		}
		r, err = wf.Compile(ctx)
		_, err2 = wf.Compile(ctx)
	} else {
		g := NewGraph[map[string]any, map[string]any]()
		_ = g.AddLambdaNode("a", body("a"))
		_ = g.AddLambdaNode("b", body("b"))
		_ = g.AddLambdaNode("x", body("x"))
		_ = g.AddEdge(START, "a")
		_ = g.AddEdge("a", "b")
		_ = g.AddEdge("b", END)
		if withOut {
			_ = g.AddEdge("x", END)
		}
		r, err = g.Compile(ctx, WithNodeTriggerMode(AllPredecessor))
		_, err2 = g.Compile(ctx, WithNodeTriggerMode(AllPredecessor))
	}
	if err != nil {
		vassert(err2 != nil, "a graph rejected because of a node nothing leads to is rejected on every attempt")
		return
	}
	_, _ = r.Invoke(ctx, map[string]any{"in": 1})
	vassert(counts["x"] <= 1, "a node nothing leads to executes at most once per run (if the graph is accepted at all)")
	vassert(counts["a"] <= 1 && counts["b"] <= 1, "every node executes at most once per run")
}

// A pass-through typed forward from a node whose input and output types differ (string -> int), or backward from its
// consumer, triggered by a control-only dependency while its only data predecessor is skipped: it hands the zero value
// (Invoke) / an empty stream (Stream) of the type it carries on to its successor, which runs once.
func VerifC02PassthroughZero() {
	ctx := context.Background()
	vcfg("fifo", 1)
	vcfg("selectfirst", 1)
	vcfgMapOrderIn("compose.Workflow[")
	skip := vchoose("skip", 2) == 1
	x := vsymInt("x")
	runs := 0
	got := -1
	wf := NewWorkflow[int, map[string]any]()
	wf.AddLambdaNode("src", InvokableLambda(func(ctx context.Context, in string) (int, error) { return len(in) + x, nil })).
		AddInputWithOptions("pre", nil, WithNoDirectDependency())
	wf.AddLambdaNode("pre", InvokableLambda(func(ctx context.Context, in int) (string, error) { return "ab", nil })).AddInput(START)
	wf.AddLambdaNode("other", InvokableLambda(func(ctx context.Context, in string) (string, error) { return in, nil })).
		AddInputWithOptions("pre", nil, WithNoDirectDependency())
	wf.AddBranch("pre", NewGraphMultiBranch(func(ctx context.Context, in string) (map[string]bool, error) {
		if skip {
			return map[string]bool{"other": true}, nil
		}
		return map[string]bool{"src": true, "other": true}, nil
	}, map[string]bool{"src": true, "other": true}))
	wf.AddPassthroughNode("p").AddInput("src").AddDependency("other")
	// (input and output types of the successor differ as well: the pass-through may take its type from either side)
	wf.AddLambdaNode("use", InvokableLambda(func(ctx context.Context, n int) (map[string]any, error) {
		runs++
		got = n
		return map[string]any{"n": n}, nil
	})).AddInput("p")
	// a node with differing input and output types that is triggered by a dependency only (no data at all)
	depRuns, depGot := 0, -1
	wf.AddLambdaNode("dep", InvokableLambda(func(ctx context.Context, n int) (string, error) {
		depRuns++
		depGot = n
		return "d", nil
	})).AddDependency("other")
	wf.End().AddInput("use", ToField("use")).AddInput("dep", ToField("dep"))
	r, err := wf.Compile(ctx)
	vassert(err == nil, "workflow compiles")
	var res map[string]any
	var rerr error
	if vchoose("stream", 2) == 1 {
		sr, e := r.Stream(ctx, 1)
		rerr = e
		if e == nil {
			res, rerr = vDrainMap(sr)
		}
	} else {
		res, rerr = r.Invoke(ctx, 1)
	}
	um, _ := res["use"].(map[string]any)
	out, _ := um["n"].(int)
	vassert(rerr != nil || (depRuns == 1 && depGot == 0 && res["dep"] == "d"), "a node triggered by a dependency only runs once on the zero value of its input type")
	vassert(rerr == nil, "the run succeeds whether or not the pass-through's data predecessor is skipped")
	vassert(runs == 1, "the successor of the pass-through runs exactly once")
	if skip {
		vassert(got == 0 && out == 0, "a pass-through without data hands on the zero value of the type it carries")
	} else {
		vassert(got == 2+x && out == 2+x, "a pass-through hands on the value of its data predecessor")
	}
}
