package compose

import (
	"context"
	"errors"
	"io"

	"github.com/cloudwego/eino/callbacks"
	"github.com/cloudwego/eino/schema"
)

// C19: a finished streaming run leaves no blocked producer or goroutine behind.

type c19Prod struct {
	key      string
	k        int
	finished bool
	told     bool
}

// a stream-native node whose output is written by its own goroutine into a pipe of capacity 0/1
func (p *c19Prod) lambda(capacity int) *Lambda {
	return StreamableLambda(func(ctx context.Context, in map[string]any) (*schema.StreamReader[map[string]any], error) {
		sr, sw := schema.Pipe[map[string]any](capacity)
		go func() {
			defer sw.Close()
			for i := 0; i < p.k; i++ {
				if sw.Send(map[string]any{p.key: i + 1}, nil) {
					p.told = true
					return
				}
			}
			p.finished = true
		}()
		return sr, nil
	})
}

// consumes its input stream fully and forwards it chunk by chunk under a new key
func c19Forward(key string) *Lambda {
	return TransformableLambda(func(ctx context.Context, in *schema.StreamReader[map[string]any]) (*schema.StreamReader[map[string]any], error) {
		return schema.StreamReaderWithConvert(in, func(m map[string]any) (map[string]any, error) {
			return map[string]any{key: len(m)}, nil
		}), nil
	})
}

func c19Read(sr *schema.StreamReader[map[string]any], n int) {
	for i := 0; i < n; i++ {
		_, err := sr.Recv()
		if err != nil {
			break
		}
	}
	sr.Close()
}

func c19ReadAll(sr *schema.StreamReader[map[string]any]) {
	for i := 0; i < 64; i++ {
		_, err := sr.Recv()
		if err == io.EOF || err != nil {
			break
		}
	}
	sr.Close()
}

func c19Finish(prods []*c19Prod, what string) {
	vquiesce() // every goroutine started by the run must terminate (a blocked one is reported as a leak)
	for _, p := range prods {
		vassert(p.finished || p.told, what+": producer "+p.key+" either finished or was told that its stream was closed")
	}
}

// diamond in DAG mode: a -> b, a -> END, b -> END (fan-out copy merged with a converted stream)
func c19Diamond(preempt int) {
	ctx := context.Background()
	vcfg("preempt", preempt)
	vcfg("selectfirst", 1)
	K := 2
	pa := &c19Prod{key: "a", k: K}
	g := NewGraph[map[string]any, map[string]any]()
	_ = g.AddLambdaNode("a", pa.lambda(vchoose("cap", 2)))
	_ = g.AddLambdaNode("b", c19Forward("b"))
	_ = g.AddEdge(START, "a")
	_ = g.AddEdge("a", "b")
	_ = g.AddEdge("a", END)
	_ = g.AddEdge("b", END)
	r, err := g.Compile(ctx, WithNodeTriggerMode(AllPredecessor))
	vassert(err == nil, "diamond compiles")
	sr, err := r.Stream(ctx, map[string]any{"in": 1})
	vassert(err == nil, "stream run starts")
	readN := vchoose("readN", 2*K+2)
	if readN == 2*K+1 {
		c19ReadAll(sr)
	} else {
		c19Read(sr, readN)
	}
	c19Finish([]*c19Prod{pa}, "diamond")
}

func VerifC19Diamond() { c19Diamond(vtier()) }

// chain in Pregel and DAG mode, with a callback handler that closes its copy early
func VerifC19Chain() {
	ctx := context.Background()
	vcfg("preempt", vtier())
	vcfg("selectfirst", 1)
	K := 2
	pa := &c19Prod{key: "a", k: K}
	g := NewGraph[map[string]any, map[string]any]()
	_ = g.AddLambdaNode("a", pa.lambda(vchoose("cap", 2)))
	_ = g.AddLambdaNode("b", c19Forward("b"))
	_ = g.AddEdge(START, "a")
	_ = g.AddEdge("a", "b")
	_ = g.AddEdge("b", END)
	var opts []GraphCompileOption
	if vchoose("dag", 2) == 1 {
		opts = append(opts, WithNodeTriggerMode(AllPredecessor))
	}
	r, err := g.Compile(ctx, opts...)
	vassert(err == nil, "chain compiles")
	var copts []Option
	var evs []c10Ev
	switch vchoose("handler", 3) {
	case 1:
		copts = append(copts, WithCallbacks(&c10Rec{id: "h", evs: &evs, closeOut: true}))
	case 2:
		copts = append(copts, WithCallbacks(&c10Rec{id: "h", evs: &evs, closeOut: false}))
	}
	sr, err := r.Stream(ctx, map[string]any{"in": 1}, copts...)
	vassert(err == nil, "stream run starts")
	readN := vchoose("readN", K+2)
	if readN == K+1 {
		c19ReadAll(sr)
	} else {
		c19Read(sr, readN)
	}
	c19Finish([]*c19Prod{pa}, "chain")
}

// two producers merged at END through output keys; a branch that reads only a prefix of its input
func VerifC19FanInBranch() {
	ctx := context.Background()
	vcfg("preempt", vtier())
	vcfg("selectfirst", 1)
	K := 2
	pa, pb := &c19Prod{key: "a", k: K}, &c19Prod{key: "b", k: K}
	pick := vrange("pick", 0, 1)
	g := NewGraph[map[string]any, map[string]any]()
	_ = g.AddLambdaNode("a", pa.lambda(1))
	_ = g.AddLambdaNode("b", pb.lambda(1))
	_ = g.AddLambdaNode("c", c19Forward("c"))
	_ = g.AddLambdaNode("d", c19Forward("d"))
	_ = g.AddEdge(START, "a")
	_ = g.AddEdge(START, "b")
	_ = g.AddBranch("a", NewStreamGraphBranch(func(ctx context.Context, in *schema.StreamReader[map[string]any]) (string, error) {
		defer in.Close()
		_, _ = in.Recv() // decides on a prefix
		return []string{"c", "d"}[pick], nil
	}, map[string]bool{"c": true, "d": true}))
	_ = g.AddEdge("b", END)
	_ = g.AddEdge("c", END)
	_ = g.AddEdge("d", END)
	r, err := g.Compile(ctx, WithNodeTriggerMode(AllPredecessor))
	vassert(err == nil, "fan-in with branch compiles")
	sr, err := r.Stream(ctx, map[string]any{"in": 1})
	vassert(err == nil, "stream run starts")
	readN := vchoose("readN", 3)
	if readN == 2 {
		c19ReadAll(sr)
	} else {
		c19Read(sr, readN)
	}
	c19Finish([]*c19Prod{pa, pb}, "fan-in with prefix-reading branch")
}

// Workflow: a branch selects a node that takes no data; END takes the branching node's stream without direct dependency
func VerifC19WorkflowBranch() {
	ctx := context.Background()
	vcfg("preempt", vtier())
	vcfg("selectfirst", 1)
	K := 3
	pa := &c19Prod{key: "a", k: K}
	wf := NewWorkflow[map[string]any, map[string]any]()
	wf.AddLambdaNode("a", pa.lambda(vchoose("cap", 2))).AddInput(START)
	wf.AddLambdaNode("t", InvokableLambda(func(ctx context.Context, in map[string]any) (map[string]any, error) {
		return map[string]any{"t": 1}, nil
	}))
	if vchoose("streamCond", 2) == 1 {
		wf.AddBranch("a", NewStreamGraphBranch(func(ctx context.Context, in *schema.StreamReader[map[string]any]) (string, error) {
			defer in.Close()
			_, _ = in.Recv() // decides on a prefix of the stream
			return "t", nil
		}, map[string]bool{"t": true, END: true}))
	} else {
		wf.AddBranch("a", NewGraphBranch(func(ctx context.Context, in map[string]any) (string, error) { return "t", nil }, map[string]bool{"t": true, END: true}))
	}
	e := wf.End()
	e.AddInputWithOptions("a", []*FieldMapping{ToField("a")}, WithNoDirectDependency())
	e.AddInput("t", ToField("t"))
	r, err := wf.Compile(ctx)
	vassert(err == nil, "workflow with data-less branch target compiles")
	sr, err := r.Stream(ctx, map[string]any{"in": 1})
	vassert(err == nil, "stream run starts")
	readN := vchoose("readN", 3)
	if readN == 2 {
		c19ReadAll(sr)
	} else {
		c19Read(sr, readN)
	}
	c19Finish([]*c19Prod{pa}, "workflow branch target without data input")
}

var _ = callbacks.InitCallbackHandlers

// a consumer of a fan-in merge that closes its input after one source has ended but before the other has
func VerifC19MergeCloseAfterEnd() {
	ctx := context.Background()
	vcfg("preempt", vtier())
	K := 3
	pa, pb := &c19Prod{key: "a", k: 1}, &c19Prod{key: "b", k: K}
	g := NewGraph[map[string]any, map[string]any]()
	_ = g.AddLambdaNode("a", pa.lambda(1))
	_ = g.AddLambdaNode("b", pb.lambda(0))
	_ = g.AddLambdaNode("c", TransformableLambda(func(ctx context.Context, in *schema.StreamReader[map[string]any]) (*schema.StreamReader[map[string]any], error) {
		seenA, seenB := false, 0
		for i := 0; i < 8 && !(seenA && seenB >= 1); i++ {
			m, err := in.Recv()
			if err != nil {
				break
			}
			if _, ok := m["a"]; ok {
				seenA = true
			}
			if _, ok := m["b"]; ok {
				seenB++
			}
		}
		in.Close() // stops reading while b may still be producing
		return schema.StreamReaderFromArray([]map[string]any{{"c": 1}}), nil
	}))
	_ = g.AddEdge(START, "a")
	_ = g.AddEdge(START, "b")
	_ = g.AddEdge("a", "c")
	_ = g.AddEdge("b", "c")
	_ = g.AddEdge("c", END)
	r, err := g.Compile(ctx, WithNodeTriggerMode(AllPredecessor))
	vassert(err == nil, "fan-in graph compiles")
	sr, err := r.Stream(ctx, map[string]any{"in": 1})
	vassert(err == nil, "stream run starts")
	c19ReadAll(sr)
	c19Finish([]*c19Prod{pa, pb}, "fan-in consumer closing early")
}

// a streaming node with two stream branches, each reading one chunk; the caller stops early
func VerifC19TwoBranches() {
	ctx := context.Background()
	if vtier() == 0 {
		vcfg("preempt", 0)
	} else {
		vcfg("delaybound", 1) // one pre-emption does not finish within the budget for this shape (> 900 k paths)
	}
	vcfg("selectfirst", 1)
	pa := &c19Prod{key: "a", k: 4}
	g := NewGraph[map[string]any, map[string]any]()
	_ = g.AddLambdaNode("a", pa.lambda(0))
	_ = g.AddLambdaNode("x1", c19Forward("x1"))
	_ = g.AddLambdaNode("x2", c19Forward("x2"))
	_ = g.AddEdge(START, "a")
	mkBranch := func(target string) *GraphBranch {
		return NewStreamGraphBranch(func(ctx context.Context, in *schema.StreamReader[map[string]any]) (string, error) {
			_, _ = in.Recv()
			in.Close()
			return target, nil
		}, map[string]bool{"x1": true, "x2": true})
	}
	second := []string{"x2", "x1"}[vchoose("sameTarget", 2)] // both branches may select the same successor
	_ = g.AddBranch("a", mkBranch("x1"))
	_ = g.AddBranch("a", mkBranch(second))
	_ = g.AddEdge("x1", END)
	_ = g.AddEdge("x2", END)
	r, err := g.Compile(ctx, WithNodeTriggerMode(AllPredecessor))
	vassert(err == nil, "graph with two stream branches on one node compiles")
	sr, err := r.Stream(ctx, map[string]any{"in": 1})
	vassert(err == nil, "stream run starts")
	readN := vchoose("readN", 4)
	if readN == 3 {
		c19ReadAll(sr)
	} else {
		c19Read(sr, readN)
	}
	c19Finish([]*c19Prod{pa}, "node with two stream branches")
}

var c19ErrChunk = errors.New("c19 error chunk")

// a producer that emits an error chunk at position errAt and keeps producing afterwards
func (p *c19Prod) lambdaWithErr(capacity int, errAt int) *Lambda {
	return StreamableLambda(func(ctx context.Context, in map[string]any) (*schema.StreamReader[map[string]any], error) {
		sr, sw := schema.Pipe[map[string]any](capacity)
		go func() {
			defer sw.Close()
			for i := 0; i < p.k; i++ {
				var closed bool
				if i == errAt {
					closed = sw.Send(nil, c19ErrChunk)
				} else {
					closed = sw.Send(map[string]any{p.key: i + 1}, nil)
				}
				if closed {
					p.told = true
					return
				}
			}
			p.finished = true
		}()
		return sr, nil
	})
}

// a consumer that tolerates a bad chunk: it stops reading at the first error, closes its input and answers with what
// it has seen so far
func c19Tolerant(key string) *Lambda {
	return TransformableLambda(func(ctx context.Context, in *schema.StreamReader[map[string]any]) (*schema.StreamReader[map[string]any], error) {
		n := 0
		for i := 0; i < 16; i++ {
			_, err := in.Recv()
			if err != nil {
				break
			}
			n++
		}
		in.Close()
		return schema.StreamReaderFromArray([]map[string]any{{key: n}}), nil
	})
}

// fan-out of a stream that carries an error chunk in the middle to two tolerant consumers (DAG and Pregel): the run
// completes, the output is read to the end; the producer is released although nobody reads past the error
func VerifC19ErrorChunk() {
	ctx := context.Background()
	vcfg("preempt", vtier())
	vcfg("selectfirst", 1)
	K := 3
	pa := &c19Prod{key: "a", k: K}
	g := NewGraph[map[string]any, map[string]any]()
	_ = g.AddLambdaNode("src", pa.lambdaWithErr(vchoose("cap", 2), vchoose("errAt", K)))
	_ = g.AddLambdaNode("left", c19Tolerant("left"))
	_ = g.AddLambdaNode("right", c19Tolerant("right"))
	_ = g.AddEdge(START, "src")
	_ = g.AddEdge("src", "left")
	_ = g.AddEdge("src", "right")
	_ = g.AddEdge("left", END)
	_ = g.AddEdge("right", END)
	var opts []GraphCompileOption
	if vchoose("dag", 2) == 1 {
		opts = append(opts, WithNodeTriggerMode(AllPredecessor))
	}
	r, err := g.Compile(ctx, opts...)
	vassert(err == nil, "graph compiles")
	sr, err := r.Stream(ctx, map[string]any{"in": 1})
	vassert(err == nil, "stream run starts")
	c19ReadAll(sr)
	c19Finish([]*c19Prod{pa}, "fan-out of a stream with an error chunk")
}

// two lanes merged at END under output keys; one lane converts its producer's stream item-wise and the conversion
// panics on one item while the producer still has data: the caller sees an error item, reads on / closes, and the
// producer of the panicking lane is released all the same
func VerifC19ConvertPanic() {
	ctx := context.Background()
	if vtier() == 0 {
		vcfg("fifo", 1) // six goroutines: the deterministic schedule in the quick tier, one deviation from it in the thorough tier
	} else {
		vcfg("delaybound", 1)
	}
	vcfg("selectfirst", 1)
	K := 3
	pa, pb := &c19Prod{key: "a", k: K}, &c19Prod{key: "b", k: 2}
	at := 1 + vchoose("at", 2)
	g := NewGraph[map[string]any, map[string]any]()
	_ = g.AddLambdaNode("src", pa.lambda(vchoose("cap", 2)))
	_ = g.AddLambdaNode("title", TransformableLambda(func(ctx context.Context, in *schema.StreamReader[map[string]any]) (*schema.StreamReader[map[string]any], error) {
		return schema.StreamReaderWithConvert(in, func(m map[string]any) (map[string]any, error) {
			if m["a"] == at {
				panic("c19 convert panic")
			}
			return map[string]any{"n": m["a"]}, nil
		}), nil
	}), WithOutputKey("title"))
	_ = g.AddLambdaNode("warm", pb.lambda(1))
	_ = g.AddLambdaNode("note", c19Forward("note"), WithOutputKey("note"))
	_ = g.AddEdge(START, "src")
	_ = g.AddEdge("src", "title")
	_ = g.AddEdge(START, "warm")
	_ = g.AddEdge("warm", "note")
	_ = g.AddEdge("title", END)
	_ = g.AddEdge("note", END)
	var opts []GraphCompileOption
	if vchoose("dag", 2) == 1 {
		opts = append(opts, WithNodeTriggerMode(AllPredecessor))
	}
	r, err := g.Compile(ctx, opts...)
	vassert(err == nil, "graph compiles")
	sr, err := r.Stream(ctx, map[string]any{"in": 1})
	vassert(err == nil, "stream run starts")
	sawErr := false
	for i := 0; i < 16; i++ {
		_, e := sr.Recv()
		if e == io.EOF {
			break
		}
		if e != nil {
			sawErr = true
			if vchoose("stopAtErr", 2) == 1 {
				break
			}
		}
	}
	sr.Close()
	vassert(sawErr, "the panic of the conversion surfaces as an error item")
	c19Finish([]*c19Prod{pa, pb}, "fan-in with a panicking conversion")
}

type c19MarkKey struct{}

// a handler that marks the context when it hears a stream end, and a handler whose TimingChecker consults that mark
type c19Sampler struct{ c10Rec }

func (h *c19Sampler) OnEndWithStreamOutput(ctx context.Context, info *callbacks.RunInfo, output *schema.StreamReader[callbacks.CallbackOutput]) context.Context {
	h.c10Rec.OnEndWithStreamOutput(ctx, info, output)
	return context.WithValue(ctx, c19MarkKey{}, true)
}

type c19Tracer struct{ c10Rec }

func (h *c19Tracer) Needed(ctx context.Context, info *callbacks.RunInfo, timing callbacks.CallbackTiming) bool {
	marked, _ := ctx.Value(c19MarkKey{}).(bool)
	return !marked
}

// every copy of a stream made for the callback handlers is handed to its handler or closed, also when a handler's
// TimingChecker would answer differently once an earlier handler has changed the context
func VerifC19TimingChecker() {
	ctx := context.Background()
	vcfg("preempt", 0)
	vcfg("selectfirst", 1)
	K := 3
	pa := &c19Prod{key: "a", k: K}
	g := NewGraph[map[string]any, map[string]any]()
	_ = g.AddLambdaNode("a", pa.lambda(vchoose("cap", 2)))
	_ = g.AddEdge(START, "a")
	_ = g.AddEdge("a", END)
	r, err := g.Compile(ctx)
	vassert(err == nil, "graph compiles")
	var evs []c10Ev
	sampler := &c19Sampler{c10Rec{id: "sampler", evs: &evs, closeOut: true}}
	tracer := &c19Tracer{c10Rec{id: "tracer", evs: &evs, closeOut: true}}
	var opts []Option
	if vchoose("order", 2) == 0 {
		opts = []Option{WithCallbacks(sampler), WithCallbacks(tracer)}
	} else {
		opts = []Option{WithCallbacks(tracer), WithCallbacks(sampler)}
	}
	sr, err := r.Stream(ctx, map[string]any{"in": 1}, opts...)
	vassert(err == nil, "stream run starts")
	readN := vchoose("readN", K+2)
	if readN == K+1 {
		c19ReadAll(sr)
	} else {
		c19Read(sr, readN)
	}
	c19Finish([]*c19Prod{pa}, "callback copies with a context-dependent timing checker")
}

// an error chunk reaches a place where the framework turns a stream into a value (an invoke-only consumer, or
// Collect on the graph) while the producer still has data: the run reports the error and the producer is released
func VerifC19ErrorChunkToValue() {
	ctx := context.Background()
	vcfg("preempt", 0)
	vcfg("selectfirst", 1)
	K := 3
	pa := &c19Prod{key: "a", k: K}
	g := NewGraph[map[string]any, map[string]any]()
	_ = g.AddLambdaNode("src", pa.lambdaWithErr(vchoose("cap", 2), vchoose("errAt", 2)))
	consumer := vchoose("consumer", 2) == 1
	if consumer {
		_ = g.AddLambdaNode("c", InvokableLambda(func(ctx context.Context, in map[string]any) (map[string]any, error) { return in, nil }))
		_ = g.AddEdge("src", "c")
		_ = g.AddEdge("c", END)
	} else {
		_ = g.AddEdge("src", END)
	}
	_ = g.AddEdge(START, "src")
	r, err := g.Compile(ctx)
	vassert(err == nil, "graph compiles")
	var rerr error
	if consumer && vchoose("stream", 2) == 1 {
		sr, e := r.Stream(ctx, map[string]any{"in": 1})
		rerr = e
		if e == nil {
			for i := 0; i < 8; i++ {
				if _, e := sr.Recv(); e != nil {
					if e != io.EOF {
						rerr = e
					}
					break
				}
			}
			sr.Close()
		}
	} else {
		_, rerr = r.Collect(ctx, schema.StreamReaderFromArray([]map[string]any{{"in": 1}}))
	}
	vassert(rerr != nil && errors.Is(rerr, c19ErrChunk), "the error chunk is reported")
	c19Finish([]*c19Prod{pa}, "error chunk at a stream-to-value conversion")
}

// Workflow: a streaming node a, a branch of a that picks one of b and c, both of which read a's output through a
// data-only input. The node the branch does not pick is skipped but had a copy of a's output made for it: that copy is
// closed as well, so a's producer is released when the caller stops reading (at any point).
func VerifC19SkippedDataSuccessor() {
	ctx := context.Background()
	vcfg("preempt", vtier())
	vcfg("selectfirst", 1)
	K := 3
	pa := &c19Prod{key: "a", k: K}
	wf := NewWorkflow[map[string]any, map[string]any]()
	wf.AddLambdaNode("a", pa.lambda(vchoose("cap", 2))).AddInput(START)
	pass := func(key string) *Lambda {
		return TransformableLambda(func(ctx context.Context, in *schema.StreamReader[map[string]any]) (*schema.StreamReader[map[string]any], error) {
			return in, nil
		})
	}
	wf.AddLambdaNode("b", pass("b")).AddInputWithOptions("a", nil, WithNoDirectDependency())
	wf.AddLambdaNode("c", pass("c")).AddInputWithOptions("a", nil, WithNoDirectDependency())
	pick := []string{"b", "c"}[vchoose("pick", 2)]
	wf.AddBranch("a", NewStreamGraphBranch(func(ctx context.Context, in *schema.StreamReader[map[string]any]) (string, error) {
		in.Close()
		return pick, nil
	}, map[string]bool{"b": true, "c": true}))
	e := wf.End()
	e.AddInput("b", ToField("b"))
	e.AddInput("c", ToField("c"))
	r, err := wf.Compile(ctx)
	vassert(err == nil, "workflow compiles")
	sr, err := r.Stream(ctx, map[string]any{"in": 1})
	vassert(err == nil, "stream run starts")
	readN := vchoose("readN", 3)
	if readN == 2 {
		c19ReadAll(sr)
	} else {
		c19Read(sr, readN)
	}
	c19Finish([]*c19Prod{pa}, "a branch target that is skipped although it reads the branching node's stream")
}

// A streaming node with a plain edge to b and a multi-choice branch over c and d that selects nothing, one or both:
// the copies of a's stream prepared for branch targets that are not selected are closed, so a's producer is released
// when the caller stops reading (at any point), in both trigger modes.
func VerifC19BranchSelectsNothing() {
	ctx := context.Background()
	vcfg("preempt", 0) // both tiers: the family is about which copies get closed, not about schedules
	vcfg("selectfirst", 1)
	K := 2
	pa := &c19Prod{key: "a", k: K}
	pass := func() *Lambda {
		return TransformableLambda(func(ctx context.Context, in *schema.StreamReader[map[string]any]) (*schema.StreamReader[map[string]any], error) {
			return in, nil
		})
	}
	g := NewGraph[map[string]any, map[string]any]()
	_ = g.AddLambdaNode("a", pa.lambda(vchoose("cap", 2)))
	_ = g.AddLambdaNode("b", pass(), WithOutputKey("b"))
	_ = g.AddLambdaNode("c", pass(), WithOutputKey("c"))
	_ = g.AddLambdaNode("d", pass(), WithOutputKey("d"))
	_ = g.AddEdge(START, "a")
	_ = g.AddEdge("a", "b")
	sel := vchoose("select", 2) // nothing, or c (both targets selected multiplies the merge schedules beyond the quick budget)
	_ = g.AddBranch("a", NewStreamGraphMultiBranch(func(ctx context.Context, in *schema.StreamReader[map[string]any]) (map[string]bool, error) {
		in.Close()
		switch sel {
		case 1:
			return map[string]bool{"c": true}, nil
		case 2:
			return map[string]bool{"c": true, "d": true}, nil
		}
		return map[string]bool{}, nil
	}, map[string]bool{"c": true, "d": true}))
	_ = g.AddEdge("b", END)
	_ = g.AddEdge("c", END)
	_ = g.AddEdge("d", END)
	var opts []GraphCompileOption
	if vchoose("dag", 2) == 1 {
		opts = append(opts, WithNodeTriggerMode(AllPredecessor))
	}
	r, err := g.Compile(ctx, opts...)
	vassert(err == nil, "graph compiles")
	sr, err := r.Stream(ctx, map[string]any{"in": 1})
	vassert(err == nil, "stream run starts")
	readN := vchoose("readN", 3)
	if readN == 2 {
		c19ReadAll(sr)
	} else {
		c19Read(sr, readN)
	}
	c19Finish([]*c19Prod{pa}, "a multi-choice branch that selects fewer targets than it has, next to a plain edge")
}

// Workflow: a streaming node b finishes a step before the branch of a decides; x takes b's stream through a data-only
// input and is a target of a's branch, which picks y instead. The stream buffered for x is closed when x becomes
// skipped: b's producer is released when the caller reads to the end or stops early.
func VerifC19BufferedThenSkipped() {
	ctx := context.Background()
	vcfg("preempt", 0) // both tiers: the family is about which copies get closed, not about schedules
	vcfg("selectfirst", 1)
	K := 2
	pb := &c19Prod{key: "b", k: K}
	pass := func() *Lambda {
		return TransformableLambda(func(ctx context.Context, in *schema.StreamReader[map[string]any]) (*schema.StreamReader[map[string]any], error) {
			return in, nil
		})
	}
	one := func(key string) *Lambda {
		return InvokableLambda(func(ctx context.Context, in map[string]any) (map[string]any, error) {
			return map[string]any{key: 1}, nil
		})
	}
	wf := NewWorkflow[map[string]any, map[string]any]()
	wf.AddLambdaNode("b", pb.lambda(vchoose("cap", 2))).AddInput(START)
	wf.AddLambdaNode("a1", one("a1")).AddInput(START)
	wf.AddLambdaNode("a", one("a")).AddInput("a1")
	wf.AddLambdaNode("x", pass()).AddInputWithOptions("b", nil, WithNoDirectDependency())
	wf.AddLambdaNode("y", one("y")).AddInputWithOptions("a", nil, WithNoDirectDependency())
	wf.AddBranch("a", NewGraphBranch(func(ctx context.Context, in map[string]any) (string, error) { return "y", nil }, map[string]bool{"x": true, "y": true}))
	e := wf.End()
	e.AddInput("x", ToField("x"))
	e.AddInput("y", ToField("y"))
	e.AddInput("b", ToField("b"))
	r, err := wf.Compile(ctx)
	vassert(err == nil, "workflow compiles")
	sr, err := r.Stream(ctx, map[string]any{"in": 1})
	vassert(err == nil, "stream run starts")
	readN := vchoose("readN", 3)
	if readN == 2 {
		c19ReadAll(sr)
	} else {
		c19Read(sr, readN)
	}
	c19Finish([]*c19Prod{pb}, "a stream buffered for a node that a later branch decision skips")
}
