package compose

import (
	"context"
	"errors"
	"fmt"
	"io"
	"strings"

	"github.com/cloudwego/eino/schema"
)

// C13: node failures surface as identifiable, unwrappable errors; panics are contained.

type c13UserErr struct{ code int }

func (e *c13UserErr) Error() string { return "c13 user error" }

var c13Sentinel = errors.New("c13 sentinel")

// c13Chain builds START->a->b->END over map[string]any where node `fail` returns `uerr` or panics.
func c13Chain(fail string, uerr error, doPanic bool) *Graph[map[string]any, map[string]any] {
	g := NewGraph[map[string]any, map[string]any]()
	mk := func(key string) *Lambda {
		return InvokableLambda(func(ctx context.Context, in map[string]any) (map[string]any, error) {
			if key == fail {
				if doPanic {
					panic("c13 node panic")
				}
				return nil, uerr
			}
			return map[string]any{key: vsymUF("f_"+key, vFold(in))}, nil
		})
	}
	_ = g.AddLambdaNode("a", mk("a"))
	_ = g.AddLambdaNode("b", mk("b"))
	_ = g.AddEdge(START, "a")
	_ = g.AddEdge("a", "b")
	_ = g.AddEdge("b", END)
	return g
}

func c13Run(r Runnable[map[string]any, map[string]any], paradigm int, in map[string]any) error {
	ctx := context.Background()
	switch paradigm {
	case 0:
		_, err := r.Invoke(ctx, in)
		return err
	default:
		sr, err := r.Stream(ctx, in)
		if err != nil {
			return err
		}
		defer sr.Close()
		for i := 0; i < 8; i++ {
			_, err := sr.Recv()
			if err == io.EOF {
				return nil
			}
			if err != nil {
				return err
			}
		}
		return nil
	}
}

// Which node fails, whether it is nested in a sub-graph, the error kind and the paradigm are decisions.
func VerifC13NodeError() {
	ctx := context.Background()
	fail := []string{"a", "b"}[vchoose("fail", 2)]
	kind := vchoose("errkind", 2)
	nested := vchoose("nested", 2)
	paradigm := vchoose("paradigm", 2)
	var uerr error
	if kind == 0 {
		uerr = c13Sentinel
	} else {
		uerr = &c13UserErr{code: vsymInt("code")}
	}
	inner := c13Chain(fail, uerr, false)
	var r Runnable[map[string]any, map[string]any]
	var err error
	wantPath := fail
	if nested == 1 {
		outer := NewGraph[map[string]any, map[string]any]()
		_ = outer.AddGraphNode("sub", inner)
		_ = outer.AddEdge(START, "sub")
		_ = outer.AddEdge("sub", END)
		r, err = outer.Compile(ctx)
		wantPath = "sub, " + fail
	} else {
		r, err = inner.Compile(ctx)
	}
	vassert(err == nil, "graph compiles")
	rerr := c13Run(r, paradigm, map[string]any{"in": vsymInt("x")})
	vassert(rerr != nil, "a failing node makes the run fail")
	vlog("fail", fail, "kind", kind, "nested", nested, "paradigm", paradigm)
	vassert(errors.Is(rerr, uerr), "errors.Is(run error, the node's original error)")
	if kind == 1 {
		var ue *c13UserErr
		vassert(errors.As(rerr, &ue), "errors.As(run error, *userErr)")
		vassert(ue == uerr.(*c13UserErr), "errors.As yields the node's own error value")
	}
	vassert(strings.Contains(rerr.Error(), "node path: ["+wantPath+"]"), "error message names the failing node path")
}

func VerifC13MaxSteps() {
	ctx := context.Background()
	// a -> b -> (branch: a | END) with the branch always looping: must stop with the sentinel
	g := NewGraph[map[string]any, map[string]any]()
	_ = g.AddLambdaNode("a", vNode("a", nil))
	_ = g.AddLambdaNode("b", vNode("b", nil))
	_ = g.AddEdge(START, "a")
	_ = g.AddEdge("a", "b")
	_ = g.AddBranch("b", NewGraphBranch(func(ctx context.Context, in map[string]any) (string, error) { return "a", nil }, map[string]bool{"a": true, END: true}))
	limit := vrange("limit", 1, 4)
	r, err := g.Compile(ctx, WithMaxRunSteps(limit))
	vassert(err == nil, "graph compiles")
	paradigm := vchoose("paradigm", 2)
	rerr := c13Run(r, paradigm, map[string]any{"in": vsymInt("x")})
	vassert(rerr != nil, "a run that exceeds the step limit fails")
	vassert(errors.Is(rerr, ErrExceedMaxSteps), "errors.Is(run error, ErrExceedMaxSteps)")
}

func VerifC13Cancel() {
	ctx, cancel := context.WithCancel(context.Background())
	g := c13Chain("", nil, false)
	r, err := g.Compile(ctx)
	vassert(err == nil, "graph compiles")
	cancel()
	_, rerr := r.Invoke(ctx, map[string]any{"in": vsymInt("x")})
	vassert(rerr != nil, "a run with a cancelled context fails")
	vassert(errors.Is(rerr, context.Canceled), "errors.Is(run error, context.Canceled)")
}

func VerifC13Panic() {
	ctx := context.Background()
	fail := []string{"a", "b"}[vchoose("fail", 2)]
	paradigm := vchoose("paradigm", 2)
	g := c13Chain(fail, nil, true)
	r, err := g.Compile(ctx)
	vassert(err == nil, "graph compiles")
	rerr := c13Run(r, paradigm, map[string]any{"in": vsymInt("x")})
	vassert(rerr != nil, "a panicking node makes the run fail with an error")
	vassert(strings.Contains(rerr.Error(), "node path: ["+fail+"]"), "error message names the panicking node")
	vquiesce()
}

// node path through deeper nesting: L1 > L2 > ... > leaf
func VerifC13DeepPath() {
	ctx := context.Background()
	depth := vrange("depth", 2, 4)
	paradigm := vchoose("paradigm", 2)
	var cur AnyGraph = c13Chain("b", c13Sentinel, false)
	want := "b"
	for d := 1; d < depth; d++ {
		outer := NewGraph[map[string]any, map[string]any]()
		key := []string{"", "L3", "L2", "L1"}[depth-d]
		_ = outer.AddGraphNode(key, cur)
		_ = outer.AddEdge(START, key)
		_ = outer.AddEdge(key, END)
		cur = outer
		want = key + ", " + want
	}
	r, err := cur.(*Graph[map[string]any, map[string]any]).Compile(ctx)
	vassert(err == nil, "nested graphs compile")
	rerr := c13Run(r, paradigm, map[string]any{"in": vsymInt("x")})
	vassert(rerr != nil && errors.Is(rerr, c13Sentinel), "the original error is recoverable through every nesting level")
	vassert(strings.Contains(rerr.Error(), "node path: ["+want+"]"), "the error names the full failing node path through nested graphs: "+want)
}

type c13PS struct{ N int }

// Several parallel nodes, each succeeding, failing or panicking (at least one fault), under every schedule within the
// bound, in batch (Pregel/DAG) and eager (Workflow) execution: the run fails with an error that belongs to one of the
// faulty nodes (its own error value, or a panic error naming its node path); it never succeeds, hangs or crashes.
func VerifC13ParallelFaults() {
	ctx := context.Background()
	mode := vchoose("mode", 3)
	names := []string{"a", "b", "c"}[:2+vchoose("width", 1+vtier())]
	if len(names) == 2 {
		vcfg("preempt", 2+vtier())
	} else {
		vcfg("preempt", 2) // three parallel nodes (thorough tier only)
	}
	kinds := map[string]int{}
	errsOf := map[string]error{}
	faults := 0
	for _, k := range names {
		kinds[k] = vchoose("kind", 3) // 0 ok, 1 error, 2 panic
		if kinds[k] != 0 {
			faults++
		}
		errsOf[k] = &c13UserErr{code: len(errsOf) + 1}
	}
	if faults == 0 {
		return
	}
	body := func(key string) *Lambda {
		return InvokableLambda(func(ctx context.Context, in map[string]any) (map[string]any, error) {
			vyield()
			switch kinds[key] {
			case 1:
				return nil, errsOf[key]
			case 2:
				panic("c13 parallel panic in " + key)
			}
			return map[string]any{key: 1}, nil
		})
	}
	var r Runnable[map[string]any, map[string]any]
	var err error
	if mode == 2 {
		wf := NewWorkflow[map[string]any, map[string]any]()
		e := wf.End()
		for _, k := range names {
			wf.AddLambdaNode(k, body(k)).AddInput(START)
			e.AddInput(k, ToField(k))
		}
		r, err = wf.Compile(ctx)
	} else {
		// optionally every node has a state post-handler (run by the run loop when the completion is collected)
		withPost := vchoose("post", 2) == 1
		var gopts []NewGraphOption
		var nopts []GraphAddNodeOpt
		if withPost {
			gopts = append(gopts, WithGenLocalState(func(ctx context.Context) *c13PS { return &c13PS{} }))
			nopts = append(nopts, WithStatePostHandler(func(ctx context.Context, out map[string]any, s *c13PS) (map[string]any, error) {
				s.N++
				return out, nil
			}))
		}
		g := NewGraph[map[string]any, map[string]any](gopts...)
		for _, k := range names {
			_ = g.AddLambdaNode(k, body(k), nopts...)
			_ = g.AddEdge(START, k)
			_ = g.AddEdge(k, END)
		}
		var opts []GraphCompileOption
		if mode == 1 {
			opts = append(opts, WithNodeTriggerMode(AllPredecessor))
		}
		r, err = g.Compile(ctx, opts...)
	}
	vassert(err == nil, "graph compiles")
	rerr := c13Run(r, vchoose("paradigm", 2), map[string]any{"in": 1})
	vquiesce()
	vassert(rerr != nil, "a run with a failing or panicking parallel node fails, whatever the completion order")
	owned := false
	for _, k := range names {
		switch kinds[k] {
		case 1:
			if errors.Is(rerr, errsOf[k]) {
				owned = true
			}
		case 2:
			if strings.Contains(rerr.Error(), "c13 parallel panic in "+k) && strings.Contains(rerr.Error(), "node path: ["+k+"]") {
				owned = true
			}
		}
	}
	vassert(owned, "the run error is the error of one of the faulty nodes: its own error value is recoverable with errors.Is, a panic is reported with the panicking node's path")
}

// Cancellation with a cause (context.WithCancelCause), at the top level and inside a nested graph: the run error
// still matches context.Canceled with errors.Is.
func VerifC13CancelCause() {
	ctx, cancel := context.WithCancelCause(context.Background())
	nested := vchoose("nested", 2) == 1
	var g *Graph[map[string]any, map[string]any]
	if nested {
		g = NewGraph[map[string]any, map[string]any]()
		_ = g.AddGraphNode("sub", c13Chain("", nil, false))
		_ = g.AddEdge(START, "sub")
		_ = g.AddEdge("sub", END)
	} else {
		g = c13Chain("", nil, false)
	}
	r, err := g.Compile(context.Background())
	vassert(err == nil, "graph compiles")
	cancel(c13Sentinel)
	rerr := c13RunCtx(ctx, r, vchoose("paradigm", 2), map[string]any{"in": vsymInt("x")})
	vassert(rerr != nil, "a run with a context cancelled with a cause fails")
	vassert(errors.Is(rerr, context.Canceled), "errors.Is(run error, context.Canceled) also when the cancellation carries a cause")
}

func c13RunCtx(ctx context.Context, r Runnable[map[string]any, map[string]any], paradigm int, in map[string]any) error {
	if paradigm == 0 {
		_, err := r.Invoke(ctx, in)
		return err
	}
	sr, err := r.Stream(ctx, in)
	if err != nil {
		return err
	}
	defer sr.Close()
	for i := 0; i < 8; i++ {
		_, err := sr.Recv()
		if err == io.EOF {
			return nil
		}
		if err != nil {
			return err
		}
	}
	return nil
}

type c13State struct{ N int }

// a panic inside the function given to ProcessState (or inside a state handler's critical section) is contained like
// any node panic: the run fails with an error naming the node; a sibling that uses the state afterwards is not blocked
func VerifC13StatePanic() {
	ctx := context.Background()
	vcfg("preempt", 1)
	g := NewGraph[map[string]any, map[string]any](WithGenLocalState(func(ctx context.Context) *c13State { return &c13State{} }))
	_ = g.AddLambdaNode("a", InvokableLambda(func(ctx context.Context, in map[string]any) (map[string]any, error) {
		err := ProcessState(ctx, func(ctx context.Context, s *c13State) error {
			panic("c13 panic while holding the state")
		})
		return in, err
	}))
	_ = g.AddLambdaNode("b", InvokableLambda(func(ctx context.Context, in map[string]any) (map[string]any, error) {
		vyield()
		err := ProcessState(ctx, func(ctx context.Context, s *c13State) error { s.N++; return nil })
		return map[string]any{"b": 1}, err
	}))
	_ = g.AddEdge(START, "a")
	_ = g.AddEdge(START, "b")
	_ = g.AddEdge("a", END)
	_ = g.AddEdge("b", END)
	var opts []GraphCompileOption
	if vchoose("dag", 2) == 1 {
		opts = append(opts, WithNodeTriggerMode(AllPredecessor))
	}
	r, err := g.Compile(ctx, opts...)
	vassert(err == nil, "graph compiles")
	rerr := c13Run(r, vchoose("paradigm", 2), map[string]any{"in": 1})
	vquiesce()
	vassert(rerr != nil, "the run fails (it neither hangs nor succeeds)")
	vassert(strings.Contains(rerr.Error(), "c13 panic while holding the state") && strings.Contains(rerr.Error(), "node path: [a]"), "the panic is reported with the panicking node's path")
}

// the same failure over and over: every run reports exactly what the first one did
func VerifC13RepeatedFailure() {
	ctx := context.Background()
	vcfg("fifo", 1)
	sub := NewGraph[map[string]any, map[string]any]()
	_ = sub.AddLambdaNode("n", vNode("n", nil))
	_ = sub.AddEdge(START, "n")
	_ = sub.AddBranch("n", NewGraphBranch(func(ctx context.Context, in map[string]any) (string, error) { return "n", nil },
		map[string]bool{"n": true, END: true}))
	g := NewGraph[map[string]any, map[string]any]()
	_ = g.AddGraphNode("sub", sub, WithGraphCompileOptions(WithMaxRunSteps(2)))
	_ = g.AddEdge(START, "sub")
	_ = g.AddEdge("sub", END)
	r, err := g.Compile(ctx)
	vassert(err == nil, "graph compiles")
	var msgs []string
	for i := 0; i < 3; i++ {
		e := c13Run(r, vchoose("paradigm", 2), map[string]any{"in": vsymInt("x")})
		vassert(e != nil && errors.Is(e, ErrExceedMaxSteps), "every run fails with the step-limit sentinel")
		msgs = append(msgs, e.Error())
	}
	vassert(strings.Contains(msgs[0], "node path: [sub]"), "the error names the nested node path")
	for i := 1; i < 3; i++ {
		// Invoke and Stream wrap alike up to the stream-wrapper note; compare the node path part
		vassert(c13Count(msgs[i], "sub") == c13Count(msgs[0], "sub"), "a later failing run reports the same node path as the first: nothing accumulates across runs")
	}
}

func c13Count(s, sub string) int {
	n := 0
	for i := 0; i+len(sub) <= len(s); i++ {
		if s[i:i+len(sub)] == sub {
			n++
		}
	}
	return n
}

type c13Wrap struct{ inner error }

func (e *c13Wrap) Error() string { return "c13 wrapped: " + e.inner.Error() }
func (e *c13Wrap) Unwrap() error { return e.inner }

// a node that itself runs another compiled graph and wraps that graph's failure in an error of its own: the outer
// run's error still lets errors.As find the node's own error type and errors.Is the innermost cause
func VerifC13WrappedInnerRun() {
	ctx := context.Background()
	vcfg("fifo", 1)
	inner := c13Chain("b", c13Sentinel, false)
	ri, err := inner.Compile(ctx)
	vassert(err == nil, "inner graph compiles")
	g := NewGraph[map[string]any, map[string]any]()
	_ = g.AddLambdaNode("n", InvokableLambda(func(ctx context.Context, in map[string]any) (map[string]any, error) {
		out, e := ri.Invoke(ctx, in)
		if e != nil {
			return nil, &c13Wrap{inner: e}
		}
		return out, nil
	}))
	_ = g.AddEdge(START, "n")
	_ = g.AddEdge("n", END)
	r, err := g.Compile(ctx)
	vassert(err == nil, "outer graph compiles")
	rerr := c13Run(r, vchoose("paradigm", 2), map[string]any{"in": vsymInt("x")})
	vassert(rerr != nil, "the run fails")
	var w *c13Wrap
	vassert(errors.As(rerr, &w), "errors.As finds the failing node's own error type in the run error")
	vassert(errors.Is(rerr, c13Sentinel), "errors.Is finds the innermost cause")
	vassert(strings.Contains(rerr.Error(), "node path: [n]"), "the error names the failing node of this run")
}

// user code that the run loop itself calls — a state pre-handler, a state post-handler, a branch condition — panics:
// the run returns an error; the panic does not escape into the caller of Invoke / Stream
func VerifC13HandlerPanic() {
	ctx := context.Background()
	vcfg("fifo", 1)
	vcfg("selectfirst", 1)
	where := vchoose("where", 3)
	g := NewGraph[map[string]any, map[string]any](WithGenLocalState(func(ctx context.Context) *c13State { return &c13State{} }))
	var opts []GraphAddNodeOpt
	switch where {
	case 0:
		opts = append(opts, WithStatePreHandler(func(ctx context.Context, in map[string]any, s *c13State) (map[string]any, error) {
			panic("c13 pre-handler panic")
		}))
	case 1:
		opts = append(opts, WithStatePostHandler(func(ctx context.Context, out map[string]any, s *c13State) (map[string]any, error) {
			panic("c13 post-handler panic")
		}))
	}
	_ = g.AddLambdaNode("a", vNode("a", nil), opts...)
	_ = g.AddLambdaNode("b", vNode("b", nil))
	_ = g.AddEdge(START, "a")
	if where == 2 {
		_ = g.AddBranch("a", NewGraphBranch(func(ctx context.Context, in map[string]any) (string, error) {
			panic("c13 branch condition panic")
		}, map[string]bool{"b": true, END: true}))
	} else {
		_ = g.AddEdge("a", "b")
	}
	_ = g.AddEdge("b", END)
	r, err := g.Compile(ctx)
	vassert(err == nil, "graph compiles")
	rerr := c13Run(r, vchoose("paradigm", 2), map[string]any{"in": vsymInt("x")})
	vquiesce()
	vassert(rerr != nil, "the run fails with an error")
	vassert(strings.Contains(rerr.Error(), "panic"), "the error says what happened")
}

var c13WrappedEOF = fmt.Errorf("read response body: %w", io.EOF)

// A node's stream fails in the middle with an error that merely wraps io.EOF (a truncated read): wherever the
// framework turns the stream into a value (Invoke over a streaming node, a successor that cannot stream, a nested
// graph), the failure surfaces as the run's error - it is not taken for the end of the stream.
func VerifC13WrappedEOF() {
	ctx := context.Background()
	vcfg("fifo", 1)
	vcfg("selectfirst", 1)
	src := StreamableLambda(func(ctx context.Context, in string) (*schema.StreamReader[string], error) {
		sr, sw := schema.Pipe[string](2)
		sw.Send("partial", nil)
		sw.Send("", c13WrappedEOF)
		sw.Close()
		return sr, nil
	})
	g := NewGraph[string, string]()
	_ = g.AddLambdaNode("src", src)
	_ = g.AddEdge(START, "src")
	if vchoose("successor", 2) == 1 {
		_ = g.AddLambdaNode("next", InvokableLambda(func(ctx context.Context, in string) (string, error) { return in + "!", nil }))
		_ = g.AddEdge("src", "next")
		_ = g.AddEdge("next", END)
	} else {
		_ = g.AddEdge("src", END)
	}
	r, err := g.Compile(ctx)
	vassert(err == nil, "graph compiles")
	var rerr error
	if vchoose("stream", 2) == 1 {
		sr, e := r.Stream(ctx, "x")
		rerr = e
		if e == nil {
			for i := 0; i < 4; i++ {
				_, e := sr.Recv()
				if e == io.EOF {
					break
				}
				if e != nil {
					rerr = e
					break
				}
			}
			sr.Close()
		}
	} else {
		_, rerr = r.Invoke(ctx, "x")
	}
	vassert(rerr != nil, "a stream that fails with an error wrapping io.EOF makes the run fail (the truncated output is not returned as complete)")
	if rerr != nil {
		vassert(errors.Is(rerr, c13WrappedEOF), "and the original error can be recovered")
	}
}

// Node code that is evaluated lazily inside the node's output stream (a conversion the node put on its stream) panics.
// Whether a forwarding goroutine sits between the node and the reader (fan-out to two successors) or the stream reaches
// the caller directly (single node), the panic surfaces as an error item - it never escapes from the caller's Recv.
func VerifC13LazyStreamPanic() {
	ctx := context.Background()
	vcfg("fifo", 1)
	vcfg("selectfirst", 1)
	g := NewGraph[string, string]()
	_ = g.AddLambdaNode("n", TransformableLambda(func(ctx context.Context, in *schema.StreamReader[string]) (*schema.StreamReader[string], error) {
		return schema.StreamReaderWithConvert(in, func(s string) (string, error) {
			var m map[string]int
			m[s] = 1 // panics: assignment to entry in nil map
			return s, nil
		}), nil
	}))
	_ = g.AddEdge(START, "n")
	if vchoose("successor", 2) == 1 {
		_ = g.AddLambdaNode("next", TransformableLambda(func(ctx context.Context, in *schema.StreamReader[string]) (*schema.StreamReader[string], error) {
			return in, nil
		}))
		_ = g.AddEdge("n", "next")
		_ = g.AddEdge("next", END)
	} else {
		_ = g.AddEdge("n", END)
	}
	r, err := g.Compile(ctx)
	vassert(err == nil, "graph compiles")
	sr, rerr := r.Stream(ctx, "x")
	if rerr != nil {
		return // surfaced as an error of the run
	}
	got := false
	for i := 0; i < 4; i++ {
		_, e := sr.Recv()
		if e == io.EOF {
			break
		}
		if e != nil {
			got = true
			break
		}
	}
	sr.Close()
	vassert(got, "the panic of the node's lazily evaluated stream code arrives as an error item")
}
