package compose

import (
	"context"
	"errors"

	"github.com/cloudwego/eino/components/model"
	"github.com/cloudwego/eino/schema"
)

// C16: call options reach exactly the nodes they address.

type c16OptA struct{ id, val int }
type c16OptB struct{ id, val int }

type c16Recv struct {
	node string
	id   int
	val  int
}

func c16Build(rec *[]c16Recv) (Runnable[map[string]any, map[string]any], error) {
	ctx := context.Background()
	lamA := func(key string) *Lambda {
		return InvokableLambdaWithOption(func(ctx context.Context, in map[string]any, opts ...c16OptA) (map[string]any, error) {
			for _, o := range opts {
				*rec = append(*rec, c16Recv{key, o.id, o.val})
			}
			return in, nil
		})
	}
	lamB := func(key string) *Lambda {
		return InvokableLambdaWithOption(func(ctx context.Context, in map[string]any, opts ...c16OptB) (map[string]any, error) {
			for _, o := range opts {
				*rec = append(*rec, c16Recv{key, o.id, o.val})
			}
			return in, nil
		})
	}
	sub := NewGraph[map[string]any, map[string]any]()
	_ = sub.AddLambdaNode("L2", lamA("G/L2"))
	_ = sub.AddLambdaNode("M2", lamB("G/M2"))
	_ = sub.AddEdge(START, "L2")
	_ = sub.AddEdge("L2", "M2")
	_ = sub.AddEdge("M2", END)
	g := NewGraph[map[string]any, map[string]any]()
	_ = g.AddLambdaNode("L1", lamA("L1"))
	_ = g.AddLambdaNode("M1", lamB("M1"))
	_ = g.AddGraphNode("G", sub)
	_ = g.AddEdge(START, "L1")
	_ = g.AddEdge("L1", "M1")
	_ = g.AddEdge("M1", "G")
	_ = g.AddEdge("G", END)
	return g.Compile(ctx)
}

// designation table
var c16Paths = [][]string{nil, {"L1"}, {"M1"}, {"G"}, {"G", "L2"}, {"G", "M2"}, {"ghost"}, {"M1", "x"}, {"G", "ghost"}}

// reference routing: which nodes receive an option of kind (0 = A, 1 = B) with designation d; ok=false means the run must fail
func c16Route(kind, d int) (nodes []string, ok bool) {
	typed := map[string]int{"L1": 0, "M1": 1, "G/L2": 0, "G/M2": 1}
	pick := func(cands ...string) []string {
		var r []string
		for _, c := range cands {
			if typed[c] == kind {
				r = append(r, c)
			}
		}
		return r
	}
	switch d {
	case 0:
		return pick("L1", "M1", "G/L2", "G/M2"), true
	case 1:
		return pick("L1"), kind == 0
	case 2:
		return pick("M1"), kind == 1
	case 3:
		return pick("G/L2", "G/M2"), true
	case 4:
		return pick("G/L2"), kind == 0
	case 5:
		return pick("G/M2"), kind == 1
	}
	return nil, false
}

func c16Mk(kind, id, val, d int, extra int) Option {
	var o Option
	if kind == 0 {
		o = WithLambdaOption(c16OptA{id, val})
	} else {
		o = WithLambdaOption(c16OptB{id, val})
	}
	if p := c16Paths[d]; p != nil {
		o = o.DesignateNodeWithPath(NewNodePath(p...))
	}
	if extra > 0 && c16Paths[extra] != nil { // a second designated path on the same option
		o = o.DesignateNodeWithPath(NewNodePath(c16Paths[extra]...))
	}
	return o
}

func c16Check(rec []c16Recv, node string, want []c16Recv, what string) {
	var got []c16Recv
	for _, r := range rec {
		if r.node == node {
			got = append(got, r)
		}
	}
	vassert(len(got) == len(want), what+": node "+node+" receives exactly the options addressed to it (count)")
	for i := range got {
		vassert(got[i].id == want[i].id && got[i].val == want[i].val, what+": node "+node+" receives its options unchanged and in call order")
	}
}

func c16Run(nOpts int, maxD int, twoPaths bool) {
	ctx := context.Background()
	vcfg("fifo", 1)
	vcfgAppendCapIn("extractOption")
	var rec []c16Recv
	r, err := c16Build(&rec)
	vassert(err == nil, "graph compiles")
	var opts []Option
	want := map[string][]c16Recv{}
	okAll := true
	desc := ""
	for i := 0; i < nOpts; i++ {
		kind := vchoose("kind", 2)
		d := vchoose("designation", maxD+1)
		extra := 0
		if twoPaths {
			d = 1 + vchoose("first", maxD) // two real designated paths on one option
			extra = 1 + vchoose("second", 5)
		}
		val := vsymInt("val")
		opts = append(opts, c16Mk(kind, i, val, d, extra))
		nodes, ok := c16Route(kind, d)
		if !ok {
			okAll = false
		}
		seen := map[string]bool{}
		for _, n := range nodes {
			seen[n] = true
			want[n] = append(want[n], c16Recv{n, i, val})
		}
		if extra > 0 {
			nodes2, ok2 := c16Route(kind, extra)
			if !ok2 {
				okAll = false
			}
			for _, n := range nodes2 {
				if !seen[n] || (d == 3 || extra == 3) { // the sub-graph forwards one copy per designated path
					want[n] = append(want[n], c16Recv{n, i, val})
				}
			}
		}
		desc += []string{"A", "B"}[kind] + "@" + []string{"*", "L1", "M1", "G", "G.L2", "G.M2", "ghost", "M1.x", "G.ghost"}[d]
		if extra > 0 {
			desc += "+" + []string{"*", "L1", "M1", "G", "G.L2", "G.M2"}[extra]
		}
		desc += " "
	}
	snapshot := make([]Option, len(opts))
	copy(snapshot, opts)
	_, rerr := r.Invoke(ctx, map[string]any{"in": vsymInt("x")}, opts...)
	if !okAll {
		vassert(rerr != nil, "designating an unknown node, a path below a component, or an option of the wrong type is an error: "+desc)
		return
	}
	vassert(rerr == nil, "run with well-addressed options succeeds: "+desc)
	if !twoPaths {
		for _, n := range []string{"L1", "M1", "G/L2", "G/M2"} {
			c16Check(rec, n, want[n], desc)
		}
	} else {
		// with two designated paths per option only membership is checked: an option reaches a node iff one of its paths addresses it
		for _, n := range []string{"L1", "M1", "G/L2", "G/M2"} {
			for i := 0; i < nOpts; i++ {
				addressed := false
				for _, w := range want[n] {
					if w.id == i {
						addressed = true
					}
				}
				got := false
				for _, rr := range rec {
					if rr.node == n && rr.id == i {
						got = true
					}
				}
				vassert(got == addressed, "an option reaches node "+n+" iff one of its designated paths addresses it: "+desc)
			}
		}
	}
	for i := range opts {
		vassert(len(opts[i].paths) == len(snapshot[i].paths) && len(opts[i].options) == len(snapshot[i].options), "the caller's options are not modified by the run")
		for j := range opts[i].paths {
			vassert(len(opts[i].paths[j].path) == len(snapshot[i].paths[j].path), "the caller's designated paths are not modified by the run")
		}
	}
	// a second call with no options: nothing leaks from the first call
	n0 := len(rec)
	_, rerr = r.Invoke(ctx, map[string]any{"in": vsymInt("y")})
	vassert(rerr == nil, "second call succeeds")
	vassert(len(rec) == n0, "options of one call never leak into another call")
}

func VerifC16One()      { c16Run(1, 8, false) }
func VerifC16Two()      { c16Run(2, 5, false) }
func VerifC16TwoPaths() { c16Run(1, 5, true) }
func VerifC16Three()    { c16Run(3, 5, false) }

// callbacks designated to a node (also inside a nested graph) apply only there
func VerifC16Callbacks() {
	ctx := context.Background()
	vcfg("fifo", 1)
	var rec []c16Recv
	var evs []c10Ev
	_ = rec
	sub := NewGraph[map[string]any, map[string]any]()
	_ = sub.AddLambdaNode("L2", vNode("L2", nil), WithNodeName("L2"))
	_ = sub.AddLambdaNode("M2", vNode("M2", nil), WithNodeName("M2"))
	_ = sub.AddEdge(START, "L2")
	_ = sub.AddEdge("L2", "M2")
	_ = sub.AddEdge("M2", END)
	g := NewGraph[map[string]any, map[string]any]()
	_ = g.AddLambdaNode("L1", vNode("L1", nil), WithNodeName("L1"))
	_ = g.AddGraphNode("G", sub, WithNodeName("G"))
	_ = g.AddEdge(START, "L1")
	_ = g.AddEdge("L1", "G")
	_ = g.AddEdge("G", END)
	r, err := g.Compile(ctx, WithGraphName("TOP"))
	vassert(err == nil, "graph compiles")
	d := vchoose("where", 4)
	targets := []string{"L1", "G", "L2", "M2"}
	paths := [][]string{{"L1"}, {"G"}, {"G", "L2"}, {"G", "M2"}}
	target := targets[d]
	opt := WithCallbacks(&c10Rec{id: "h", evs: &evs}).DesignateNodeWithPath(NewNodePath(paths[d]...))
	// optionally a second path on the same option, listed after the first
	d2 := vchoose("second", 5) - 1
	if d2 == d || (d2 >= 0 && (d == 1 || d2 == 1)) {
		return
	}
	if d2 >= 0 {
		opt = opt.DesignateNodeWithPath(NewNodePath(paths[d2]...))
	}
	_, rerr := r.Invoke(ctx, map[string]any{"in": vsymInt("x")}, opt)
	vassert(rerr == nil, "run succeeds")
	vassert(c10Count(evs, "h", "start", target) == 1 && c10Count(evs, "h", "end", target) == 1, "callback designated to "+target+" fires once there")
	if d2 >= 0 {
		vassert(c10Count(evs, "h", "start", targets[d2]) == 1 && c10Count(evs, "h", "end", targets[d2]) == 1, "callback designated to a second path ("+targets[d2]+") fires once there as well, whatever the order of the paths")
	}
	for _, e := range evs {
		if d != 1 {
			vassert(e.name == target || (d2 >= 0 && e.name == targets[d2]), "callback designated to "+target+" applies only there (got "+e.name+")")
		}
	}
}

// options of the resuming call reach the nodes restarted from the checkpoint (flat, nested, rerun)
func VerifC16Resume() {
	ctx := context.Background()
	vcfg("fifo", 1)
	var rec []c16Recv
	lamA := func(key string) *Lambda {
		return InvokableLambdaWithOption(func(ctx context.Context, in map[string]any, opts ...c16OptA) (map[string]any, error) {
			for _, o := range opts {
				rec = append(rec, c16Recv{key, o.id, o.val})
			}
			return in, nil
		})
	}
	nested := vchoose("nested", 2) == 1
	store := &vStore{m: map[string][]byte{}}
	g := NewGraph[map[string]any, map[string]any]()
	_ = g.AddLambdaNode("L0", lamA("L0"))
	_ = g.AddEdge(START, "L0")
	target := "L1"
	if nested {
		sub := NewGraph[map[string]any, map[string]any]()
		_ = sub.AddLambdaNode("L2", lamA("G/L2"))
		_ = sub.AddEdge(START, "L2")
		_ = sub.AddEdge("L2", END)
		_ = g.AddGraphNode("G", sub, WithGraphCompileOptions(WithInterruptBeforeNodes([]string{"L2"})))
		_ = g.AddEdge("L0", "G")
		_ = g.AddEdge("G", END)
		target = "G/L2"
	} else {
		_ = g.AddLambdaNode("L1", lamA("L1"))
		_ = g.AddEdge("L0", "L1")
		_ = g.AddEdge("L1", END)
	}
	var copts []GraphCompileOption
	copts = append(copts, WithCheckPointStore(store))
	if !nested {
		copts = append(copts, WithInterruptBeforeNodes([]string{"L1"}))
	}
	r, err := g.Compile(ctx, copts...)
	vassert(err == nil, "graph compiles")
	v1, v2 := vsymInt("v1"), vsymInt("v2")
	global := WithLambdaOption(c16OptA{1, v1})
	var des Option
	if nested {
		des = WithLambdaOption(c16OptA{2, v2}).DesignateNodeWithPath(NewNodePath("G", "L2"))
	} else {
		des = WithLambdaOption(c16OptA{2, v2}).DesignateNode("L1")
	}
	in := map[string]any{"in": vsymInt("x")}
	_, e1 := r.Invoke(ctx, in, WithCheckPointID("cp"), global, des)
	_, isInt := ExtractInterruptInfo(e1)
	vassert(isInt, "first call is interrupted before the target node")
	n0 := len(rec)
	_, e2 := r.Invoke(ctx, in, WithCheckPointID("cp"), global, des)
	vassert(e2 == nil, "resumed call completes")
	var got []c16Recv
	for _, x := range rec[n0:] {
		vassert(x.node == target, "after resume only the restarted node runs")
		got = append(got, x)
	}
	vassert(len(got) == 2 && got[0].id == 1 && got[0].val == v1 && got[1].id == 2 && got[1].val == v2, "a node restarted from the checkpoint receives the global and the designated option of the resuming call")
}

// a node fed through an input key receives its options in every paradigm
func VerifC16InputKey() {
	ctx := context.Background()
	vcfg("fifo", 1)
	var rec []c16Recv
	g := NewGraph[map[string]any, map[string]any]()
	_ = g.AddLambdaNode("L1", InvokableLambdaWithOption(func(ctx context.Context, in int, opts ...c16OptA) (map[string]any, error) {
		for _, o := range opts {
			rec = append(rec, c16Recv{"L1", o.id, o.val})
		}
		return map[string]any{"o": in}, nil
	}), WithInputKey("k"))
	_ = g.AddEdge(START, "L1")
	_ = g.AddEdge("L1", END)
	r, err := g.Compile(ctx)
	vassert(err == nil, "graph compiles")
	v1, v2 := vsymInt("v1"), vsymInt("v2")
	opts := []Option{WithLambdaOption(c16OptA{1, v1}), WithLambdaOption(c16OptA{2, v2}).DesignateNode("L1")}
	in := map[string]any{"k": vsymInt("x")}
	switch vchoose("paradigm", 3) {
	case 0:
		_, err = r.Invoke(ctx, in, opts...)
	case 1:
		sr, e := r.Stream(ctx, in, opts...)
		err = e
		if e == nil {
			_, err = vDrainMap(sr)
		}
	case 2:
		sr, e := r.Transform(ctx, schema.StreamReaderFromArray([]map[string]any{in}), opts...)
		err = e
		if e == nil {
			_, err = vDrainMap(sr)
		}
	}
	vassert(err == nil, "run succeeds")
	vassert(len(rec) == 2 && rec[0].id == 1 && rec[0].val == v1 && rec[1].id == 2 && rec[1].val == v2, "a node with an input key receives the options addressed to it, in every paradigm")
}

// callbacks designated to an unknown node are an error like any other option
func VerifC16CallbackUnknown() {
	ctx := context.Background()
	vcfg("fifo", 1)
	var evs []c10Ev
	sub := NewGraph[map[string]any, map[string]any]()
	_ = sub.AddLambdaNode("L2", vNode("L2", nil))
	_ = sub.AddEdge(START, "L2")
	_ = sub.AddEdge("L2", END)
	g := NewGraph[map[string]any, map[string]any]()
	_ = g.AddLambdaNode("a", vNode("a", nil))
	_ = g.AddGraphNode("sub", sub)
	_ = g.AddEdge(START, "a")
	_ = g.AddEdge("a", "sub")
	_ = g.AddEdge("sub", END)
	r, err := g.Compile(ctx)
	vassert(err == nil, "graph compiles")
	var opt Option
	where := vchoose("where", 4)
	switch where {
	case 0:
		opt = WithCallbacks(&c10Rec{id: "h", evs: &evs}).DesignateNode("a")
	case 1:
		opt = WithCallbacks(&c10Rec{id: "h", evs: &evs}).DesignateNode("typo")
	case 2:
		opt = WithCallbacks(&c10Rec{id: "h", evs: &evs}).DesignateNodeWithPath(NewNodePath("sub", "typo"))
	case 3:
		opt = WithCallbacks(&c10Rec{id: "h", evs: &evs}).DesignateNode("a", "typo")
	}
	_, rerr := r.Invoke(ctx, map[string]any{"in": vsymInt("x")}, opt)
	if where == 0 {
		vassert(rerr == nil, "a callback designated to an existing node is accepted")
	} else {
		vassert(rerr != nil, "a callback designated to an unknown node (also below a nested graph, or next to a valid key) is an error")
	}
}

// Component options (chat-model options) on a graph with two chat-model nodes and a lambda: an undesignated option
// reaches every chat model and nothing else; designated options derived from ONE base option (both derived before
// either is used) reach exactly their own node, in one call or in separate calls.
type c16Model struct {
	key string
	rec *[]c16Recv
}

func (m *c16Model) note(opts []model.Option) {
	o := model.GetCommonOptions(&model.Options{}, opts...)
	if o.MaxTokens != nil {
		*m.rec = append(*m.rec, c16Recv{m.key, 0, *o.MaxTokens})
	}
}
func (m *c16Model) Generate(ctx context.Context, in []*schema.Message, opts ...model.Option) (*schema.Message, error) {
	m.note(opts)
	return &schema.Message{Role: schema.Assistant, Content: m.key}, nil
}
func (m *c16Model) Stream(ctx context.Context, in []*schema.Message, opts ...model.Option) (*schema.StreamReader[*schema.Message], error) {
	m.note(opts)
	return schema.StreamReaderFromArray([]*schema.Message{{Role: schema.Assistant, Content: m.key}}), nil
}
func (m *c16Model) BindTools(tools []*schema.ToolInfo) error { return nil }

func VerifC16ComponentOptions() {
	ctx := context.Background()
	vcfg("fifo", 1)
	vcfgAppendCapIn("extractOption")
	var rec []c16Recv
	lamSeen := 0
	g := NewGraph[[]*schema.Message, *schema.Message]()
	_ = g.AddChatModelNode("ma", &c16Model{"ma", &rec})
	if vchoose("lambdaOptionType", 2) == 0 {
		_ = g.AddLambdaNode("conv", InvokableLambdaWithOption(func(ctx context.Context, in *schema.Message, opts ...c16OptA) ([]*schema.Message, error) {
			lamSeen += len(opts)
			return []*schema.Message{in}, nil
		}))
	} else { // a lambda that declares an interface as its option type is still not a chat model
		_ = g.AddLambdaNode("conv", InvokableLambdaWithOption(func(ctx context.Context, in *schema.Message, opts ...any) ([]*schema.Message, error) {
			lamSeen += len(opts)
			return []*schema.Message{in}, nil
		}))
	}
	_ = g.AddChatModelNode("mb", &c16Model{"mb", &rec})
	_ = g.AddEdge(START, "ma")
	_ = g.AddEdge("ma", "conv")
	_ = g.AddEdge("conv", "mb")
	_ = g.AddEdge("mb", END)
	r, err := g.Compile(ctx)
	vassert(err == nil, "graph compiles")
	v := vrange("tokens", 1, 9)
	base := WithChatModelOption(model.WithMaxTokens(v))
	forA := base.DesignateNode("ma")
	forB := base.DesignateNode("mb")
	var opts []Option
	wantA, wantB := 0, 0
	switch vchoose("use", 5) {
	case 0:
		opts = []Option{base}
		wantA, wantB = 1, 1
	case 1:
		opts = []Option{forA}
		wantA = 1
	case 2:
		opts = []Option{forB}
		wantB = 1
	case 3:
		opts = []Option{forA, forB}
		wantA, wantB = 1, 1
	case 4:
		opts = []Option{forB, forA}
		wantA, wantB = 1, 1
	}
	var rerr error
	if vchoose("stream", 2) == 1 {
		sr, e := r.Stream(ctx, []*schema.Message{schema.UserMessage("q")}, opts...)
		rerr = e
		if e == nil {
			for i := 0; i < 4; i++ {
				if _, e := sr.Recv(); e != nil {
					break
				}
			}
			sr.Close()
		}
	} else {
		_, rerr = r.Invoke(ctx, []*schema.Message{schema.UserMessage("q")}, opts...)
	}
	vassert(rerr == nil, "run with well-addressed component options succeeds")
	gotA, gotB := 0, 0
	for _, x := range rec {
		vassert(x.val == v, "the option arrives unchanged")
		if x.node == "ma" {
			gotA++
		} else {
			gotB++
		}
	}
	vassert(gotA == wantA && gotB == wantB, "a component option reaches exactly the chat-model nodes it addresses, also when several designated options are derived from one base option")
	vassert(lamSeen == 0, "a chat-model option never reaches a node of another component type")
}

// Options derived from one base option that already carries designations (so its path list has spare capacity):
// every derived option keeps its own designations, whichever is derived or used first.
func VerifC16DerivedOptions() {
	ctx := context.Background()
	vcfg("fifo", 1)
	var rec []c16Recv
	names := []string{"n1", "n2", "n3", "n4", "n5"}
	g := NewGraph[map[string]any, map[string]any]()
	prev := START
	for _, k := range names {
		key := k
		_ = g.AddLambdaNode(key, InvokableLambdaWithOption(func(ctx context.Context, in map[string]any, opts ...c16OptA) (map[string]any, error) {
			for _, o := range opts {
				rec = append(rec, c16Recv{key, o.id, o.val})
			}
			return in, nil
		}))
		_ = g.AddEdge(prev, key)
		prev = key
	}
	_ = g.AddEdge(prev, END)
	r, err := g.Compile(ctx)
	vassert(err == nil, "graph compiles")
	v := vsymInt("v")
	nBase := 1 + vchoose("base", 3)
	base := WithLambdaOption(c16OptA{1, v})
	for i := 0; i < nBase; i++ {
		base = base.DesignateNode(names[i])
	}
	o1 := base.DesignateNode("n4")
	o2 := base.DesignateNode("n5")
	use := vchoose("use", 3)
	var opts []Option
	want := map[string]int{}
	for i := 0; i < nBase; i++ {
		want[names[i]] = 1
	}
	switch use {
	case 0:
		opts = []Option{o1}
		want["n4"] = 1
	case 1:
		opts = []Option{o2}
		want["n5"] = 1
	case 2:
		opts = []Option{base}
	}
	_, rerr := r.Invoke(ctx, map[string]any{"in": 1}, opts...)
	vassert(rerr == nil, "run succeeds")
	got := map[string]int{}
	for _, x := range rec {
		got[x.node]++
		vassert(x.val == v, "the option arrives unchanged")
	}
	for _, k := range names {
		vassert(got[k] == want[k], "an option derived from a base option reaches exactly the nodes of the base plus its own designation: "+k)
	}
}

// an option value of the wrong type, a nil option included, designated to a typed node is an error of the call
func VerifC16WrongTypeOption() {
	ctx := context.Background()
	vcfg("fifo", 1)
	var rec []c16Recv
	r, err := c16Build(&rec)
	vassert(err == nil, "graph compiles")
	var opt Option
	switch vchoose("value", 3) {
	case 0:
		opt = WithLambdaOption(nil).DesignateNode("L1")
	case 1:
		opt = WithLambdaOption("a string").DesignateNode("L1")
	case 2:
		opt = WithLambdaOption(c16OptB{1, 1}).DesignateNode("L1") // L1 takes c16OptA
	}
	_, rerr := r.Invoke(ctx, map[string]any{"in": 1}, opt)
	vassert(rerr != nil, "an option of the wrong type designated to a node is an error")
	vassert(len(rec) == 0, "and reaches no node")
}

// a pass-through node takes no options and has nothing below it: designating a component option to it, or to a path
// below it, is an error of the call; an undesignated option simply does not reach it
func VerifC16PassthroughTarget() {
	ctx := context.Background()
	vcfg("fifo", 1)
	var rec []c16Recv
	g := NewGraph[map[string]any, map[string]any]()
	_ = g.AddPassthroughNode("p")
	_ = g.AddLambdaNode("l", InvokableLambdaWithOption(func(ctx context.Context, in map[string]any, opts ...c16OptA) (map[string]any, error) {
		for _, o := range opts {
			rec = append(rec, c16Recv{"l", o.id, o.val})
		}
		return in, nil
	}))
	_ = g.AddEdge(START, "p")
	_ = g.AddEdge("p", "l")
	_ = g.AddEdge("l", END)
	r, err := g.Compile(ctx)
	vassert(err == nil, "graph compiles")
	kind := vchoose("kind", 3)
	var opt Option
	switch kind {
	case 0:
		opt = WithLambdaOption(c16OptA{1, 1}).DesignateNodeWithPath(NewNodePath("p", "q"))
	case 1:
		opt = WithLambdaOption(c16OptA{1, 1}).DesignateNode("p")
	case 2:
		opt = WithLambdaOption(c16OptA{1, 1}) // undesignated: reaches l only
	}
	_, rerr := r.Invoke(ctx, map[string]any{"in": 1}, opt)
	if kind == 2 {
		vassert(rerr == nil && len(rec) == 1 && rec[0].node == "l", "an undesignated option reaches the typed node and is not an error because of the pass-through")
		return
	}
	vassert(rerr != nil, "an option designated to a pass-through node or to a path below it is an error")
	vassert(len(rec) == 0, "and reaches no node")
}

// A path into a nested graph is checked whether or not this run reaches the nested graph: designating an unknown
// node of it, a path below one of its components, or an option of the wrong type is an error of the call also when
// a branch routes around the nested graph (and on a nested graph inside a nested graph).
func VerifC16UnreachedNested() {
	ctx := context.Background()
	vcfg("fifo", 1)
	var rec []c16Recv
	lamA := func(key string) *Lambda {
		return InvokableLambdaWithOption(func(ctx context.Context, in map[string]any, opts ...c16OptA) (map[string]any, error) {
			for _, o := range opts {
				rec = append(rec, c16Recv{key, o.id, o.val})
			}
			return in, nil
		})
	}
	inner := NewGraph[map[string]any, map[string]any]()
	_ = inner.AddLambdaNode("x", lamA("G/H/x"))
	_ = inner.AddEdge(START, "x")
	_ = inner.AddEdge("x", END)
	sub := NewGraph[map[string]any, map[string]any]()
	_ = sub.AddLambdaNode("L2", lamA("G/L2"))
	_ = sub.AddGraphNode("H", inner, WithOutputKey("h"))
	_ = sub.AddEdge(START, "L2")
	_ = sub.AddEdge("L2", "H")
	_ = sub.AddEdge("H", END)
	g := NewGraph[map[string]any, map[string]any]()
	_ = g.AddLambdaNode("L1", lamA("L1"))
	_ = g.AddGraphNode("G", sub)
	_ = g.AddLambdaNode("other", lamA("other"))
	_ = g.AddEdge(START, "L1")
	takeSub := vchoose("takeSub", 2) == 1
	_ = g.AddBranch("L1", NewGraphBranch(func(ctx context.Context, in map[string]any) (string, error) {
		if takeSub {
			return "G", nil
		}
		return "other", nil
	}, map[string]bool{"G": true, "other": true}))
	_ = g.AddEdge("G", END)
	_ = g.AddEdge("other", END)
	r, err := g.Compile(ctx)
	vassert(err == nil, "graph compiles")
	kind := vchoose("kind", 6)
	var opt Option
	bad := true
	switch kind {
	case 0:
		opt = WithLambdaOption(c16OptA{1, 1}).DesignateNodeWithPath(NewNodePath("G", "ghost"))
	case 1:
		opt = WithLambdaOption(c16OptA{1, 1}).DesignateNodeWithPath(NewNodePath("G", "L2", "deeper"))
	case 2:
		opt = WithLambdaOption(c16OptB{1, 1}).DesignateNodeWithPath(NewNodePath("G", "L2"))
	case 3:
		opt = WithLambdaOption(c16OptA{1, 1}).DesignateNodeWithPath(NewNodePath("G", "H", "ghost"))
	case 4:
		opt = WithLambdaOption(c16OptA{1, 1}).DesignateNodeWithPath(NewNodePath("G", "H", "x"))
		bad = false
	case 5:
		opt = WithLambdaOption(c16OptA{1, 1}).DesignateNodeWithPath(NewNodePath("G", "L2"))
		bad = false
	}
	_, rerr := r.Invoke(ctx, map[string]any{"in": 1}, opt)
	if bad {
		vassert(rerr != nil, "an ill-designated path into a nested graph is an error whether or not the run reaches the nested graph")
		return
	}
	vassert(rerr == nil, "a valid path into a nested graph is accepted whether or not the run reaches it")
	want := 0
	if takeSub {
		want = 1
	}
	vassert(len(rec) == want, "and reaches exactly its node, when that node runs")
}

// A per-call step limit designated to a nested graph limits that graph and nothing else: the enclosing graph (which
// needs more steps than the limit) still completes, and the nested graph fails exactly when it needs more steps than
// the limit; undesignated, the limit applies to the graph the call is made on.
func VerifC16RuntimeSteps() {
	ctx := context.Background()
	vcfg("fifo", 1)
	sub := NewGraph[map[string]any, map[string]any]()
	_ = sub.AddLambdaNode("s1", vNode("s1", nil))
	_ = sub.AddLambdaNode("s2", vNode("s2", nil))
	_ = sub.AddEdge(START, "s1")
	_ = sub.AddEdge("s1", "s2")
	_ = sub.AddEdge("s2", END) // the nested graph needs 2 steps
	// optionally the addressed graph sits one level deeper: sub = mid{ inner }
	deep := vchoose("deep", 2) == 1
	var subNode AnyGraph = sub
	if deep {
		mid := NewGraph[map[string]any, map[string]any]()
		_ = mid.AddGraphNode("inner", sub)
		_ = mid.AddLambdaNode("m1", vNode("m1", nil))
		_ = mid.AddLambdaNode("m2", vNode("m2", nil))
		_ = mid.AddEdge(START, "m1")
		_ = mid.AddEdge("m1", "m2")
		_ = mid.AddEdge("m2", "inner")
		_ = mid.AddEdge("inner", END) // mid needs 3 steps of its own
		subNode = mid
	}
	g := NewGraph[map[string]any, map[string]any]()
	_ = g.AddLambdaNode("a", vNode("a", nil))
	_ = g.AddLambdaNode("b", vNode("b", nil))
	_ = g.AddGraphNode("sub", subNode)
	_ = g.AddLambdaNode("c", vNode("c", nil))
	_ = g.AddLambdaNode("d", vNode("d", nil))
	prev := START
	for _, k := range []string{"a", "b", "sub", "c", "d"} {
		_ = g.AddEdge(prev, k)
		prev = k
	}
	_ = g.AddEdge(prev, END) // the enclosing graph needs 5 steps
	r, err := g.Compile(ctx)
	vassert(err == nil, "graph compiles")
	limit := vrange("limit", 1, 6)
	designated := vchoose("designated", 2) == 1
	opt := WithRuntimeMaxSteps(limit)
	if designated {
		if deep {
			opt = opt.DesignateNodeWithPath(NewNodePath("sub", "inner"))
		} else {
			opt = opt.DesignateNode("sub")
		}
	}
	_, rerr := r.Invoke(ctx, map[string]any{"in": 1}, opt)
	needs := 5
	if designated {
		needs = 2
	}
	if limit >= needs {
		vassert(rerr == nil, "a step limit the addressed graph stays within does not fail the run (it is not applied to any other graph)")
	} else {
		vassert(rerr != nil && errors.Is(rerr, ErrExceedMaxSteps), "the addressed graph fails with the step-limit error when it needs more steps than the limit")
	}
}
