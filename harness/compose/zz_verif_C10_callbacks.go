package compose

import (
	"context"
	"errors"
	"io"
	"sync"

	"github.com/cloudwego/eino/callbacks"
	"github.com/cloudwego/eino/components/tool"
	"github.com/cloudwego/eino/schema"
)

// C10: callback handlers fire exactly once per execution unit, paired, for the right node.

type c10Ev struct {
	h, kind, name string
}

var c10Mu sync.Mutex
var c10Err = errors.New("c10 branch failure")

type c10Rec struct {
	id       string
	evs      *[]c10Ev
	closeOut bool // close stream payloads immediately (else drain)
}

func (h *c10Rec) add(kind string, info *callbacks.RunInfo) {
	name := ""
	if info != nil {
		name = info.Name
	}
	c10Mu.Lock()
	*h.evs = append(*h.evs, c10Ev{h.id, kind, name})
	c10Mu.Unlock()
}
func (h *c10Rec) OnStart(ctx context.Context, info *callbacks.RunInfo, input callbacks.CallbackInput) context.Context {
	h.add("start", info)
	return ctx
}
func (h *c10Rec) OnEnd(ctx context.Context, info *callbacks.RunInfo, output callbacks.CallbackOutput) context.Context {
	h.add("end", info)
	return ctx
}
func (h *c10Rec) OnError(ctx context.Context, info *callbacks.RunInfo, err error) context.Context {
	h.add("end", info)
	return ctx
}
func (h *c10Rec) OnStartWithStreamInput(ctx context.Context, info *callbacks.RunInfo, input *schema.StreamReader[callbacks.CallbackInput]) context.Context {
	h.add("start", info)
	h.consume(input)
	return ctx
}
func (h *c10Rec) OnEndWithStreamOutput(ctx context.Context, info *callbacks.RunInfo, output *schema.StreamReader[callbacks.CallbackOutput]) context.Context {
	h.add("end", info)
	h.consumeOut(output)
	return ctx
}
func (h *c10Rec) consume(sr *schema.StreamReader[callbacks.CallbackInput]) {
	if !h.closeOut {
		for i := 0; i < 8; i++ {
			if _, err := sr.Recv(); err != nil {
				break
			}
		}
	}
	sr.Close()
}
func (h *c10Rec) consumeOut(sr *schema.StreamReader[callbacks.CallbackOutput]) {
	if !h.closeOut {
		for i := 0; i < 8; i++ {
			if _, err := sr.Recv(); err != nil {
				break
			}
		}
	}
	sr.Close()
}

func c10Count(evs []c10Ev, h, kind, name string) int {
	n := 0
	for _, e := range evs {
		if e.h == h && e.kind == kind && e.name == name {
			n++
		}
	}
	return n
}

// Two parallel named nodes A and B (bodies yield); ng undesignated handlers passed in separate options,
// one handler designated to A and one to B. Every schedule within the bound, append capacity nondeterministic.
func c10Parallel(ng int, stream bool, nested bool) {
	ctx := context.Background()
	vcfg("preempt", 2+vtier())
	vcfgAppendCapIn("initGraphCallbacks")
	vcfgAppendCapIn("initNodeCallbacks")
	vcfgAppendCapIn("AppendHandlers")
	var evs []c10Ev
	body := func(key string) *Lambda {
		return InvokableLambda(func(ctx context.Context, in map[string]any) (map[string]any, error) {
			vyield()
			return map[string]any{key: vsymUF("f_"+key, vFold(in))}, nil
		})
	}
	g := NewGraph[map[string]any, map[string]any]()
	_ = g.AddLambdaNode("a", body("a"), WithNodeName("A"))
	_ = g.AddLambdaNode("b", body("b"), WithNodeName("B"))
	_ = g.AddEdge(START, "a")
	_ = g.AddEdge(START, "b")
	_ = g.AddEdge("a", END)
	_ = g.AddEdge("b", END)
	var r Runnable[map[string]any, map[string]any]
	var err error
	pathA, pathB := NewNodePath("a"), NewNodePath("b")
	if nested {
		outer := NewGraph[map[string]any, map[string]any]()
		_ = outer.AddGraphNode("sub", g, WithNodeName("SUB"))
		_ = outer.AddEdge(START, "sub")
		_ = outer.AddEdge("sub", END)
		r, err = outer.Compile(ctx, WithGraphName("G"))
		pathA, pathB = NewNodePath("sub", "a"), NewNodePath("sub", "b")
	} else {
		r, err = g.Compile(ctx, WithGraphName("G"))
	}
	vassert(err == nil, "graph compiles")
	var opts []Option
	hs := []string{"h1", "h2", "h3"}[:ng]
	for _, id := range hs {
		opts = append(opts, WithCallbacks(&c10Rec{id: id, evs: &evs, closeOut: id == "h2"}))
	}
	opts = append(opts, WithCallbacks(&c10Rec{id: "hA", evs: &evs}).DesignateNodeWithPath(pathA))
	opts = append(opts, WithCallbacks(&c10Rec{id: "hB", evs: &evs, closeOut: true}).DesignateNodeWithPath(pathB))
	x := vsymInt("x")
	in := map[string]any{"in": x}
	var out map[string]any
	var rerr error
	if stream {
		sr, e := r.Stream(ctx, in, opts...)
		if e != nil {
			rerr = e
		} else {
			out, rerr = vDrainMap(sr)
		}
	} else {
		out, rerr = r.Invoke(ctx, in, opts...)
	}
	vassert(rerr == nil, "run succeeds")
	want := map[string]any{"a": vsymUF("f_a", vFold(in)), "b": vsymUF("f_b", vFold(in))}
	vassert(vMapEq(out, want), "handlers reading or closing their stream copies do not disturb the data flowing through the graph")
	vquiesce()
	units := []string{"G", "A", "B"}
	if nested {
		units = append(units, "SUB")
	}
	for _, id := range hs {
		for _, u := range units {
			vassert(c10Count(evs, id, "start", u) == 1, "undesignated handler "+id+": exactly one start for unit "+u)
			vassert(c10Count(evs, id, "end", u) == 1, "undesignated handler "+id+": exactly one end for unit "+u)
		}
	}
	vassert(c10Count(evs, "hA", "start", "A") == 1 && c10Count(evs, "hA", "end", "A") == 1, "handler designated to node A: exactly one start and one end for A")
	vassert(c10Count(evs, "hB", "start", "B") == 1 && c10Count(evs, "hB", "end", "B") == 1, "handler designated to node B: exactly one start and one end for B")
	for _, e := range evs {
		if e.h == "hA" {
			vassert(e.name == "A", "a handler designated to node A is never invoked for another unit ("+e.kind+" of "+e.name+")")
		}
		if e.h == "hB" {
			vassert(e.name == "B", "a handler designated to node B is never invoked for another unit ("+e.kind+" of "+e.name+")")
		}
	}
}

func VerifC10Par0()       { c10Parallel(0, false, false) }
func VerifC10Par1()       { c10Parallel(1, false, false) }
func VerifC10Par3()       { c10Parallel(3, false, false) }
func VerifC10Par3Stream() { c10Parallel(3, true, false) }
func VerifC10Par2Nested() { c10Parallel(2, false, true) }

// one option designated to several paths, some naming the same node twice; a failing node
func VerifC10Designate() {
	ctx := context.Background()
	vcfg("fifo", 1)
	var evs []c10Ev
	failB := vchoose("failB", 2) == 1
	g := NewGraph[map[string]any, map[string]any]()
	_ = g.AddLambdaNode("a", vNode("a", nil), WithNodeName("A"))
	_ = g.AddLambdaNode("b", InvokableLambda(func(ctx context.Context, in map[string]any) (map[string]any, error) {
		if failB {
			return nil, c03Err10
		}
		return map[string]any{"b": vsymUF("f_b", vFold(in))}, nil
	}), WithNodeName("B"))
	_ = g.AddEdge(START, "a")
	_ = g.AddEdge("a", "b")
	_ = g.AddEdge("b", END)
	r, err := g.Compile(ctx, WithGraphName("G"))
	vassert(err == nil, "graph compiles")
	opt := WithCallbacks(&c10Rec{id: "h", evs: &evs})
	switch vchoose("designation", 3) {
	case 0:
		opt = opt.DesignateNode("a", "b")
	case 1:
		opt = opt.DesignateNode("a", "b").DesignateNodeWithPath(NewNodePath("a"))
	case 2:
		opt = opt.DesignateNode("a").DesignateNode("b", "a")
	}
	_, rerr := r.Invoke(ctx, map[string]any{"in": vsymInt("x")}, opt, WithCallbacks(&c10Rec{id: "g", evs: &evs}))
	vassert((rerr != nil) == failB, "run fails exactly when node b fails")
	for _, u := range []string{"A", "B"} {
		vassert(c10Count(evs, "h", "start", u) == 1, "designated handler: exactly one start for "+u+" however often the option names it")
		vassert(c10Count(evs, "h", "end", u) == 1, "designated handler: exactly one end/error for "+u)
	}
	vassert(c10Count(evs, "h", "start", "G") == 0, "designated handler is not invoked for the graph itself")
	for _, u := range []string{"G", "A", "B"} {
		vassert(c10Count(evs, "g", "start", u) == 1 && c10Count(evs, "g", "end", u) == 1, "undesignated handler: one start and one end/error for "+u)
	}
}

var c03Err10 = errC10{}

type errC10 struct{}

func (errC10) Error() string { return "c10 node error" }

// a node body that starts an inner execution unit of its own without handlers: the node's handlers must not
// fire again for (or on behalf of) the inner unit
func VerifC10Detach() {
	ctx := context.Background()
	vcfg("fifo", 1)
	var evs []c10Ev
	withInner := vchoose("innerHandler", 2) == 1
	g := NewGraph[map[string]any, map[string]any]()
	_ = g.AddLambdaNode("a", InvokableLambda(func(ctx context.Context, in map[string]any) (map[string]any, error) {
		var ictx context.Context
		if withInner {
			ictx = callbacks.InitCallbacks(ctx, &callbacks.RunInfo{Name: "inner"}, &c10Rec{id: "hi", evs: &evs})
		} else {
			ictx = callbacks.InitCallbacks(ctx, &callbacks.RunInfo{Name: "inner"})
		}
		ictx = callbacks.OnStart(ictx, 1)
		callbacks.OnEnd(ictx, 2)
		return map[string]any{"a": vsymUF("f_a", vFold(in))}, nil
	}), WithNodeName("A"))
	_ = g.AddEdge(START, "a")
	_ = g.AddEdge("a", END)
	r, err := g.Compile(ctx, WithGraphName("G"))
	vassert(err == nil, "graph compiles")
	_, rerr := r.Invoke(ctx, map[string]any{"in": vsymInt("x")}, WithCallbacks(&c10Rec{id: "g", evs: &evs}))
	vassert(rerr == nil, "run succeeds")
	for _, u := range []string{"G", "A"} {
		vassert(c10Count(evs, "g", "start", u) == 1 && c10Count(evs, "g", "end", u) == 1, "run handler: exactly one start and one end for "+u+" although the node body runs an inner unit")
	}
	vassert(c10Count(evs, "g", "start", "inner") == 0 && c10Count(evs, "g", "end", "inner") == 0, "run handler is not invoked for a unit initialised without it")
	if withInner {
		vassert(c10Count(evs, "hi", "start", "inner") == 1 && c10Count(evs, "hi", "end", "inner") == 1, "inner unit's own handler fires once for it")
	}
}

// a node that hands on the rest of a partly read stream: attaching a handler (which gets its own copy of the
// stream payloads) must not change what flows through the graph, and the handler sees exactly the node's output
func VerifC10PartialStream() {
	ctx := context.Background()
	vcfg("fifo", 1)
	vcfg("selectfirst", 1)
	withHandler := vchoose("handler", 2) == 1
	g := NewGraph[string, string]()
	_ = g.AddLambdaNode("src", StreamableLambda(func(ctx context.Context, in string) (*schema.StreamReader[string], error) {
		return schema.StreamReaderFromArray([]string{"header", "a", "b"}), nil
	}))
	_ = g.AddLambdaNode("strip", TransformableLambda(func(ctx context.Context, in *schema.StreamReader[string]) (*schema.StreamReader[string], error) {
		_, _ = in.Recv()
		return in, nil
	}), WithNodeName("STRIP"))
	_ = g.AddEdge(START, "src")
	_ = g.AddEdge("src", "strip")
	_ = g.AddEdge("strip", END)
	r, err := g.Compile(ctx)
	vassert(err == nil, "graph compiles")
	seen := ""
	var opts []Option
	if withHandler {
		h := callbacks.NewHandlerBuilder().OnEndWithStreamOutputFn(func(ctx context.Context, info *callbacks.RunInfo, out *schema.StreamReader[callbacks.CallbackOutput]) context.Context {
			defer out.Close()
			for i := 0; i < 8; i++ {
				c, err := out.Recv()
				if err != nil {
					break
				}
				if info.Name == "STRIP" {
					s, _ := c.(string)
					seen += s
				}
			}
			return ctx
		}).Build()
		opts = append(opts, WithCallbacks(h))
	}
	sr, e := r.Stream(ctx, "go", opts...)
	vassert(e == nil, "stream run starts")
	got := ""
	for i := 0; i < 8; i++ {
		c, err := sr.Recv()
		if err != nil {
			break
		}
		got += c
	}
	sr.Close()
	vassert(got == "ab", "stream payload copies handed to handlers do not disturb the data flowing through the graph")
	if withHandler {
		vassert(seen == "ab", "the handler receives the payload the unit produced")
	}
}

type c10Store struct{ m map[string][]byte }

func (s *c10Store) Get(ctx context.Context, id string) ([]byte, bool, error) {
	b, ok := s.m[id]
	return b, ok, nil
}
func (s *c10Store) Set(ctx context.Context, id string, b []byte) error {
	s.m[id] = append([]byte{}, b...)
	return nil
}

// Runs that leave the run loop in its entry step (a failing START branch, a START branch straight to END, an
// interrupt-before on the first node, and the resumed run): the graph-level handler still hears exactly one start and
// one end per run, in every paradigm.
func VerifC10EarlyExit() {
	ctx := context.Background()
	vcfg("fifo", 1)
	vcfg("selectfirst", 1)
	var evs []c10Ev
	kind := vchoose("exit", 4) // 0 normal, 1 START branch fails, 2 START branch -> END, 3 interrupt before the first node
	g := NewGraph[map[string]any, map[string]any]()
	_ = g.AddLambdaNode("a", InvokableLambda(func(ctx context.Context, in map[string]any) (map[string]any, error) {
		return map[string]any{"a": 1}, nil
	}), WithNodeName("A"))
	_ = g.AddBranch(START, NewGraphBranch(func(ctx context.Context, in map[string]any) (string, error) {
		switch kind {
		case 1:
			return "", c10Err
		case 2:
			return END, nil
		}
		return "a", nil
	}, map[string]bool{"a": true, END: true}))
	_ = g.AddEdge("a", END)
	copts := []GraphCompileOption{WithGraphName("G")}
	store := &c10Store{m: map[string][]byte{}}
	if kind == 3 {
		copts = append(copts, WithCheckPointStore(store), WithInterruptBeforeNodes([]string{"a"}))
	}
	r, err := g.Compile(ctx, copts...)
	vassert(err == nil, "graph compiles")
	mode := vchoose("paradigm", 3)
	run := func(tag string) error {
		opts := []Option{WithCallbacks(&c10Rec{id: tag, evs: &evs})}
		if kind == 3 {
			opts = append(opts, WithCheckPointID("c10"))
		}
		in := map[string]any{"in": 1}
		switch mode {
		case 0:
			_, e := r.Invoke(ctx, in, opts...)
			return e
		case 1:
			sr, e := r.Stream(ctx, in, opts...)
			if e != nil {
				return e
			}
			for i := 0; i < 4; i++ {
				if _, e := sr.Recv(); e != nil {
					break
				}
			}
			sr.Close()
			return nil
		default:
			sr, e := r.Transform(ctx, schema.StreamReaderFromArray([]map[string]any{in}), opts...)
			if e != nil {
				return e
			}
			for i := 0; i < 4; i++ {
				if _, e := sr.Recv(); e != nil {
					break
				}
			}
			sr.Close()
			return nil
		}
	}
	e1 := run("h1")
	vquiesce()
	switch kind {
	case 0, 2:
		vassert(e1 == nil, "run succeeds")
	case 1:
		vassert(e1 != nil, "a failing START branch fails the run")
	case 3:
		_, isInt := ExtractInterruptInfo(e1)
		vassert(isInt, "the first node is interrupted before it starts")
	}
	vassert(c10Count(evs, "h1", "start", "G") == 1, "graph-level handler: exactly one start for the run, however early the run loop is left")
	vassert(c10Count(evs, "h1", "end", "G") == 1, "graph-level handler: exactly one end (or error) for the run, however early the run loop is left")
	wantA := 0
	if kind == 0 {
		wantA = 1
	}
	vassert(c10Count(evs, "h1", "start", "A") == wantA && c10Count(evs, "h1", "end", "A") == wantA, "node-level events only for a node that ran")
	if kind == 3 {
		e2 := run("h2")
		vquiesce()
		vassert(e2 == nil, "the resumed run succeeds")
		vassert(c10Count(evs, "h2", "start", "G") == 1 && c10Count(evs, "h2", "end", "G") == 1, "resumed run: exactly one graph start and end")
		vassert(c10Count(evs, "h2", "start", "A") == 1 && c10Count(evs, "h2", "end", "A") == 1, "resumed run: exactly one start and end for the node")
		vassert(c10Count(evs, "h1", "start", "G") == 1 && c10Count(evs, "h1", "start", "A") == 0, "the first call's handler hears nothing of the second call")
	}
}

// One callbacks option designated to several paths (top-level and nested, in any order, by one or two Designate
// calls): the handler fires exactly once per start/end for each designated node and for no other.
func VerifC10MultiPath() {
	ctx := context.Background()
	vcfg("fifo", 1)
	vcfg("selectfirst", 1)
	vcfgAppendCapIn("extractOption")
	var evs []c10Ev
	body := func(key string) *Lambda {
		return InvokableLambda(func(ctx context.Context, in map[string]any) (map[string]any, error) {
			return map[string]any{key: 1}, nil
		})
	}
	sub := NewGraph[map[string]any, map[string]any]()
	_ = sub.AddLambdaNode("x", body("x"), WithNodeName("X"))
	_ = sub.AddLambdaNode("y", body("y"), WithNodeName("Y"))
	_ = sub.AddEdge(START, "x")
	_ = sub.AddEdge("x", "y")
	_ = sub.AddEdge("y", END)
	g := NewGraph[map[string]any, map[string]any]()
	_ = g.AddLambdaNode("a", body("a"), WithNodeName("A"))
	_ = g.AddLambdaNode("b", body("b"), WithNodeName("B"))
	_ = g.AddGraphNode("sub", sub, WithNodeName("SUB"))
	_ = g.AddEdge(START, "a")
	_ = g.AddEdge("a", "sub")
	_ = g.AddEdge("sub", "b")
	_ = g.AddEdge("b", END)
	r, err := g.Compile(ctx, WithGraphName("G"))
	vassert(err == nil, "graph compiles")
	// candidate designations: a, b, sub/x, sub/y; a subset of 2-3 of them in any order
	cands := []*NodePath{NewNodePath("a"), NewNodePath("b"), NewNodePath("sub", "x"), NewNodePath("sub", "y")}
	names := []string{"A", "B", "X", "Y"}
	var sel []int
	used := map[int]bool{}
	n := 2 + vchoose("n", 2)
	for i := 0; i < n; i++ {
		k := vchoose("path", len(cands))
		if used[k] {
			return
		}
		used[k] = true
		sel = append(sel, k)
	}
	opt := WithCallbacks(&c10Rec{id: "h", evs: &evs})
	if vchoose("split", 2) == 1 {
		opt = opt.DesignateNodeWithPath(cands[sel[0]])
		var rest []*NodePath
		for _, k := range sel[1:] {
			rest = append(rest, cands[k])
		}
		opt = opt.DesignateNodeWithPath(rest...)
	} else {
		var all []*NodePath
		for _, k := range sel {
			all = append(all, cands[k])
		}
		opt = opt.DesignateNodeWithPath(all...)
	}
	var rerr error
	if vchoose("stream", 2) == 1 {
		sr, e := r.Stream(ctx, map[string]any{"in": 1}, opt)
		rerr = e
		if e == nil {
			for i := 0; i < 4; i++ {
				if _, e := sr.Recv(); e != nil {
					break
				}
			}
			sr.Close()
		}
	} else {
		_, rerr = r.Invoke(ctx, map[string]any{"in": 1}, opt)
	}
	vquiesce()
	vassert(rerr == nil, "run with a multi-path designation succeeds")
	for k, nm := range names {
		want := 0
		if used[k] {
			want = 1
		}
		vassert(c10Count(evs, "h", "start", nm) == want && c10Count(evs, "h", "end", nm) == want,
			"a handler designated to several paths fires exactly once per start/end for each designated node and never for another: "+nm)
	}
	vassert(c10Count(evs, "h", "start", "G") == 0 && c10Count(evs, "h", "start", "SUB") == 0, "and not for the graphs")
}

// Two overlapping calls that share one callbacks option (its handler list built with append, so with spare capacity)
// and add a handler of their own in a second option: each call's own handler hears exactly its own run.
func VerifC10SharedOption() {
	ctx := context.Background()
	vcfg("delaybound", 1+vtier())
	vcfg("race", 1)
	var evs []c10Ev
	g := NewGraph[map[string]any, map[string]any]()
	_ = g.AddLambdaNode("a", InvokableLambda(func(ctx context.Context, in map[string]any) (map[string]any, error) {
		vyield()
		return in, nil
	}), WithNodeName("A"))
	_ = g.AddEdge(START, "a")
	_ = g.AddEdge("a", END)
	r, err := g.Compile(ctx, WithGraphName("G"))
	vassert(err == nil, "graph compiles")
	var hs []callbacks.Handler
	for _, id := range []string{"s1", "s2", "s3"} {
		hs = append(hs, &c10Rec{id: id, evs: &evs})
	}
	shared := WithCallbacks(hs...)
	call := func(own string) error {
		_, e := r.Invoke(ctx, map[string]any{"in": 1}, shared, WithCallbacks(&c10Rec{id: own, evs: &evs}))
		return e
	}
	var e2 error
	go func() { e2 = call("own2") }()
	e1 := call("own1")
	vquiesce()
	vassert(e1 == nil && e2 == nil, "both calls succeed")
	for _, own := range []string{"own1", "own2"} {
		vassert(c10Count(evs, own, "start", "G") == 1 && c10Count(evs, own, "end", "G") == 1, "a call's own handler hears exactly one graph start and one graph end: its own")
		vassert(c10Count(evs, own, "start", "A") == 1 && c10Count(evs, own, "end", "A") == 1, "and exactly one start and end of the node")
	}
	for _, id := range []string{"s1", "s2", "s3"} {
		vassert(c10Count(evs, id, "start", "G") == 2 && c10Count(evs, id, "end", "G") == 2, "the shared handlers hear both runs")
	}
}

type c10Tool struct{ name string }

func (t *c10Tool) Info(ctx context.Context) (*schema.ToolInfo, error) {
	return &schema.ToolInfo{Name: t.name}, nil
}
func (t *c10Tool) InvokableRun(ctx context.Context, args string, opts ...tool.Option) (string, error) {
	return t.name + "(" + args + ")", nil
}

// Tool calls are execution units of their own: a handler registered globally and the same kind of handler passed per
// call hear the same events — one start and one end per tool call, per node and per graph.
func VerifC10ToolCalls() {
	ctx := context.Background()
	vcfg("fifo", 1)
	vcfg("selectfirst", 1)
	var evs []c10Ev
	callbacks.InitCallbackHandlers([]callbacks.Handler{&c10Rec{id: "global", evs: &evs}})
	// "ghost" is not a configured tool: its calls are answered by the unknown-tool handler and are tool calls like any other
	tn, err := NewToolNode(ctx, &ToolsNodeConfig{Tools: []tool.BaseTool{&c10Tool{"t0"}, &c10Tool{"t1"}},
		UnknownToolsHandler: func(ctx context.Context, name, input string) (string, error) { return "unknown(" + input + ")", nil }})
	vassert(err == nil, "tools node is created")
	g := NewGraph[*schema.Message, []*schema.Message]()
	_ = g.AddToolsNode("tools", tn, WithNodeName("TOOLS"))
	_ = g.AddEdge(START, "tools")
	_ = g.AddEdge("tools", END)
	r, err := g.Compile(ctx, WithGraphName("G"))
	vassert(err == nil, "graph compiles")
	n := 1 + vchoose("calls", 3)
	msg := &schema.Message{Role: schema.Assistant}
	want := map[string]int{}
	for i := 0; i < n; i++ {
		name := []string{"t0", "t1", "ghost"}[vchoose("tool", 3)]
		msg.ToolCalls = append(msg.ToolCalls, schema.ToolCall{ID: []string{"c0", "c1", "c2"}[i], Function: schema.FunctionCall{Name: name, Arguments: "x"}})
		want[name]++
	}
	opt := WithCallbacks(&c10Rec{id: "percall", evs: &evs})
	var rerr error
	if vchoose("stream", 2) == 1 {
		sr, e := r.Stream(ctx, msg, opt)
		rerr = e
		if e == nil {
			for i := 0; i < 8; i++ {
				if _, e := sr.Recv(); e != nil {
					break
				}
			}
			sr.Close()
		}
	} else {
		_, rerr = r.Invoke(ctx, msg, opt)
	}
	callbacks.InitCallbackHandlers(nil)
	vquiesce()
	vassert(rerr == nil, "run succeeds")
	for _, h := range []string{"global", "percall"} {
		for _, name := range []string{"t0", "t1", "ghost"} {
			vassert(c10Count(evs, h, "start", name) == want[name] && c10Count(evs, h, "end", name) == want[name], "handler "+h+": one start and one end per call of tool "+name)
		}
		vassert(c10Count(evs, h, "start", "TOOLS") == 1 && c10Count(evs, h, "end", "TOOLS") == 1, "handler "+h+": one start and one end for the tools node")
		vassert(c10Count(evs, h, "start", "G") == 1 && c10Count(evs, h, "end", "G") == 1, "handler "+h+": one start and one end for the graph")
	}
}

// A node whose body panics (or fails) is an execution unit like any other: its handlers hear one start and one end
// (the error), and so do the graph-level handlers, in Invoke and Stream
func VerifC10FailingNode() {
	ctx := context.Background()
	vcfg("fifo", 1)
	vcfg("selectfirst", 1)
	var evs []c10Ev
	how := vchoose("how", 2) // 0 returns an error, 1 panics
	native := vchoose("native", 2)
	var node *Lambda
	if native == 0 {
		node = InvokableLambda(func(ctx context.Context, in map[string]any) (map[string]any, error) {
			if how == 1 {
				panic("c10 node panic")
			}
			return nil, c10Err
		})
	} else {
		node = StreamableLambda(func(ctx context.Context, in map[string]any) (*schema.StreamReader[map[string]any], error) {
			if how == 1 {
				panic("c10 node panic")
			}
			return nil, c10Err
		})
	}
	g := NewGraph[map[string]any, map[string]any]()
	_ = g.AddLambdaNode("a", node, WithNodeName("A"))
	_ = g.AddEdge(START, "a")
	_ = g.AddEdge("a", END)
	r, err := g.Compile(ctx, WithGraphName("G"))
	vassert(err == nil, "graph compiles")
	opt := WithCallbacks(&c10Rec{id: "h", evs: &evs})
	var rerr error
	if vchoose("stream", 2) == 1 {
		sr, e := r.Stream(ctx, map[string]any{"in": 1}, opt)
		rerr = e
		if e == nil {
			for i := 0; i < 4; i++ {
				if _, e := sr.Recv(); e != nil {
					if e != io.EOF {
						rerr = e
					}
					break
				}
			}
			sr.Close()
		}
	} else {
		_, rerr = r.Invoke(ctx, map[string]any{"in": 1}, opt)
	}
	vquiesce()
	vassert(rerr != nil, "the run fails")
	vassert(c10Count(evs, "h", "start", "A") == 1 && c10Count(evs, "h", "end", "A") == 1, "a failing or panicking node: exactly one start and one end (error) for the node")
	vassert(c10Count(evs, "h", "start", "G") == 1 && c10Count(evs, "h", "end", "G") == 1, "a failing or panicking node: exactly one start and one end (error) for the graph")
}

// a handler that only listens to the start timings, or only to the end timings (TimingChecker)
type c10Timed struct {
	c10Rec
	starts, ends bool
}

func (h *c10Timed) Needed(ctx context.Context, info *callbacks.RunInfo, timing callbacks.CallbackTiming) bool {
	switch timing {
	case callbacks.TimingOnStart, callbacks.TimingOnStartWithStreamInput:
		return h.starts
	}
	return h.ends
}

// All four paradigms, handlers with timing filters (one hears only ends, one only starts, one everything) passed in
// one option or in separate options, with or without a global handler: every handler hears exactly the timings it
// asked for, once per unit (graph G, nodes A and B), in every paradigm; append capacities nondeterministic.
func VerifC10Paradigms() {
	ctx := context.Background()
	vcfg("fifo", 1)
	vcfg("selectfirst", 1)
	vcfgAppendCapIn("initGraphCallbacks")
	vcfgAppendCapIn("initNodeCallbacks")
	vcfgAppendCapIn("AppendHandlers")
	var evs []c10Ev
	body := func(key string) *Lambda {
		return InvokableLambda(func(ctx context.Context, in map[string]any) (map[string]any, error) {
			return map[string]any{key: vsymUF("f_"+key, vFold(in))}, nil
		})
	}
	g := NewGraph[map[string]any, map[string]any]()
	_ = g.AddLambdaNode("a", body("a"), WithNodeName("A"))
	_ = g.AddLambdaNode("b", body("b"), WithNodeName("B"))
	_ = g.AddEdge(START, "a")
	_ = g.AddEdge("a", "b")
	_ = g.AddEdge("b", END)
	r, err := g.Compile(ctx, WithGraphName("G"))
	vassert(err == nil, "graph compiles")
	withGlobal := vchoose("global", 2) == 1
	if withGlobal {
		callbacks.InitCallbackHandlers([]callbacks.Handler{&c10Rec{id: "hg", evs: &evs, closeOut: true}})
		defer callbacks.InitCallbackHandlers(nil)
	}
	t1 := &c10Timed{c10Rec{id: "t1", evs: &evs, closeOut: true}, false, true}
	t2 := &c10Timed{c10Rec{id: "t2", evs: &evs, closeOut: true}, true, false}
	h3 := &c10Rec{id: "h3", evs: &evs, closeOut: true}
	var opts []Option
	if vchoose("separate", 2) == 1 {
		opts = []Option{WithCallbacks(t1), WithCallbacks(t2), WithCallbacks(h3)}
	} else {
		opts = []Option{WithCallbacks(t1, t2, h3)}
	}
	x := vsymInt("x")
	in := map[string]any{"in": x}
	var out map[string]any
	var rerr error
	paradigm := vchoose("paradigm", 4)
	switch paradigm {
	case 0:
		out, rerr = r.Invoke(ctx, in, opts...)
	case 1:
		sr, e := r.Stream(ctx, in, opts...)
		rerr = e
		if e == nil {
			out, rerr = vDrainMap(sr)
		}
	case 2:
		out, rerr = r.Collect(ctx, schema.StreamReaderFromArray([]map[string]any{in}), opts...)
	case 3:
		sr, e := r.Transform(ctx, schema.StreamReaderFromArray([]map[string]any{in}), opts...)
		rerr = e
		if e == nil {
			out, rerr = vDrainMap(sr)
		}
	}
	vassert(rerr == nil, "run succeeds")
	a := vsymUF("f_a", vFold(in))
	vassert(vMapEq(out, map[string]any{"b": vsymUF("f_b", vFold(map[string]any{"a": a}))}), "the result is unaffected by the handlers")
	vquiesce()
	for _, u := range []string{"G", "A", "B"} {
		vassert(c10Count(evs, "t1", "start", u) == 0 && c10Count(evs, "t1", "end", u) == 1, "a handler that asked for the end timings only hears exactly one end of unit "+u)
		vassert(c10Count(evs, "t2", "start", u) == 1 && c10Count(evs, "t2", "end", u) == 0, "a handler that asked for the start timings only hears exactly one start of unit "+u)
		vassert(c10Count(evs, "h3", "start", u) == 1 && c10Count(evs, "h3", "end", u) == 1, "an unfiltered handler hears exactly one start and one end of unit "+u)
		if withGlobal {
			vassert(c10Count(evs, "hg", "start", u) == 1 && c10Count(evs, "hg", "end", u) == 1, "the global handler hears exactly one start and one end of unit "+u)
		}
	}
}

// A component developer initialises the callbacks of two units from one common handler list that has spare capacity
// (unit A: [common], unit B: [common, extra]) while a global handler is registered. Firing the callbacks of one unit,
// one after the other or at the same time, never changes which handlers the other unit reports to, and is not a data
// race in framework code.
func VerifC10SharedHandlerList() {
	vcfg("preempt", 2)
	var evs []c10Ev
	callbacks.InitCallbackHandlers([]callbacks.Handler{&c10Rec{id: "hg", evs: &evs}})
	defer callbacks.InitCallbackHandlers(nil)
	common := make([]callbacks.Handler, 0, 4)
	common = append(common, &c10Rec{id: "common", evs: &evs})
	ctxA := callbacks.InitCallbacks(context.Background(), &callbacks.RunInfo{Name: "A"}, common...)
	ctxB := callbacks.InitCallbacks(context.Background(), &callbacks.RunInfo{Name: "B"}, append(common, &c10Rec{id: "extra", evs: &evs})...)
	if vchoose("concurrent", 2) == 1 {
		done := make(chan struct{})
		go func() {
			callbacks.OnStart(ctxA, "a")
			callbacks.OnEnd(ctxA, "a")
			close(done)
		}()
		callbacks.OnStart(ctxB, "b")
		callbacks.OnEnd(ctxB, "b")
		<-done
	} else {
		callbacks.OnStart(ctxA, "a")
		callbacks.OnStart(ctxB, "b")
		callbacks.OnEnd(ctxA, "a")
		callbacks.OnEnd(ctxB, "b")
	}
	for _, k := range []string{"start", "end"} {
		vassert(c10Count(evs, "common", k, "A") == 1 && c10Count(evs, "hg", k, "A") == 1 && c10Count(evs, "extra", k, "A") == 0, "unit A reports each "+k+" once to its own handler and to the global one")
		vassert(c10Count(evs, "common", k, "B") == 1 && c10Count(evs, "extra", k, "B") == 1 && c10Count(evs, "hg", k, "B") == 1, "unit B reports each "+k+" once to both of its handlers and to the global one")
	}
}

// One *Lambda value added to a graph under two keys (and to a second graph compiled later): every node execution
// reports the run info of its own node.
func VerifC10SharedLambda() {
	ctx := context.Background()
	vcfg("fifo", 1)
	var evs []c10Ev
	l := InvokableLambda(func(ctx context.Context, in map[string]any) (map[string]any, error) {
		return map[string]any{"v": vsymUF("f", vFold(in))}, nil
	})
	g := NewGraph[map[string]any, map[string]any]()
	_ = g.AddLambdaNode("a", l, WithNodeName("A"))
	_ = g.AddLambdaNode("b", l, WithNodeName("B"))
	_ = g.AddEdge(START, "a")
	_ = g.AddEdge("a", "b")
	_ = g.AddEdge("b", END)
	r, err := g.Compile(ctx, WithGraphName("G"))
	vassert(err == nil, "graph compiles")
	if vchoose("second", 2) == 1 { // the same lambda in another graph compiled afterwards
		g2 := NewGraph[map[string]any, map[string]any]()
		_ = g2.AddLambdaNode("c", l, WithNodeName("C"))
		_ = g2.AddEdge(START, "c")
		_ = g2.AddEdge("c", END)
		_, err = g2.Compile(ctx, WithGraphName("G2"))
		vassert(err == nil, "second graph compiles")
	}
	_, rerr := r.Invoke(ctx, map[string]any{"in": vsymInt("x")}, WithCallbacks(&c10Rec{id: "h", evs: &evs}))
	vassert(rerr == nil, "run succeeds")
	for _, u := range []string{"G", "A", "B"} {
		vassert(c10Count(evs, "h", "start", u) == 1 && c10Count(evs, "h", "end", u) == 1, "exactly one start and one end reported for unit "+u+" under its own name")
	}
	vassert(c10Count(evs, "h", "start", "C") == 0, "nothing is reported under the name of a node of another graph")
}

// thorough tier: three undesignated handlers, nested graph, streaming
func VerifC10Par3NestedStream() { c10Parallel(3, true, true) }

// a recorder that keeps errors apart from ordinary ends
type c10RecE struct{ c10Rec }

func (h *c10RecE) OnError(ctx context.Context, info *callbacks.RunInfo, err error) context.Context {
	h.add("error", info)
	return ctx
}

type c10PS struct{ N int }

// User code that runs on the run loop itself (a state pre-handler, a branch condition) panics: the run fails, and the
// graph's handlers hear one start and one error for the graph - not an ordinary end, and not nothing; Invoke and Stream.
func VerifC10RunLoopPanic() {
	ctx := context.Background()
	vcfg("fifo", 1)
	vcfg("selectfirst", 1)
	var evs []c10Ev
	where := vchoose("where", 2)
	g := NewGraph[map[string]any, map[string]any](WithGenLocalState(func(ctx context.Context) *c10PS { return &c10PS{} }))
	body := InvokableLambda(func(ctx context.Context, in map[string]any) (map[string]any, error) { return in, nil })
	if where == 0 {
		_ = g.AddLambdaNode("a", body, WithNodeName("A"), WithStatePreHandler(func(ctx context.Context, in map[string]any, s *c10PS) (map[string]any, error) {
			panic("c10 pre-handler panic")
		}))
	} else {
		_ = g.AddLambdaNode("a", body, WithNodeName("A"))
	}
	_ = g.AddLambdaNode("b", body, WithNodeName("B"))
	_ = g.AddEdge(START, "a")
	if where == 1 {
		_ = g.AddBranch("a", NewGraphBranch(func(ctx context.Context, in map[string]any) (string, error) {
			panic("c10 branch condition panic")
		}, map[string]bool{"b": true, END: true}))
	} else {
		_ = g.AddEdge("a", "b")
	}
	_ = g.AddEdge("b", END)
	r, err := g.Compile(ctx, WithGraphName("G"))
	vassert(err == nil, "graph compiles")
	opt := WithCallbacks(&c10RecE{c10Rec{id: "h", evs: &evs, closeOut: true}})
	var rerr error
	if vchoose("stream", 2) == 1 {
		sr, e := r.Stream(ctx, map[string]any{"in": 1}, opt)
		rerr = e
		if e == nil {
			_, rerr = sr.Recv()
			sr.Close()
		}
	} else {
		_, rerr = r.Invoke(ctx, map[string]any{"in": 1}, opt)
	}
	vquiesce()
	vassert(rerr != nil, "the run fails")
	vassert(c10Count(evs, "h", "start", "G") == 1, "the graph's handler hears exactly one start for the graph")
	vassert(c10Count(evs, "h", "error", "G") == 1 && c10Count(evs, "h", "end", "G") == 0, "and exactly one error (no ordinary end) for the graph")
}

// A handler designated twice to the same node - at the top level or inside a nested graph - still hears each execution
// of that node once.
func VerifC10DesignatedTwice() {
	ctx := context.Background()
	vcfg("fifo", 1)
	vcfg("selectfirst", 1)
	var evs []c10Ev
	body := InvokableLambda(func(ctx context.Context, in map[string]any) (map[string]any, error) { return in, nil })
	sub := NewGraph[map[string]any, map[string]any]()
	_ = sub.AddLambdaNode("x", body, WithNodeName("X"))
	_ = sub.AddEdge(START, "x")
	_ = sub.AddEdge("x", END)
	g := NewGraph[map[string]any, map[string]any]()
	_ = g.AddLambdaNode("l", body, WithNodeName("L"))
	_ = g.AddGraphNode("sub", sub, WithNodeName("SUB"))
	_ = g.AddEdge(START, "l")
	_ = g.AddEdge("l", "sub")
	_ = g.AddEdge("sub", END)
	r, err := g.Compile(ctx, WithGraphName("G"))
	vassert(err == nil, "graph compiles")
	h := &c10Rec{id: "h", evs: &evs}
	var opt Option
	unit := "L"
	if vchoose("nested", 2) == 1 {
		opt = WithCallbacks(h).DesignateNodeWithPath(NewNodePath("sub", "x"), NewNodePath("sub", "x"))
		unit = "X"
	} else {
		opt = WithCallbacks(h).DesignateNode("l", "l")
	}
	_, rerr := r.Invoke(ctx, map[string]any{"in": 1}, opt)
	vassert(rerr == nil, "run succeeds")
	vassert(c10Count(evs, "h", "start", unit) == 1 && c10Count(evs, "h", "end", unit) == 1, "a handler designated twice to one node hears its execution once")
	vassert(len(evs) == 2, "and nothing else")
}
