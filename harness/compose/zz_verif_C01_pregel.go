package compose

import (
	"context"
	"errors"
	"sort"

	"github.com/cloudwego/eino/schema"
)

// C01: Pregel (any-predecessor) runs follow lock-step superstep semantics and terminate.
//
// A graph description (vG) is built twice: as a real eino graph, and run by an independent reference
// superstep interpreter written from the property statement. Node bodies are uninterpreted functions of
// the folded input, branch outcomes are decision variables shared by both sides.

type vBranch struct {
	from    string
	targets []string
}

type vG struct {
	nodes    []string
	edges    [][2]string
	branches []vBranch
}

// branch outcomes: the k-th evaluation of branch b picks targets[decisions[b][k]]
type vDecider struct {
	g     *vG
	limit int // when > 0: evaluations number >= limit of any branch pick its last target (bounds cycles)
	taken map[int][]int
	cntR  map[int]int // evaluations seen by the real graph
	cntM  map[int]int // evaluations seen by the reference
}

func (d *vDecider) get(b, k int) int {
	if d.limit > 0 && k >= d.limit {
		return len(d.g.branches[b].targets) - 1
	}
	for len(d.taken[b]) <= k {
		d.taken[b] = append(d.taken[b], vrange("br", 0, len(d.g.branches[b].targets)-1))
	}
	return d.taken[b][k]
}

func (g *vG) build(log *vLog, d *vDecider) *Graph[map[string]any, map[string]any] {
	gr := NewGraph[map[string]any, map[string]any]()
	for _, n := range g.nodes {
		_ = gr.AddLambdaNode(n, vNode(n, log))
	}
	for _, e := range g.edges {
		_ = gr.AddEdge(e[0], e[1])
	}
	for bi, b := range g.branches {
		bi, b := bi, b
		ends := map[string]bool{}
		for _, t := range b.targets {
			ends[t] = true
		}
		_ = gr.AddBranch(b.from, NewGraphBranch(func(ctx context.Context, in map[string]any) (string, error) {
			k := d.cntR[bi]
			d.cntR[bi]++
			return b.targets[d.get(bi, k)], nil
		}, ends))
	}
	return gr
}

var errRefMaxSteps = errors.New("reference: exceeds max steps")
var errRefNoTasks = errors.New("reference: no tasks")

func vMergeRef(vals map[string]map[string]any) map[string]any {
	out := map[string]any{}
	for _, m := range vals {
		for k, v := range m {
			out[k] = v
		}
	}
	return out
}

// reference: lock-step supersteps.
func (g *vG) reference(in map[string]any, maxSteps int, log *vLog, d *vDecider) (map[string]any, error) {
	deliver := func(next map[string]map[string]map[string]any, from string, out map[string]any) {
		for _, e := range g.edges {
			if e[0] == from {
				if next[e[1]] == nil {
					next[e[1]] = map[string]map[string]any{}
				}
				next[e[1]][from] = out
			}
		}
		for bi, b := range g.branches {
			if b.from == from {
				k := d.cntM[bi]
				d.cntM[bi]++
				t := b.targets[d.get(bi, k)]
				if next[t] == nil {
					next[t] = map[string]map[string]any{}
				}
				next[t][from] = out
			}
		}
	}
	cur := map[string]map[string]map[string]any{}
	deliver(cur, START, in)
	for step := 0; ; step++ {
		if v, ok := cur[END]; ok {
			return vMergeRef(v), nil
		}
		if step >= maxSteps {
			return nil, errRefMaxSteps
		}
		if len(cur) == 0 {
			return nil, errRefNoTasks
		}
		next := map[string]map[string]map[string]any{}
		var keys []string
		for n := range cur {
			keys = append(keys, n)
		}
		sort.Strings(keys)
		for _, n := range keys {
			x := vFold(vMergeRef(cur[n]))
			log.execs = append(log.execs, vExec{n, x})
			deliver(next, n, map[string]any{n: vsymUF("f_"+n, x)})
		}
		cur = next
	}
}

func c01Check(g *vG, maxSteps int, useStream bool) { c01CheckRT(g, maxSteps, 0, useStream) }

// runtimeLimit > 0: the call passes WithRuntimeMaxSteps(runtimeLimit), which replaces the compiled limit for that run
func c01CheckRT(g *vG, maxSteps int, runtimeLimit int, useStream bool) {
	ctx := context.Background()
	vcfg("fifo", 1) // completion order is C03's subject; here one fixed order
	d := &vDecider{g: g, taken: map[int][]int{}, cntR: map[int]int{}, cntM: map[int]int{}}
	realLog, refLog := &vLog{}, &vLog{}
	gr := g.build(realLog, d)
	var r Runnable[map[string]any, map[string]any]
	var err error
	if maxSteps > 0 {
		r, err = gr.Compile(ctx, WithMaxRunSteps(maxSteps))
	} else {
		r, err = gr.Compile(ctx)
		maxSteps = len(g.nodes) + 10
	}
	vassume(err == nil)
	in := map[string]any{"in": vsymInt("x")}
	var out map[string]any
	var rerr error
	var callOpts []Option
	if runtimeLimit > 0 {
		callOpts = append(callOpts, WithRuntimeMaxSteps(runtimeLimit))
		maxSteps = runtimeLimit
	}
	if useStream {
		sr, e := r.Stream(ctx, in, callOpts...)
		if e != nil {
			rerr = e
		} else {
			out, rerr = vDrainMap(sr)
		}
	} else {
		out, rerr = r.Invoke(ctx, in, callOpts...)
	}
	want, werr := g.reference(in, maxSteps, refLog, d)
	if werr == errRefMaxSteps {
		vassert(rerr != nil && errors.Is(rerr, ErrExceedMaxSteps), "a run that needs more supersteps than the limit fails with ErrExceedMaxSteps")
	} else if werr == errRefNoTasks {
		vassert(rerr != nil, "a run that never reaches END fails")
	} else {
		vassert(rerr == nil, "run succeeds when the reference reaches END within the limit")
		vassert(vMapEq(out, want), "result equals the merged value delivered to END in the first step END receives one")
	}
	// every node: executed exactly as often as in the reference, each time on the merge of the values sent to it
	for _, n := range g.nodes {
		a, b := realLog.of(n), refLog.of(n)
		vassert(len(a) == len(b), "node "+n+" runs once per superstep in which it was sent a value (execution count)")
		for i := range a {
			vassert(a[i] == b[i], "node "+n+" runs on the merge of exactly the values sent to it in the previous step")
		}
	}
	vassert(len(realLog.execs) == len(refLog.execs), "no other node execution happens")
}

// ---- families

func VerifC01Chain() {
	k := vrange("k", 1, 3)
	names := []string{"a", "b", "c"}
	g := &vG{}
	prev := START
	for i := 0; i < k; i++ {
		g.nodes = append(g.nodes, names[i])
		g.edges = append(g.edges, [2]string{prev, names[i]})
		prev = names[i]
	}
	g.edges = append(g.edges, [2]string{prev, END})
	c01Check(g, 0, vchoose("stream", 2) == 1)
}

// fan-out / fan-in with optional extra edges (END reached at different depths, START feeding c directly ...)
func VerifC01Fan() {
	g := &vG{nodes: []string{"a", "b", "c"}, edges: [][2]string{{START, "a"}, {START, "b"}, {"a", "c"}, {"c", END}}}
	opt := [][2]string{{"b", "c"}, {"b", END}, {START, "c"}, {"a", END}}
	for _, e := range opt {
		if vchoose("edge", 2) == 1 {
			g.edges = append(g.edges, e)
		}
	}
	c01Check(g, 0, vchoose("stream", 2) == 1)
}

func VerifC01Branch() {
	// START->a ; a -(branch)-> b | c | END ; b->END ; c->d->END ; optional plain edge a->d
	g := &vG{nodes: []string{"a", "b", "c", "d"}, edges: [][2]string{{START, "a"}, {"b", END}, {"c", "d"}, {"d", END}},
		branches: []vBranch{{"a", []string{"b", "c", END}}}}
	if vchoose("edge", 2) == 1 {
		g.edges = append(g.edges, [2]string{"a", "d"})
	}
	c01Check(g, 0, vchoose("stream", 2) == 1)
}

func VerifC01TwoBranches() {
	// two branches on the same node plus a branch on START
	g := &vG{nodes: []string{"a", "b", "c"}, edges: [][2]string{{"b", END}, {"c", END}},
		branches: []vBranch{{START, []string{"a", "b"}}, {"a", []string{"b", "c"}}, {"a", []string{"c", END}}}}
	c01Check(g, 0, vchoose("stream", 2) == 1)
}

// a successor named twice for one completion (a plain edge and a branch, or two branches) next to further plain-edge
// successors declared before or after it: every successor receives the value exactly once
func VerifC01EdgeBranchDup() {
	g := &vG{nodes: []string{"x", "t", "u", "v"}, edges: [][2]string{{START, "x"}, {"t", END}, {"u", END}, {"v", END}},
		branches: []vBranch{{"x", []string{"t", "v"}}}}
	if vchoose("order", 2) == 0 {
		g.edges = append(g.edges, [2]string{"x", "t"}, [2]string{"x", "u"})
	} else {
		g.edges = append(g.edges, [2]string{"x", "u"}, [2]string{"x", "t"})
	}
	if vchoose("second", 2) == 1 {
		g.branches = append(g.branches, vBranch{"x", []string{"t", "u"}})
	}
	c01Check(g, 0, vchoose("stream", 2) == 1)
}

func VerifC01Cycle() {
	// START->a->b ; b -(branch)-> a | END  with a symbolic step limit
	g := &vG{nodes: []string{"a", "b"}, edges: [][2]string{{START, "a"}, {"a", "b"}},
		branches: []vBranch{{"b", []string{"a", END}}}}
	limit := vrange("limit", 1, 6)
	c01Check(g, limit, false)
}

// the same cycle with a per-call step limit (lower or higher than the compiled / default one), Invoke and Stream
func VerifC01CycleRuntimeLimit() {
	g := &vG{nodes: []string{"a", "b"}, edges: [][2]string{{START, "a"}, {"a", "b"}},
		branches: []vBranch{{"b", []string{"a", END}}}}
	compiled := []int{0, 2, 5}[vchoose("compiled", 3)] // 0: default limit (nodes+10)
	rt := []int{1, 3, 4, 7, 14}[vchoose("runtime", 5)]
	c01CheckRT(g, compiled, rt, vchoose("stream", 2) == 1)
}

func VerifC01CycleFan() {
	// cycle with a side node: START->a ; a->b ; a->c ; c->END is absent: b -(branch)-> a | d ; d->END ; c->d
	g := &vG{nodes: []string{"a", "b", "c", "d"}, edges: [][2]string{{START, "a"}, {"a", "b"}, {"a", "c"}, {"c", "d"}, {"d", END}},
		branches: []vBranch{{"b", []string{"a", "d"}}}}
	limit := vrange("limit", 2, 5)
	c01Check(g, limit, false)
}

// a graph used as a node behaves like the same graph compiled alone
func VerifC01Nested() {
	ctx := context.Background()
	vcfg("fifo", 1)
	mk := func(log *vLog, d *vDecider) (*vG, *Graph[map[string]any, map[string]any]) {
		g := &vG{nodes: []string{"a", "b", "c"}, edges: [][2]string{{START, "a"}, {"b", END}, {"c", END}},
			branches: []vBranch{{"a", []string{"b", "c"}}}}
		d.g = g
		return g, g.build(log, d)
	}
	d1 := &vDecider{taken: map[int][]int{}, cntR: map[int]int{}, cntM: map[int]int{}}
	logA, logN := &vLog{}, &vLog{}
	_, alone := mk(logA, d1)
	ra, err := alone.Compile(ctx)
	vassert(err == nil, "inner graph compiles alone")
	d2 := &vDecider{taken: d1.taken, cntR: map[int]int{}, cntM: map[int]int{}}
	_, inner := mk(logN, d2)
	outer := NewGraph[map[string]any, map[string]any]()
	_ = outer.AddLambdaNode("pre", InvokableLambda(func(ctx context.Context, in map[string]any) (map[string]any, error) { return in, nil }))
	_ = outer.AddGraphNode("sub", inner)
	_ = outer.AddEdge(START, "pre")
	_ = outer.AddEdge("pre", "sub")
	_ = outer.AddEdge("sub", END)
	ro, err := outer.Compile(ctx)
	vassert(err == nil, "outer graph compiles")
	in := map[string]any{"in": vsymInt("x")}
	o1, e1 := ra.Invoke(ctx, in)
	var o2 map[string]any
	var e2 error
	if vchoose("stream", 2) == 1 {
		sr, e := ro.Stream(ctx, in)
		if e != nil {
			e2 = e
		} else {
			o2, e2 = vDrainMap(sr)
		}
	} else {
		o2, e2 = ro.Invoke(ctx, in)
	}
	vassert(e1 == nil && e2 == nil, "both runs succeed")
	vassert(vMapEq(o1, o2), "a graph used as a node returns what the same graph returns alone")
	vassert(len(logA.execs) == len(logN.execs), "same node executions nested and alone")
	for i := range logA.execs {
		vassert(logA.execs[i].node == logN.execs[i].node && logA.execs[i].in == logN.execs[i].in, "same node inputs nested and alone")
	}
}

// Chain = sequential composition, parallel stages merged by output key, branch stage selects one stage
func VerifC01ChainAPI() {
	ctx := context.Background()
	vcfg("fifo", 1)
	log := &vLog{}
	ch := NewChain[map[string]any, map[string]any]()
	ch.AppendLambda(vNode("a", log))
	withPar := vchoose("par", 2) == 1
	if withPar {
		p := NewParallel()
		p.AddLambda("p1", InvokableLambda(func(ctx context.Context, in map[string]any) (int, error) { return vsymUF("f_p1", vFold(in)), nil }))
		p.AddLambda("p2", InvokableLambda(func(ctx context.Context, in map[string]any) (int, error) { return vsymUF("f_p2", vFold(in)), nil }))
		ch.AppendParallel(p)
	}
	withBr := vchoose("br", 2) == 1
	if withPar && withBr {
		ch.AppendLambda(vNode("m", log)) // a branch may not follow a parallel stage directly
	}
	pick := 0
	if withBr {
		pick = vrange("pick", 0, 1)
		cb := NewChainBranch(func(ctx context.Context, in map[string]any) (string, error) { return []string{"x", "y"}[pick], nil })
		cb.AddLambda("x", vNode("x", log))
		cb.AddLambda("y", vNode("y", log))
		ch.AppendBranch(cb)
	}
	ch.AppendLambda(vNode("z", log))
	r, err := ch.Compile(ctx)
	vassert(err == nil, "chain compiles")
	x := vsymInt("x")
	out, rerr := r.Invoke(ctx, map[string]any{"in": x})
	vassert(rerr == nil, "chain runs")
	// reference: function composition
	v := map[string]any{"a": vsymUF("f_a", vFold(map[string]any{"in": x}))}
	if withPar {
		v = map[string]any{"p1": vsymUF("f_p1", vFold(v)), "p2": vsymUF("f_p2", vFold(v))}
	}
	if withPar && withBr {
		v = map[string]any{"m": vsymUF("f_m", vFold(v))}
	}
	if withBr {
		k := []string{"x", "y"}[pick]
		v = map[string]any{k: vsymUF("f_"+k, vFold(v))}
	}
	v = map[string]any{"z": vsymUF("f_z", vFold(v))}
	vassert(vMapEq(out, v), "chain result is the sequential composition of its stages (parallel stages merged by key)")
}

// generic family (thorough): 3 nodes, every subset of the 12 possible plain edges, optional 2-way branch on a,
// symbolic step limit; graphs that do not compile are skipped
func VerifC01Generic() {
	nodes := []string{"a", "b", "c"}
	g := &vG{nodes: nodes}
	cands := [][2]string{{START, "a"}, {START, "b"}, {START, "c"}, {"a", "b"}, {"a", "c"}, {"a", END}, {"b", "a"}, {"b", "c"}, {"b", END}, {"c", "a"}, {"c", "b"}, {"c", END}}
	n := 0
	for _, e := range cands {
		if vchoose("edge", 2) == 1 {
			g.edges = append(g.edges, e)
			n++
		}
	}
	vassume(n >= 2 && n <= 6)
	if vchoose("branch", 2) == 1 {
		g.branches = []vBranch{{"a", []string{"b", END}}}
	}
	limit := vrange("limit", 2, 5)
	c01Check(g, limit, false)
}

// generic family, four nodes (thorough): every set of 2..4 of the 20 possible plain edges over a, b, c, d, optional
// 2-way branch on a, symbolic step limit; graphs that do not compile are skipped
func VerifC01Generic4() {
	nodes := []string{"a", "b", "c", "d"}
	g := &vG{nodes: nodes}
	var cands [][2]string
	for _, n := range nodes {
		cands = append(cands, [2]string{START, n})
	}
	for _, n := range nodes {
		for _, m := range nodes {
			if n != m {
				cands = append(cands, [2]string{n, m})
			}
		}
		cands = append(cands, [2]string{n, END})
	}
	n := 0
	for _, e := range cands {
		if n < 4 && vchoose("edge", 2) == 1 {
			g.edges = append(g.edges, e)
			n++
		}
	}
	vassume(n >= 2)
	if vchoose("branch", 2) == 1 {
		g.branches = []vBranch{{"a", []string{"b", END}}}
	}
	limit := vrange("limit", 3, 6)
	c01Check(g, limit, false)
}

// one ChainBranch value appended to two chains (and the chains run independently)
func VerifC01ChainBranchReuse() {
	ctx := context.Background()
	vcfg("fifo", 1)
	pick := vrange("pick", 0, 1)
	cb := NewChainBranch(func(ctx context.Context, in map[string]any) (string, error) { return []string{"x", "y"}[pick], nil })
	cb.AddLambda("x", vNode("x", nil))
	cb.AddLambda("y", vNode("y", nil))
	mk := func(tag string) Runnable[map[string]any, map[string]any] {
		ch := NewChain[map[string]any, map[string]any]()
		ch.AppendLambda(vNode(tag, nil))
		ch.AppendBranch(cb)
		r, err := ch.Compile(ctx)
		vassert(err == nil, "chain "+tag+" with a shared branch compiles")
		return r
	}
	r1 := mk("a")
	r2 := mk("b")
	x := vsymInt("x")
	for _, rt := range []struct {
		r   Runnable[map[string]any, map[string]any]
		tag string
	}{{r1, "a"}, {r2, "b"}} {
		out, err := rt.r.Invoke(ctx, map[string]any{"in": x})
		vassert(err == nil, "chain "+rt.tag+" runs")
		k := []string{"x", "y"}[pick]
		want := map[string]any{k: vsymUF("f_"+k, vFold(map[string]any{rt.tag: vsymUF("f_"+rt.tag, vFold(map[string]any{"in": x}))}))}
		vassert(vMapEq(out, want), "a chain is the composition of its own stages also when a branch value is shared with another chain")
	}
}

// multi-choice branches (value and stream conditions): a -> {b, c, d} where the condition returns a map that names
// each target with true, names it with false, or leaves it out; exactly the targets named with true receive the value
// and run, in any-predecessor and all-predecessor mode, Invoke and Stream
func c01MultiChoice(dag bool) {
	ctx := context.Background()
	vcfg("fifo", 1)
	vcfg("selectfirst", 1)
	vcfgMapOrderIn("NewGraphMultiBranch")
	targets := []string{"b", "c", "d"}
	sel := map[string]int{}
	nTrue := 0
	for _, t := range targets {
		sel[t] = vchoose("sel_"+t, 3) // 0 left out, 1 true, 2 false
		if sel[t] == 1 {
			nTrue++
		}
	}
	counts := map[string]int{}
	x := vsymInt("x")
	node := func(key string) *Lambda {
		return InvokableLambda(func(ctx context.Context, in map[string]any) (map[string]any, error) {
			vMu.Lock()
			counts[key]++
			vMu.Unlock()
			return map[string]any{key: vsymUF("f_"+key, vFold(in))}, nil
		})
	}
	g := NewGraph[map[string]any, map[string]any]()
	_ = g.AddLambdaNode("a", node("a"))
	_ = g.AddEdge(START, "a")
	ends := map[string]bool{}
	for _, t := range targets {
		_ = g.AddLambdaNode(t, node(t))
		_ = g.AddEdge(t, END)
		ends[t] = true
	}
	// all-predecessor mode only: an independent route START -> e -> END, so that the run goes on when the branch
	// selects nothing
	extra := dag && vchoose("extra", 2) == 1
	if extra {
		_ = g.AddLambdaNode("e", node("e"))
		_ = g.AddEdge(START, "e")
		_ = g.AddEdge("e", END)
	}
	answer := func() map[string]bool {
		m := map[string]bool{}
		for _, t := range targets {
			switch sel[t] {
			case 1:
				m[t] = true
			case 2:
				m[t] = false
			}
		}
		return m
	}
	if vchoose("streamCond", 2) == 1 {
		_ = g.AddBranch("a", NewStreamGraphMultiBranch(func(ctx context.Context, in *schema.StreamReader[map[string]any]) (map[string]bool, error) {
			in.Close()
			return answer(), nil
		}, ends))
	} else {
		_ = g.AddBranch("a", NewGraphMultiBranch(func(ctx context.Context, in map[string]any) (map[string]bool, error) {
			return answer(), nil
		}, ends))
	}
	var opts []GraphCompileOption
	if dag {
		opts = append(opts, WithNodeTriggerMode(AllPredecessor))
	}
	r, err := g.Compile(ctx, opts...)
	vassert(err == nil, "graph with a multi-choice branch compiles")
	in := map[string]any{"in": x}
	var out map[string]any
	var rerr error
	if vchoose("stream", 2) == 1 {
		sr, e := r.Stream(ctx, in)
		rerr = e
		if e == nil {
			out, rerr = vDrainMap(sr)
		}
	} else {
		out, rerr = r.Invoke(ctx, in)
	}
	if nTrue == 0 && !extra {
		vassert(rerr != nil, "a multi-choice branch that selects nothing leaves END without a value: the run fails")
		return
	}
	vassert(rerr == nil, "run succeeds (a branch that selects nothing skips its targets; the rest of the graph goes on)")
	av := map[string]any{"a": vsymUF("f_a", vFold(in))}
	want := map[string]any{}
	if extra {
		want["e"] = vsymUF("f_e", vFold(in))
	}
	for _, t := range targets {
		if sel[t] == 1 {
			want[t] = vsymUF("f_"+t, vFold(av))
			vassert(counts[t] == 1, "a target the condition names with true runs exactly once: "+t)
		} else {
			vassert(counts[t] == 0, "a target the condition leaves out or names with false does not run: "+t)
		}
	}
	vassert(vMapEq(out, want), "END receives the merge of exactly the selected targets' outputs")
}

func VerifC01MultiChoice() { c01MultiChoice(false) }

// The caller's array-backed input stream of n chunks handed on by a pass-through meets the stream of a streaming node
// in a fan-in: the run returns (it neither hangs nor fails), whatever n is, with every chunk's key in the result.
func VerifC01FanInArrayStream() {
	ctx := context.Background()
	vcfg("fifo", 1)
	vcfg("selectfirst", 1)
	n := vrange("chunks", 1, 8)
	g := NewGraph[map[string]any, map[string]any]()
	_ = g.AddPassthroughNode("p")
	_ = g.AddLambdaNode("a", StreamableLambda(func(ctx context.Context, in map[string]any) (*schema.StreamReader[map[string]any], error) {
		sr, sw := schema.Pipe[map[string]any](0)
		go func() {
			sw.Send(map[string]any{"a1": 1}, nil)
			sw.Send(map[string]any{"a2": 2}, nil)
			sw.Close()
		}()
		return sr, nil
	}))
	_ = g.AddLambdaNode("n", InvokableLambda(func(ctx context.Context, in map[string]any) (map[string]any, error) {
		return map[string]any{"count": len(in)}, nil
	}))
	_ = g.AddEdge(START, "p")
	_ = g.AddEdge(START, "a")
	_ = g.AddEdge("p", "n")
	_ = g.AddEdge("a", "n")
	_ = g.AddEdge("n", END)
	r, err := g.Compile(ctx)
	vassert(err == nil, "graph compiles")
	var chunks []map[string]any
	for i := 0; i < n; i++ {
		chunks = append(chunks, map[string]any{[]string{"k0", "k1", "k2", "k3", "k4", "k5", "k6", "k7"}[i]: i})
	}
	sr, err := r.Transform(ctx, schema.StreamReaderFromArray(chunks))
	vassert(err == nil, "the run starts")
	out, rerr := vDrainMap(sr)
	vassert(rerr == nil, "the run returns")
	vassert(out["count"] == n+2, "the fan-in node receives every chunk of both predecessors")
}

// Stream fan-out behind a node that consumed the head of its input and handed the rest on (the same reader): both
// successors run on exactly the chunks their predecessor produced, i.e. the rest - array-backed and piped input, any-
// and all-predecessor mode
func VerifC01FanOutPartialRead() {
	ctx := context.Background()
	vcfg("fifo", 1)
	vcfg("selectfirst", 1)
	dag := vchoose("dag", 2) == 1
	piped := vchoose("piped", 2) == 1
	xs := []int{vsymInt("x0"), vsymInt("x1"), vsymInt("x2")}
	g := NewGraph[int, map[string]any]()
	_ = g.AddLambdaNode("strip", TransformableLambda(func(ctx context.Context, in *schema.StreamReader[int]) (*schema.StreamReader[int], error) {
		if _, err := in.Recv(); err != nil { // the header chunk
			return nil, err
		}
		return in, nil
	}))
	got := map[string][]int{}
	reader := func(key string) *Lambda {
		return TransformableLambda(func(ctx context.Context, in *schema.StreamReader[int]) (*schema.StreamReader[map[string]any], error) {
			var l []int
			for i := 0; i < 8; i++ {
				c, err := in.Recv()
				if err != nil {
					break
				}
				l = append(l, c)
			}
			in.Close()
			vMu.Lock()
			got[key] = l
			vMu.Unlock()
			return schema.StreamReaderFromArray([]map[string]any{{key: len(l)}}), nil
		})
	}
	_ = g.AddLambdaNode("a", reader("a"))
	_ = g.AddLambdaNode("b", reader("b"))
	_ = g.AddEdge(START, "strip")
	_ = g.AddEdge("strip", "a")
	_ = g.AddEdge("strip", "b")
	_ = g.AddEdge("a", END)
	_ = g.AddEdge("b", END)
	var copts []GraphCompileOption
	if dag {
		copts = append(copts, WithNodeTriggerMode(AllPredecessor))
	}
	r, err := g.Compile(ctx, copts...)
	vassert(err == nil, "graph compiles")
	var in *schema.StreamReader[int]
	if piped {
		sr, sw := schema.Pipe[int](3)
		for _, x := range xs {
			sw.Send(x, nil)
		}
		sw.Close()
		in = sr
	} else {
		in = schema.StreamReaderFromArray(xs)
	}
	sr, err := r.Transform(ctx, in)
	vassert(err == nil, "the run starts")
	out, rerr := vDrainMap(sr)
	vassert(rerr == nil, "the run returns")
	vassert(out["a"] == 2 && out["b"] == 2, "each successor receives as many chunks as its predecessor handed on")
	for _, k := range []string{"a", "b"} {
		l := got[k]
		vassert(len(l) == 2 && l[0] == xs[1] && l[1] == xs[2], "successor "+k+" runs on the chunks its predecessor produced, not on chunks the predecessor consumed")
	}
}

// A chain with a multi-choice branch (value or stream condition): the condition names each of its two targets with
// true, names it with false, or leaves it out; exactly the targets named with true run, and the chain returns the
// merge of their outputs.
func VerifC01ChainMultiChoice() {
	ctx := context.Background()
	vcfg("fifo", 1)
	vcfg("selectfirst", 1)
	targets := []string{"x", "y"}
	sel := map[string]int{}
	nTrue := 0
	for _, t := range targets {
		sel[t] = vchoose("sel_"+t, 3) // 0 left out, 1 true, 2 false
		if sel[t] == 1 {
			nTrue++
		}
	}
	answer := func() map[string]bool {
		m := map[string]bool{}
		for _, t := range targets {
			switch sel[t] {
			case 1:
				m[t] = true
			case 2:
				m[t] = false
			}
		}
		return m
	}
	counts := map[string]int{}
	node := func(key string) *Lambda {
		return InvokableLambda(func(ctx context.Context, in map[string]any) (map[string]any, error) {
			vMu.Lock()
			counts[key]++
			vMu.Unlock()
			return map[string]any{key: vsymUF("f_"+key, vFold(in))}, nil
		})
	}
	var cb *ChainBranch
	if vchoose("streamCond", 2) == 1 {
		cb = NewStreamChainMultiBranch(func(ctx context.Context, in *schema.StreamReader[map[string]any]) (map[string]bool, error) {
			in.Close()
			return answer(), nil
		})
	} else {
		cb = NewChainMultiBranch(func(ctx context.Context, in map[string]any) (map[string]bool, error) { return answer(), nil })
	}
	cb.AddLambda("x", node("x"))
	cb.AddLambda("y", node("y"))
	ch := NewChain[map[string]any, map[string]any]()
	ch.AppendLambda(node("a"))
	ch.AppendBranch(cb)
	r, err := ch.Compile(ctx)
	vassert(err == nil, "chain with a multi-choice branch compiles")
	x := vsymInt("x")
	in := map[string]any{"in": x}
	out, rerr := r.Invoke(ctx, in)
	if nTrue == 0 {
		vassert(rerr != nil, "a multi-choice branch that selects nothing leaves the chain without a result: the run fails")
		return
	}
	vassert(rerr == nil, "the chain runs")
	av := map[string]any{"a": vsymUF("f_a", vFold(in))}
	want := map[string]any{}
	for _, t := range targets {
		if sel[t] == 1 {
			want[t] = vsymUF("f_"+t, vFold(av))
			vassert(counts[t] == 1, "a target the condition names with true runs exactly once: "+t)
		} else {
			vassert(counts[t] == 0, "a target the condition leaves out or names with false does not run: "+t)
		}
	}
	vassert(vMapEq(out, want), "the chain returns the merge of exactly the selected targets' outputs")
}
