package compose

import (
	"context"
	"errors"
	"fmt"
	"io"

	"github.com/cloudwego/eino/schema"
)

// C04: Invoke, Stream, Collect and Transform of a compiled graph agree.
//
// A node function F over strings is given by two uninterpreted string functions: F(x) = P(x) ++ Q(x).
// Its four native paradigms are
//   I(x) = F(x)   S(x) = [P(x), Q(x)]   C([a,b]) = F(a ++ b)   T([a,b]) = [P(a ++ b), Q(a ++ b)]

var c04Err = errors.New("c04 node failed")

type c04Fn struct {
	name string
	fail bool
	err  error // the error a failing node reports (default c04Err)
}

func (f c04Fn) e() error {
	if f.err != nil {
		return f.err
	}
	return c04Err
}

// an error that merely wraps io.EOF (e.g. a truncated read) is a failure, not the end of the stream
var c04WrappedEOF = fmt.Errorf("c04 read body: %w", io.EOF)

func (f c04Fn) p(x string) string { return vsymUFStr("P_"+f.name, x) }
func (f c04Fn) q(x string) string { return vsymUFStr("Q_"+f.name, x) }
func (f c04Fn) F(x string) string { return f.p(x) + f.q(x) }

func c04Drain(sr *schema.StreamReader[string]) (string, error) {
	defer sr.Close()
	out := ""
	for i := 0; i < 16; i++ {
		s, err := sr.Recv()
		if err == io.EOF {
			return out, nil
		}
		if err != nil {
			return "", err
		}
		out += s
	}
	return "", errors.New("stream too long")
}

func (f c04Fn) i() Invoke[string, string, any] {
	return func(ctx context.Context, x string, opts ...any) (string, error) {
		if f.fail {
			return "", f.e()
		}
		return f.F(x), nil
	}
}
func (f c04Fn) s() Stream[string, string, any] {
	return func(ctx context.Context, x string, opts ...any) (*schema.StreamReader[string], error) {
		if f.fail {
			// a failure in the middle of the output: an error item on the stream
			sr, sw := schema.Pipe[string](2)
			sw.Send(f.p(x), nil)
			sw.Send("", f.e())
			sw.Close()
			return sr, nil
		}
		return schema.StreamReaderFromArray([]string{f.p(x), f.q(x)}), nil
	}
}
func (f c04Fn) c() Collect[string, string, any] {
	return func(ctx context.Context, in *schema.StreamReader[string], opts ...any) (string, error) {
		x, err := c04Drain(in)
		if err != nil {
			return "", err
		}
		if f.fail {
			return "", f.e()
		}
		return f.F(x), nil
	}
}
func (f c04Fn) t() Transform[string, string, any] {
	return func(ctx context.Context, in *schema.StreamReader[string], opts ...any) (*schema.StreamReader[string], error) {
		x, err := c04Drain(in)
		if err != nil {
			return nil, err
		}
		if f.fail {
			// a failure in the middle of the output: an error item on the stream
			sr, sw := schema.Pipe[string](2)
			sw.Send(f.p(x), nil)
			sw.Send("", f.e())
			sw.Close()
			return sr, nil
		}
		return schema.StreamReaderFromArray([]string{f.p(x), f.q(x)}), nil
	}
}

// natives: bit 0 invoke, 1 stream, 2 collect, 3 transform
func (f c04Fn) lambda(natives int) *Lambda {
	var i Invoke[string, string, any]
	var s Stream[string, string, any]
	var c Collect[string, string, any]
	var t Transform[string, string, any]
	if natives&1 != 0 {
		i = f.i()
	}
	if natives&2 != 0 {
		s = f.s()
	}
	if natives&4 != 0 {
		c = f.c()
	}
	if natives&8 != 0 {
		t = f.t()
	}
	l, err := AnyLambda(i, s, c, t)
	vassert(err == nil, "lambda with at least one native paradigm is created")
	return l
}

// (a) unit: newRunnablePacker for every non-empty subset of native paradigms
func VerifC04Packer() {
	ctx := context.Background()
	natives := 1 + vchoose("natives", 15)
	f := c04Fn{name: "f"}
	var i Invoke[string, string, any]
	var s Stream[string, string, any]
	var c Collect[string, string, any]
	var t Transform[string, string, any]
	if natives&1 != 0 {
		i = f.i()
	}
	if natives&2 != 0 {
		s = f.s()
	}
	if natives&4 != 0 {
		c = f.c()
	}
	if natives&8 != 0 {
		t = f.t()
	}
	rp := newRunnablePacker(i, s, c, t, false)
	a, b := vsymStr("a"), vsymStr("b")
	want := f.F(a + b)
	o1, e1 := rp.Invoke(ctx, a+b)
	vassert(e1 == nil && o1 == want, "Invoke equals the node function")
	sr, e2 := rp.Stream(ctx, a+b)
	vassert(e2 == nil, "Stream succeeds")
	o2, e2 := c04Drain(sr)
	vassert(e2 == nil && o2 == want, "the chunks of Stream concatenate to what Invoke returns")
	o3, e3 := rp.Collect(ctx, schema.StreamReaderFromArray([]string{a, b}))
	vassert(e3 == nil && o3 == want, "Collect of the input chunks equals Invoke of their concatenation")
	sr4, e4 := rp.Transform(ctx, schema.StreamReaderFromArray([]string{a, b}))
	vassert(e4 == nil, "Transform succeeds")
	o4, e4 := c04Drain(sr4)
	vassert(e4 == nil && o4 == want, "the chunks of Transform concatenate to Invoke of the concatenated input")
}

// the four calling paradigms of a compiled runnable on (a ++ b) / [a, b]
func c04Four(r Runnable[string, string], a, b string) (outs [4]string, errs [4]error) {
	ctx := context.Background()
	outs[0], errs[0] = r.Invoke(ctx, a+b)
	if sr, e := r.Stream(ctx, a+b); e != nil {
		errs[1] = e
	} else {
		outs[1], errs[1] = c04Drain(sr)
	}
	outs[2], errs[2] = r.Collect(ctx, schema.StreamReaderFromArray([]string{a, b}))
	if sr, e := r.Transform(ctx, schema.StreamReaderFromArray([]string{a, b})); e != nil {
		errs[3] = e
	} else {
		outs[3], errs[3] = c04Drain(sr)
	}
	return
}

var c04ParNames = []string{"Invoke", "Stream", "Collect", "Transform"}

func c04Agree(r Runnable[string, string], want string, failing bool, what string) {
	c04AgreeErr(r, failing, c04Err, what)
}

func c04AgreeErr(r Runnable[string, string], failing bool, theErr error, what string) {
	a, b := vsymStr("a"), vsymStr("b")
	outs, errs := c04Four(r, a, b)
	for k := 0; k < 4; k++ {
		if failing {
			vassert(errs[k] != nil, what+": a failing node is reported by "+c04ParNames[k]+" (at call time or as an error item)")
			vassert(errors.Is(errs[k], theErr), what+": "+c04ParNames[k]+" reports the node's own error")
		} else {
			vassert(errs[k] == nil, what+": "+c04ParNames[k]+" succeeds")
		}
	}
	if !failing {
		for k := 1; k < 4; k++ {
			vassert(outs[k] == outs[0], what+": "+c04ParNames[k]+" (chunks concatenated) equals Invoke of the concatenated input")
		}
	}
}

// (b) chain of two nodes, each implementing one native paradigm (16 pairs), optional failing node
func VerifC04Chain2() {
	ctx := context.Background()
	vcfg("fifo", 1)
	n1 := 1 << vchoose("native1", 4)
	n2 := 1 << vchoose("native2", 4)
	fail := vchoose("fail", 3) // 0 none, 1 first, 2 second
	theErr := c04Err
	if fail != 0 && vchoose("errkind", 2) == 1 {
		theErr = c04WrappedEOF
	}
	f1, f2 := c04Fn{name: "f1", fail: fail == 1, err: theErr}, c04Fn{name: "f2", fail: fail == 2, err: theErr}
	g := NewGraph[string, string]()
	_ = g.AddLambdaNode("n1", f1.lambda(n1))
	_ = g.AddLambdaNode("n2", f2.lambda(n2))
	_ = g.AddEdge(START, "n1")
	_ = g.AddEdge("n1", "n2")
	_ = g.AddEdge("n2", END)
	r, err := g.Compile(ctx)
	vassert(err == nil, "chain compiles")
	c04AgreeErr(r, fail != 0, theErr, "chain of two nodes")
	if fail == 0 {
		a, b := vsymStr("x"), vsymStr("y")
		o, e := r.Invoke(ctx, a+b)
		vassert(e == nil && o == f2.F(f1.F(a+b)), "Invoke is the composition of the node functions")
	}
}

// (c) multi-native nodes inside a graph (subsets with two natives)
func VerifC04ChainMulti() {
	ctx := context.Background()
	vcfg("fifo", 1)
	subsets := []int{3, 5, 9, 6, 10, 12, 15}
	n1 := subsets[vchoose("natives1", len(subsets))]
	f1, f2 := c04Fn{name: "f1"}, c04Fn{name: "f2"}
	g := NewGraph[string, string]()
	_ = g.AddLambdaNode("n1", f1.lambda(n1))
	_ = g.AddLambdaNode("n2", f2.lambda(1<<vchoose("native2", 4)))
	_ = g.AddEdge(START, "n1")
	_ = g.AddEdge("n1", "n2")
	_ = g.AddEdge("n2", END)
	r, err := g.Compile(ctx)
	vassert(err == nil, "chain compiles")
	c04Agree(r, "", false, "chain with a multi-paradigm node")
}

// (d) fan-out with output keys and fan-in into a map-consuming node (stream copy + merge), input key on the consumer
func VerifC04FanKeys() {
	ctx := context.Background()
	vcfg("fifo", 1)
	vcfg("selectfirst", 1)
	n1 := 1 << vchoose("native1", 4)
	n2 := 1 << vchoose("native2", 4)
	nj := vchoose("nativeJ", 2) // join node: invoke or transform native
	fail := vchoose("fail", 2) == 1
	f1, f2 := c04Fn{name: "f1"}, c04Fn{name: "f2", fail: fail}
	g := NewGraph[string, string]()
	_ = g.AddLambdaNode("n1", f1.lambda(n1), WithOutputKey("k1"))
	_ = g.AddLambdaNode("n2", f2.lambda(n2), WithOutputKey("k2"))
	join := func(m map[string]any) string {
		s1, _ := m["k1"].(string)
		s2, _ := m["k2"].(string)
		return vsymUFStr("J", s1, s2)
	}
	if nj == 0 {
		_ = g.AddLambdaNode("j", InvokableLambda(func(ctx context.Context, m map[string]any) (string, error) { return join(m), nil }))
	} else {
		_ = g.AddLambdaNode("j", TransformableLambda(func(ctx context.Context, in *schema.StreamReader[map[string]any]) (*schema.StreamReader[string], error) {
			defer in.Close()
			acc := map[string]any{"k1": "", "k2": ""}
			for i := 0; i < 16; i++ {
				m, err := in.Recv()
				if err == io.EOF {
					break
				}
				if err != nil {
					return nil, err
				}
				for k, v := range m {
					acc[k] = acc[k].(string) + v.(string)
				}
			}
			return schema.StreamReaderFromArray([]string{join(acc)}), nil
		}))
	}
	_ = g.AddEdge(START, "n1")
	_ = g.AddEdge(START, "n2")
	_ = g.AddEdge("n1", "j")
	_ = g.AddEdge("n2", "j")
	_ = g.AddEdge("j", END)
	r, err := g.Compile(ctx, WithNodeTriggerMode(AllPredecessor))
	vassert(err == nil, "fan-out / fan-in graph compiles")
	c04Agree(r, "", fail, "fan-out with output keys and keyed fan-in")
	if !fail {
		a, b := vsymStr("x"), vsymStr("y")
		o, e := r.Invoke(ctx, a+b)
		vassert(e == nil && o == vsymUFStr("J", f1.F(a+b), f2.F(a+b)), "the join node receives both keyed outputs")
	}
}

// (e) a stream branch that reads only the first chunk, and state pre/post handlers on the path
func VerifC04BranchState() {
	ctx := context.Background()
	vcfg("fifo", 1)
	n1 := 1 << vchoose("native1", 4)
	n2 := 1 << vchoose("native2", 4)
	streamCond := vchoose("streamCond", 2) == 1
	f1, f2, f3 := c04Fn{name: "f1"}, c04Fn{name: "f2"}, c04Fn{name: "f3"}
	pick := vrange("pick", 0, 1)
	type st struct{ seen int }
	g := NewGraph[string, string](WithGenLocalState(func(ctx context.Context) *st { return &st{} }))
	_ = g.AddLambdaNode("n1", f1.lambda(n1),
		WithStatePostHandler(func(ctx context.Context, out string, s *st) (string, error) { s.seen++; return out, nil }))
	_ = g.AddLambdaNode("n2", f2.lambda(n2),
		WithStatePreHandler(func(ctx context.Context, in string, s *st) (string, error) { s.seen++; return in, nil }))
	_ = g.AddLambdaNode("n3", f3.lambda(1))
	_ = g.AddEdge(START, "n1")
	ends := map[string]bool{"n2": true, "n3": true}
	if streamCond {
		_ = g.AddBranch("n1", NewStreamGraphBranch(func(ctx context.Context, in *schema.StreamReader[string]) (string, error) {
			defer in.Close()
			_, _ = in.Recv() // decides after the first chunk
			return []string{"n2", "n3"}[pick], nil
		}, ends))
	} else {
		_ = g.AddBranch("n1", NewGraphBranch(func(ctx context.Context, in string) (string, error) { return []string{"n2", "n3"}[pick], nil }, ends))
	}
	_ = g.AddEdge("n2", END)
	_ = g.AddEdge("n3", END)
	r, err := g.Compile(ctx)
	vassert(err == nil, "graph with branch and state handlers compiles")
	c04Agree(r, "", false, "branch (stream condition reading a prefix) and state handlers")
	a, b := vsymStr("x"), vsymStr("y")
	o, e := r.Invoke(ctx, a+b)
	want := f2.F(f1.F(a + b))
	if pick == 1 {
		want = f3.F(f1.F(a + b))
	}
	vassert(e == nil && o == want, "the selected branch target receives the full value")
}

// (f) fan-in of N streams (N = 2..6 crosses the static / reflective select boundary)
func VerifC04FanWidth() {
	ctx := context.Background()
	vcfg("fifo", 1)
	vcfg("selectfirst", 1)
	n := vrange("width", 2, 6)
	g := NewGraph[string, string]()
	keys := []string{"k0", "k1", "k2", "k3", "k4", "k5"}[:n]
	var fs []c04Fn
	for _, k := range keys {
		f := c04Fn{name: k}
		fs = append(fs, f)
		_ = g.AddLambdaNode(k, f.lambda(2), WithOutputKey(k)) // stream-native
		_ = g.AddEdge(START, k)
	}
	_ = g.AddLambdaNode("j", InvokableLambda(func(ctx context.Context, m map[string]any) (string, error) {
		out := ""
		for _, k := range keys {
			s, _ := m[k].(string)
			out += s
		}
		return out, nil
	}))
	for _, k := range keys {
		_ = g.AddEdge(k, "j")
	}
	_ = g.AddEdge("j", END)
	r, err := g.Compile(ctx, WithNodeTriggerMode(AllPredecessor))
	vassert(err == nil, "wide fan-in compiles")
	c04Agree(r, "", false, "fan-in of several streams")
}

// (g) a node with a plain edge and a branch (stream copies for edge successors, branch condition and branch target)
func VerifC04EdgeAndBranch() {
	ctx := context.Background()
	vcfg("fifo", 1)
	vcfg("selectfirst", 1)
	fa, fb, fc, fd := c04Fn{name: "fa"}, c04Fn{name: "fb"}, c04Fn{name: "fc"}, c04Fn{name: "fd"}
	na := 1 << vchoose("nativeA", 4)
	pick := vrange("pick", 0, 1)
	streamCond := vchoose("streamCond", 2) == 1
	g := NewGraph[string, map[string]any]()
	_ = g.AddLambdaNode("a", fa.lambda(na))
	_ = g.AddLambdaNode("b", fb.lambda(1<<vchoose("nativeB", 4)), WithOutputKey("b"))
	_ = g.AddLambdaNode("c", fc.lambda(1), WithOutputKey("c"))
	_ = g.AddLambdaNode("d", fd.lambda(8), WithOutputKey("d"))
	_ = g.AddEdge(START, "a")
	_ = g.AddEdge("a", "b")
	ends := map[string]bool{"c": true, "d": true}
	if streamCond {
		_ = g.AddBranch("a", NewStreamGraphBranch(func(ctx context.Context, in *schema.StreamReader[string]) (string, error) {
			defer in.Close()
			_, _ = in.Recv()
			return []string{"c", "d"}[pick], nil
		}, ends))
	} else {
		_ = g.AddBranch("a", NewGraphBranch(func(ctx context.Context, in string) (string, error) { return []string{"c", "d"}[pick], nil }, ends))
	}
	_ = g.AddEdge("b", END)
	_ = g.AddEdge("c", END)
	_ = g.AddEdge("d", END)
	r, err := g.Compile(ctx, WithNodeTriggerMode(AllPredecessor))
	vassert(err == nil, "graph with edge and branch on one node compiles")
	x, y := vsymStr("a"), vsymStr("b")
	va := fa.F(x + y)
	want := map[string]string{"b": fb.F(va)}
	if pick == 0 {
		want["c"] = fc.F(va)
	} else {
		want["d"] = fd.F(va)
	}
	check := func(m map[string]string, err error, what string) {
		vassert(err == nil, what+" succeeds")
		vassert(len(m) == len(want), what+": exactly the selected nodes contribute")
		for k, v := range want {
			vassert(m[k] == v, what+": every successor of a node with a plain edge and a branch receives the node's full output")
		}
	}
	drain := func(sr *schema.StreamReader[map[string]any]) (map[string]string, error) {
		defer sr.Close()
		acc := map[string]string{}
		for i := 0; i < 16; i++ {
			m, err := sr.Recv()
			if err == io.EOF {
				return acc, nil
			}
			if err != nil {
				return nil, err
			}
			for k, v := range m {
				acc[k] += v.(string)
			}
		}
		return acc, nil
	}
	o, e := r.Invoke(ctx, x+y)
	m := map[string]string{}
	for k, v := range o {
		m[k], _ = v.(string)
	}
	check(m, e, "Invoke")
	sr, e := r.Stream(ctx, x+y)
	vassert(e == nil, "Stream starts")
	m2, e := drain(sr)
	check(m2, e, "Stream")
	sr, e = r.Transform(ctx, schema.StreamReaderFromArray([]string{x, y}))
	vassert(e == nil, "Transform starts")
	m3, e := drain(sr)
	check(m3, e, "Transform")
}

// (h) a node with an input key: a value of the wrong dynamic type under that key is a failure in every paradigm;
//
//	chunks that lack the key are skipped
func VerifC04InputKey() {
	ctx := context.Background()
	vcfg("fifo", 1)
	f := c04Fn{name: "f"}
	native := 1 << vchoose("native", 4)
	g := NewGraph[map[string]any, string]()
	_ = g.AddLambdaNode("n", f.lambda(native), WithInputKey("q"))
	_ = g.AddEdge(START, "n")
	_ = g.AddEdge("n", END)
	r, err := g.Compile(ctx)
	vassert(err == nil, "graph with an input-keyed node compiles")
	a := vsymStr("a")
	bad := vchoose("bad", 2) == 1
	var second any = vsymStr("b")
	want := f.F(a + second.(string))
	if bad {
		second = 7 // wrong dynamic type under the input key
	}
	chunks := []map[string]any{{"q": a}, {"other": 1}, {"q": second}}
	whole := map[string]any{"q": a + "x"}
	if bad {
		whole = map[string]any{"q": 7}
	}
	// Invoke / Stream on one value
	o1, e1 := r.Invoke(ctx, whole)
	sr, e2 := r.Stream(ctx, whole)
	var o2 string
	if e2 == nil {
		o2, e2 = c04Drain(sr)
	}
	// Collect / Transform on chunks
	o3, e3 := r.Collect(ctx, schema.StreamReaderFromArray(chunks))
	sr4, e4 := r.Transform(ctx, schema.StreamReaderFromArray(chunks))
	var o4 string
	if e4 == nil {
		o4, e4 = c04Drain(sr4)
	}
	if bad {
		vassert(e1 != nil, "Invoke reports a value of the wrong type under the input key")
		vassert(e2 != nil, "Stream reports a value of the wrong type under the input key")
		vassert(e3 != nil, "Collect reports a value of the wrong type under the input key")
		vassert(e4 != nil, "Transform reports a value of the wrong type under the input key")
		return
	}
	vassert(e1 == nil && e2 == nil && e3 == nil && e4 == nil, "all paradigms succeed on well-typed keyed input")
	vassert(o1 == f.F(a+"x") && o2 == o1, "Stream (concatenated) equals Invoke on keyed input")
	vassert(o3 == want && o4 == want, "Collect and Transform see exactly the chunks that carry the key")
}

// (i) a transform node that consumes a header chunk and hands on the rest of its input reader; the rest fans out
func VerifC04PartialReadFanOut() {
	ctx := context.Background()
	vcfg("fifo", 1)
	vcfg("selectfirst", 1)
	arrayBacked := vchoose("array", 2) == 1
	h, a, b := vsymStr("h"), vsymStr("a"), vsymStr("b")
	fu, fl := c04Fn{name: "up"}, c04Fn{name: "low"}
	g := NewGraph[string, map[string]any]()
	_ = g.AddLambdaNode("src", StreamableLambda(func(ctx context.Context, in string) (*schema.StreamReader[string], error) {
		if arrayBacked {
			return schema.StreamReaderFromArray([]string{h, a, b}), nil
		}
		sr, sw := schema.Pipe[string](3)
		sw.Send(h, nil)
		sw.Send(a, nil)
		sw.Send(b, nil)
		sw.Close()
		return sr, nil
	}))
	_ = g.AddLambdaNode("strip", TransformableLambda(func(ctx context.Context, in *schema.StreamReader[string]) (*schema.StreamReader[string], error) {
		_, _ = in.Recv() // the header
		return in, nil
	}))
	_ = g.AddLambdaNode("up", fu.lambda(4), WithOutputKey("up"))   // collect-native
	_ = g.AddLambdaNode("low", fl.lambda(8), WithOutputKey("low")) // transform-native
	_ = g.AddEdge(START, "src")
	_ = g.AddEdge("src", "strip")
	_ = g.AddEdge("strip", "up")
	_ = g.AddEdge("strip", "low")
	_ = g.AddEdge("up", END)
	_ = g.AddEdge("low", END)
	r, err := g.Compile(ctx, WithNodeTriggerMode(AllPredecessor))
	vassert(err == nil, "graph compiles")
	want := map[string]string{"up": fu.F(a + b), "low": fl.F(a + b)}
	sr, e := r.Stream(ctx, "go")
	vassert(e == nil, "Stream starts")
	acc := map[string]string{}
	for i := 0; i < 16; i++ {
		m, e := sr.Recv()
		if e != nil {
			vassert(e == io.EOF, "stream ends cleanly")
			break
		}
		for k, v := range m {
			acc[k] += v.(string)
		}
	}
	sr.Close()
	vassert(len(acc) == 2 && acc["up"] == want["up"] && acc["low"] == want["low"], "every copy of a partly consumed stream continues where the stream stands (array- and pipe-backed alike)")
}

// Repeated calls: a workflow whose node gets a static value besides its mapped input answers every call of every
// paradigm alike — the second (third) call of a compiled runnable agrees with the first, in any mix of paradigms.
func VerifC04StaticValues() {
	ctx := context.Background()
	vcfg("fifo", 1)
	vcfg("selectfirst", 1)
	natives := 1 << vchoose("native", 4)
	f := c04Fn{name: "f"}
	wf := NewWorkflow[string, string]()
	type in = map[string]any // map chunks concatenate key-wise; struct chunks would need a registered concat function
	var node *Lambda
	str := func(v in, k string) string { s, _ := v[k].(string); return s }
	body := func(v in) string { return f.F(str(v, "X")) + "/" + str(v, "S") }
	switch natives {
	case 1:
		node = InvokableLambda(func(ctx context.Context, v in) (string, error) { return body(v), nil })
	case 2:
		node = StreamableLambda(func(ctx context.Context, v in) (*schema.StreamReader[string], error) {
			return schema.StreamReaderFromArray([]string{f.p(str(v, "X")), f.q(str(v, "X")), "/" + str(v, "S")}), nil
		})
	case 4:
		node = CollectableLambda(func(ctx context.Context, sr *schema.StreamReader[in]) (string, error) {
			v, err := concatStreamReader(sr)
			if err != nil {
				return "", err
			}
			return body(v), nil
		})
	default:
		node = TransformableLambda(func(ctx context.Context, sr *schema.StreamReader[in]) (*schema.StreamReader[string], error) {
			v, err := concatStreamReader(sr)
			if err != nil {
				return nil, err
			}
			return schema.StreamReaderFromArray([]string{f.p(str(v, "X")), f.q(str(v, "X")) + "/" + str(v, "S")}), nil
		})
	}
	wf.AddLambdaNode("n", node).AddInput(START, ToField("X")).SetStaticValue(FieldPath{"S"}, "static")
	wf.End().AddInput("n")
	r, err := wf.Compile(ctx)
	vassert(err == nil, "workflow with a static value compiles")
	a, b := vsymStr("a"), vsymStr("b")
	want := f.F(a+b) + "/static"
	calls := 2 + vtier()
	for k := 0; k < calls; k++ {
		p := vchoose("paradigm", 4)
		var out string
		var e error
		switch p {
		case 0:
			out, e = r.Invoke(ctx, a+b)
		case 1:
			sr, e2 := r.Stream(ctx, a+b)
			e = e2
			if e2 == nil {
				out, e = c04Drain(sr)
			}
		case 2:
			out, e = r.Collect(ctx, schema.StreamReaderFromArray([]string{a, b}))
		default:
			sr, e2 := r.Transform(ctx, schema.StreamReaderFromArray([]string{a, b}))
			e = e2
			if e2 == nil {
				out, e = c04Drain(sr)
			}
		}
		vassert(e == nil, "static value: call "+string(rune('1'+k))+" ("+c04ParNames[p]+") succeeds")
		vassert(out == want, "static value: call "+string(rune('1'+k))+" ("+c04ParNames[p]+") returns the mapped input processed by the node plus the static value")
	}
}

// A node whose output stream fails lazily (its producer panics while a later chunk is pulled) next to a healthy
// sibling, both feeding END under output keys: every paradigm reports an error; none crashes or hangs.
func VerifC04LazyPanic() {
	ctx := context.Background()
	vcfg("fifo", 1)
	vcfg("selectfirst", 1)
	at := vchoose("at", 3) // the chunk whose conversion panics
	g := NewGraph[string, map[string]any]()
	_ = g.AddLambdaNode("bad", StreamableLambda(func(ctx context.Context, in string) (*schema.StreamReader[string], error) {
		src := schema.StreamReaderFromArray([]int{0, 1, 2})
		return schema.StreamReaderWithConvert(src, func(i int) (string, error) {
			if i == at {
				panic("c04 lazy producer panic")
			}
			return in, nil
		}), nil
	}), WithOutputKey("bad"))
	_ = g.AddLambdaNode("good", InvokableLambda(func(ctx context.Context, in string) (string, error) { return in, nil }), WithOutputKey("good"))
	_ = g.AddEdge(START, "bad")
	_ = g.AddEdge(START, "good")
	_ = g.AddEdge("bad", END)
	_ = g.AddEdge("good", END)
	r, err := g.Compile(ctx)
	vassert(err == nil, "graph compiles")
	drain := func(sr *schema.StreamReader[map[string]any]) error {
		defer sr.Close()
		for i := 0; i < 10; i++ {
			_, e := sr.Recv()
			if e == io.EOF {
				return nil
			}
			if e != nil {
				return e
			}
		}
		return nil
	}
	var e error
	p := vchoose("paradigm", 4)
	switch p {
	case 0:
		_, e = r.Invoke(ctx, "x")
	case 1:
		sr, e2 := r.Stream(ctx, "x")
		e = e2
		if e2 == nil {
			e = drain(sr)
		}
	case 2:
		_, e = r.Collect(ctx, schema.StreamReaderFromArray([]string{"x"}))
	default:
		sr, e2 := r.Transform(ctx, schema.StreamReaderFromArray([]string{"x"}))
		e = e2
		if e2 == nil {
			e = drain(sr)
		}
	}
	vquiesce()
	vassert(e != nil, "a producer that panics while a chunk is pulled is reported as an error by "+c04ParNames[p]+" (at call time or as an error item)")
}

// thorough tier: chains of three nodes with every triple of single native paradigms (64), optional failing node,
// three input chunks
func VerifC04Chain3() {
	ctx := context.Background()
	vcfg("fifo", 1)
	n1 := 1 << vchoose("native1", 4)
	n2 := 1 << vchoose("native2", 4)
	n3 := 1 << vchoose("native3", 4)
	fail := vchoose("fail", 4) // 0 none, k: the k-th node
	theErr := c04Err
	if fail != 0 && vchoose("errkind", 2) == 1 {
		theErr = c04WrappedEOF
	}
	f1, f2, f3 := c04Fn{name: "f1", fail: fail == 1, err: theErr}, c04Fn{name: "f2", fail: fail == 2, err: theErr}, c04Fn{name: "f3", fail: fail == 3, err: theErr}
	g := NewGraph[string, string]()
	_ = g.AddLambdaNode("n1", f1.lambda(n1))
	_ = g.AddLambdaNode("n2", f2.lambda(n2))
	_ = g.AddLambdaNode("n3", f3.lambda(n3))
	_ = g.AddEdge(START, "n1")
	_ = g.AddEdge("n1", "n2")
	_ = g.AddEdge("n2", "n3")
	_ = g.AddEdge("n3", END)
	var opts []GraphCompileOption
	if vchoose("dag", 2) == 1 {
		opts = append(opts, WithNodeTriggerMode(AllPredecessor))
	}
	r, err := g.Compile(ctx, opts...)
	vassert(err == nil, "chain compiles")
	c04AgreeErr(r, fail != 0, theErr, "chain of three nodes")
	if fail == 0 {
		a, b, c := vsymStr("x"), vsymStr("y"), vsymStr("z")
		o, e := r.Invoke(ctx, a+b+c)
		vassert(e == nil && o == f3.F(f2.F(f1.F(a+b+c))), "Invoke is the composition of the node functions")
		o3, e3 := r.Collect(ctx, schema.StreamReaderFromArray([]string{a, b, c}))
		vassert(e3 == nil && o3 == o, "Collect of three input chunks equals Invoke of their concatenation")
	}
}

// A producer that writes its chunks through a pipe from its own goroutine, followed by a multi-choice branch that
// selects one or two transform-native successors, joined by key: the four paradigms agree (each selected successor
// sees every chunk).
func VerifC04MultiChoiceStream() {
	ctx := context.Background()
	vcfg("fifo", 1)
	vcfg("selectfirst", 1)
	f0 := c04Fn{name: "f0"}
	pick := vchoose("pick", 3) // 0: b, 1: c, 2: both
	g := NewGraph[string, string]()
	_ = g.AddLambdaNode("src", StreamableLambda(func(ctx context.Context, in string) (*schema.StreamReader[string], error) {
		sr, sw := schema.Pipe[string](1)
		go func() {
			defer sw.Close()
			if sw.Send(f0.p(in), nil) {
				return
			}
			sw.Send(f0.q(in), nil)
		}()
		return sr, nil
	}))
	fwd := func(tag string) *Lambda {
		return TransformableLambda(func(ctx context.Context, in *schema.StreamReader[string]) (*schema.StreamReader[string], error) {
			// chunk-wise and homomorphic over concatenation, so that the chunking does not show in the result
			return schema.StreamReaderWithConvert(in, func(s string) (string, error) { return s, nil }), nil
		})
	}
	_ = g.AddLambdaNode("b", fwd("b"), WithOutputKey("kb"))
	_ = g.AddLambdaNode("c", fwd("c"), WithOutputKey("kc"))
	_ = g.AddLambdaNode("j", InvokableLambda(func(ctx context.Context, m map[string]any) (string, error) {
		sb, _ := m["kb"].(string)
		sc, _ := m["kc"].(string)
		return "b=" + sb + ";c=" + sc, nil
	}))
	_ = g.AddEdge(START, "src")
	_ = g.AddBranch("src", NewStreamGraphMultiBranch(func(ctx context.Context, in *schema.StreamReader[string]) (map[string]bool, error) {
		in.Close()
		switch pick {
		case 0:
			return map[string]bool{"b": true}, nil
		case 1:
			return map[string]bool{"c": true}, nil
		}
		return map[string]bool{"b": true, "c": true}, nil
	}, map[string]bool{"b": true, "c": true}))
	_ = g.AddEdge("b", "j")
	_ = g.AddEdge("c", "j")
	_ = g.AddEdge("j", END)
	r, err := g.Compile(ctx, WithNodeTriggerMode(AllPredecessor))
	vassert(err == nil, "graph compiles")
	a, b := vsymStr("a"), vsymStr("b")
	outs, errs := c04Four(r, a, b)
	tb := f0.p(a+b) + f0.q(a+b)
	tc := tb
	want := ""
	switch pick {
	case 0:
		want = "b=" + tb + ";c="
	case 1:
		want = "b=;c=" + tc
	default:
		want = "b=" + tb + ";c=" + tc
	}
	for k := 0; k < 4; k++ {
		if errs[k] != nil {
			vlog("err " + c04ParNames[k] + ": " + errs[k].Error())
		}
		vassert(errs[k] == nil, "multi-choice branch behind a piped producer: "+c04ParNames[k]+" succeeds")
		vassert(outs[k] == want, "multi-choice branch behind a piped producer: in "+c04ParNames[k]+" every selected successor sees every chunk of the producer")
	}
	vquiesce()
}

// Two run-time-checked field mappings (values of a map[string]any into string fields) with the input split over
// chunks by key: the four paradigms agree
func VerifC04FieldMapChunks() {
	ctx := context.Background()
	vcfg("fifo", 1)
	vcfg("selectfirst", 1)
	wf := NewWorkflow[map[string]any, string]()
	wf.AddLambdaNode("join", InvokableLambda(func(ctx context.Context, in map[string]string) (string, error) {
		return in["A"] + "|" + in["B"], nil
	})).AddInput(START, MapFields("a", "A"), MapFields("b", "B"))
	wf.End().AddInput("join")
	r, err := wf.Compile(ctx)
	vassert(err == nil, "workflow compiles")
	x, y := vsymStr("x"), vsymStr("y")
	want := x + "|" + y
	whole := map[string]any{"a": x, "b": y}
	split := []map[string]any{{"a": x}, {"b": y}}
	if vchoose("order", 2) == 1 {
		split = []map[string]any{{"b": y}, {"a": x}}
	}
	o1, e1 := r.Invoke(ctx, whole)
	vassert(e1 == nil && o1 == want, "Invoke maps both values")
	sr, e2 := r.Stream(ctx, whole)
	vassert(e2 == nil, "Stream starts")
	o2, e2 := c04Drain(sr)
	vassert(e2 == nil && o2 == want, "Stream agrees with Invoke")
	o3, e3 := r.Collect(ctx, schema.StreamReaderFromArray(split))
	vassert(e3 == nil && o3 == want, "Collect of the input split by key agrees with Invoke of the whole input")
	sr4, e4 := r.Transform(ctx, schema.StreamReaderFromArray(split))
	vassert(e4 == nil, "Transform starts")
	o4, e4 := c04Drain(sr4)
	vassert(e4 == nil && o4 == want, "Transform of the input split by key agrees with Invoke of the whole input")
}

// fan-in of two nodes into END whose outputs do not merge cleanly: the same key in both maps, or a nil value under a
// key; whatever the verdict, the four paradigms must give the same one
func c04FanInOdd(kind int) {
	ctx := context.Background()
	vcfg("fifo", 1)
	vcfg("selectfirst", 1)
	g := NewGraph[string, map[string]any]()
	_ = g.AddLambdaNode("a", InvokableLambda(func(ctx context.Context, in string) (map[string]any, error) {
		if kind == 0 {
			return map[string]any{"k": "A"}, nil
		}
		return map[string]any{"ka": nil}, nil
	}))
	_ = g.AddLambdaNode("b", InvokableLambda(func(ctx context.Context, in string) (map[string]any, error) {
		if kind == 0 {
			return map[string]any{"k": "B"}, nil
		}
		return map[string]any{"kb": "B"}, nil
	}))
	_ = g.AddEdge(START, "a")
	_ = g.AddEdge(START, "b")
	_ = g.AddEdge("a", END)
	_ = g.AddEdge("b", END)
	r, err := g.Compile(ctx, WithNodeTriggerMode(AllPredecessor))
	vassert(err == nil, "fan-in graph compiles")
	drain := func(sr *schema.StreamReader[map[string]any]) (map[string]any, error) {
		var chunks []map[string]any
		defer sr.Close()
		for i := 0; i < 8; i++ {
			c, e := sr.Recv()
			if e == io.EOF {
				break
			}
			if e != nil {
				return nil, e
			}
			chunks = append(chunks, c)
		}
		if len(chunks) == 0 {
			return nil, nil
		}
		return concatStreamReader(schema.StreamReaderFromArray(chunks))
	}
	_, e0 := r.Invoke(ctx, "x")
	var e1, e3 error
	if sr, e := r.Stream(ctx, "x"); e != nil {
		e1 = e
	} else {
		_, e1 = drain(sr)
	}
	_, e2 := r.Collect(ctx, schema.StreamReaderFromArray([]string{"x"}))
	if sr, e := r.Transform(ctx, schema.StreamReaderFromArray([]string{"x"})); e != nil {
		e3 = e
	} else {
		_, e3 = drain(sr)
	}
	what := []string{"the same key in both maps", "a nil value under a key"}[kind]
	vassert((e0 == nil) == (e1 == nil) && (e0 == nil) == (e2 == nil) && (e0 == nil) == (e3 == nil),
		"fan-in with "+what+": Invoke, Stream, Collect and Transform all succeed or all fail")
}

func VerifC04FanInDuplicateKey() { c04FanInOdd(0) }
func VerifC04FanInNilValue()     { c04FanInOdd(1) }

// fan-in of two nodes typed any whose values are maps: the four paradigms give the same verdict
func VerifC04FanInAnyTyped() {
	ctx := context.Background()
	vcfg("fifo", 1)
	vcfg("selectfirst", 1)
	g := NewGraph[string, any]()
	_ = g.AddLambdaNode("a", InvokableLambda(func(ctx context.Context, in string) (any, error) { return map[string]any{"a": 1}, nil }))
	_ = g.AddLambdaNode("b", InvokableLambda(func(ctx context.Context, in string) (any, error) { return map[string]any{"b": 2}, nil }))
	_ = g.AddEdge(START, "a")
	_ = g.AddEdge(START, "b")
	_ = g.AddEdge("a", END)
	_ = g.AddEdge("b", END)
	r, err := g.Compile(ctx, WithNodeTriggerMode(AllPredecessor))
	vassert(err == nil, "fan-in graph compiles")
	_, e0 := r.Invoke(ctx, "x")
	var e1 error
	if sr, e := r.Stream(ctx, "x"); e != nil {
		e1 = e
	} else {
		for i := 0; i < 4; i++ {
			if _, e := sr.Recv(); e != nil {
				if e != io.EOF {
					e1 = e
				}
				break
			}
		}
		sr.Close()
	}
	_, e2 := r.Collect(ctx, schema.StreamReaderFromArray([]string{"x"}))
	vassert((e0 == nil) == (e1 == nil) && (e0 == nil) == (e2 == nil), "fan-in of any-typed nodes carrying maps: Invoke, Stream and Collect all succeed or all fail")
}

// A workflow node that is triggered by a dependency only (it has no data input at all) and whose input and output
// types differ, next to an ordinary node: the four paradigms agree (the node runs on the zero value / an empty
// stream of its input type in each of them).
func VerifC04DependencyOnly() {
	ctx := context.Background()
	vcfg("fifo", 1)
	vcfg("selectfirst", 1)
	fa := c04Fn{name: "a"}
	type dIn struct{ N int }
	wf := NewWorkflow[string, string]()
	wf.AddLambdaNode("a", fa.lambda(1<<uint(vchoose("native", 4)))).AddInput(START)
	wf.AddLambdaNode("dep", InvokableLambda(func(ctx context.Context, in dIn) (string, error) {
		if in.N != 0 {
			return "", c04Err
		}
		return "d", nil
	})).AddDependency("a")
	// (a map-typed join: chunks of a struct-typed input need a registered concat function, which is not the subject)
	wf.AddLambdaNode("join", InvokableLambda(func(ctx context.Context, in map[string]any) (string, error) {
		a, _ := in["A"].(string)
		d, _ := in["D"].(string)
		return a + d, nil
	})).AddInput("a", ToField("A")).AddInput("dep", ToField("D"))
	wf.End().AddInput("join")
	r, err := wf.Compile(ctx)
	vassert(err == nil, "workflow compiles")
	c04Agree(r, "", false, "dependency-only node")
}

// A node typed any behind an input key, fed a map that holds nil under that key (the zero value of the node's input
// type): the four paradigms give the same verdict.
func VerifC04InputKeyNil() {
	ctx := context.Background()
	vcfg("fifo", 1)
	vcfg("selectfirst", 1)
	g := NewGraph[map[string]any, string]()
	_ = g.AddLambdaNode("n", InvokableLambda(func(ctx context.Context, in any) (string, error) {
		if in == nil {
			return "nil", nil
		}
		return "value", nil
	}), WithInputKey("k"))
	_ = g.AddEdge(START, "n")
	_ = g.AddEdge("n", END)
	r, err := g.Compile(ctx)
	vassert(err == nil, "graph compiles")
	var v any
	if vchoose("value", 2) == 1 {
		v = 5
	}
	in := map[string]any{"k": v}
	var outs [4]string
	var errs [4]error
	outs[0], errs[0] = r.Invoke(ctx, in)
	if sr, e := r.Stream(ctx, in); e != nil {
		errs[1] = e
	} else {
		outs[1], errs[1] = c04Drain(sr)
	}
	outs[2], errs[2] = r.Collect(ctx, schema.StreamReaderFromArray([]map[string]any{in}))
	if sr, e := r.Transform(ctx, schema.StreamReaderFromArray([]map[string]any{in})); e != nil {
		errs[3] = e
	} else {
		outs[3], errs[3] = c04Drain(sr)
	}
	for k := 1; k < 4; k++ {
		vassert((errs[k] == nil) == (errs[0] == nil), "a nil (or any) value under the input key of an any-typed node: "+c04ParNames[k]+" gives the verdict Invoke gives")
		if errs[k] == nil && errs[0] == nil {
			vassert(outs[k] == outs[0], c04ParNames[k]+" gives the result Invoke gives")
		}
	}
}

// A field mapping from a map key that the predecessor never produces: whatever the verdict, the four paradigms give
// the same one (with the key present they all succeed).
func VerifC04MissingKey() {
	ctx := context.Background()
	vcfg("fifo", 1)
	vcfg("selectfirst", 1)
	present := vchoose("present", 2) == 1
	wf := NewWorkflow[string, string]()
	wf.AddLambdaNode("a", InvokableLambda(func(ctx context.Context, in string) (map[string]any, error) {
		if present {
			return map[string]any{"x": in, "k": "v"}, nil
		}
		return map[string]any{"x": in}, nil
	})).AddInput(START)
	wf.AddLambdaNode("b", InvokableLambda(func(ctx context.Context, in map[string]any) (string, error) {
		s, _ := in["f"].(string)
		return "b:" + s, nil
	})).AddInput("a", MapFields("k", "f"))
	wf.End().AddInput("b")
	r, err := wf.Compile(ctx)
	vassert(err == nil, "workflow compiles")
	outs, errs := c04Four(r, "p", "q")
	for k := 1; k < 4; k++ {
		vassert((errs[k] == nil) == (errs[0] == nil), "a mapping from a key the predecessor never produces: "+c04ParNames[k]+" gives the verdict Invoke gives")
		if errs[k] == nil && errs[0] == nil {
			vassert(outs[k] == outs[0], c04ParNames[k]+" gives the result Invoke gives")
		}
	}
	if present {
		vassert(errs[0] == nil && outs[0] == "b:v", "with the key present the mapped value arrives")
	}
}
