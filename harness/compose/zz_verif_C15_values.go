package compose

import (
	"context"
	"io"
	"strings"

	"github.com/cloudwego/eino/schema"
)

// C15 (b): accepted field mappings move exactly the mapped values.

type c15SrcIn struct {
	X int
	Y string
}
type c15Src struct {
	A  int
	B  string
	In c15SrcIn
	P  *c15SrcIn
	M  map[string]any
	I  any
}
type c15Leaf struct{ W int }
type c15DstIn struct {
	U  int
	V  string
	PM map[string]int
	PP *c15Leaf
}
type c15Dst struct {
	F  int
	G  string
	N  c15DstIn
	PN *c15DstIn
	MV map[string]any
	MS map[string]c15DstIn
	MP map[string]*c15DstIn
	H  any
}

func c15DstInEq(a, b c15DstIn) bool {
	if a.U != b.U || a.V != b.V || len(a.PM) != len(b.PM) {
		return false
	}
	for k, v := range a.PM {
		if w, ok := b.PM[k]; !ok || v != w {
			return false
		}
	}
	if (a.PP == nil) != (b.PP == nil) {
		return false
	}
	return a.PP == nil || a.PP.W == b.PP.W
}

func c15AnyEq(a, b any) bool {
	switch x := a.(type) {
	case nil:
		return b == nil
	case int:
		y, ok := b.(int)
		return ok && x == y
	case string:
		y, ok := b.(string)
		return ok && x == y
	case map[string]any:
		y, ok := b.(map[string]any)
		if !ok || len(x) != len(y) {
			return false
		}
		for k, v := range x {
			w, ok := y[k]
			if !ok || !c15AnyEq(v, w) {
				return false
			}
		}
		return true
	}
	return false
}

func c15DstEq(a, b *c15Dst) bool {
	if a.F != b.F || a.G != b.G || !c15DstInEq(a.N, b.N) {
		return false
	}
	if (a.PN == nil) != (b.PN == nil) || (a.PN != nil && !c15DstInEq(*a.PN, *b.PN)) {
		return false
	}
	if !c15AnyEq(anyMap(a.MV), anyMap(b.MV)) || !c15AnyEq(a.H, b.H) {
		return false
	}
	if len(a.MS) != len(b.MS) || len(a.MP) != len(b.MP) {
		return false
	}
	for k, v := range a.MS {
		if w, ok := b.MS[k]; !ok || !c15DstInEq(v, w) {
			return false
		}
	}
	for k, v := range a.MP {
		w, ok := b.MP[k]
		if !ok || (v == nil) != (w == nil) || (v != nil && !c15DstInEq(*v, *w)) {
			return false
		}
	}
	return true
}

func anyMap(m map[string]any) any {
	if len(m) == 0 {
		return nil
	}
	return m
}

type c15Cand struct {
	from, to FieldPath
	apply    func(s *c15Src, d *c15Dst)
	name     string
}

func c15Cands() []c15Cand {
	return []c15Cand{
		{FieldPath{"A"}, FieldPath{"F"}, func(s *c15Src, d *c15Dst) { d.F = s.A }, "A->F"},
		{FieldPath{"B"}, FieldPath{"G"}, func(s *c15Src, d *c15Dst) { d.G = s.B }, "B->G"},
		{FieldPath{"In", "X"}, FieldPath{"N", "U"}, func(s *c15Src, d *c15Dst) { d.N.U = s.In.X }, "In.X->N.U"},
		{FieldPath{"In", "Y"}, FieldPath{"PN", "V"}, func(s *c15Src, d *c15Dst) {
			if d.PN == nil {
				d.PN = &c15DstIn{}
			}
			d.PN.V = s.In.Y
		}, "In.Y->PN.V"},
		{FieldPath{"P", "X"}, FieldPath{"MV", "k1"}, func(s *c15Src, d *c15Dst) {
			if d.MV == nil {
				d.MV = map[string]any{}
			}
			d.MV["k1"] = s.P.X
		}, "P.X->MV.k1"},
		{FieldPath{"A"}, FieldPath{"MS", "k", "U"}, func(s *c15Src, d *c15Dst) {
			if d.MS == nil {
				d.MS = map[string]c15DstIn{}
			}
			e := d.MS["k"]
			e.U = s.A
			d.MS["k"] = e
		}, "A->MS.k.U"},
		{FieldPath{"In", "X"}, FieldPath{"MS", "k", "PM", "q"}, func(s *c15Src, d *c15Dst) {
			if d.MS == nil {
				d.MS = map[string]c15DstIn{}
			}
			e := d.MS["k"]
			if e.PM == nil {
				e.PM = map[string]int{}
			}
			e.PM["q"] = s.In.X
			d.MS["k"] = e
		}, "In.X->MS.k.PM.q"},
		{FieldPath{"P", "X"}, FieldPath{"MS", "j", "PP", "W"}, func(s *c15Src, d *c15Dst) {
			if d.MS == nil {
				d.MS = map[string]c15DstIn{}
			}
			e := d.MS["j"]
			if e.PP == nil {
				e.PP = &c15Leaf{}
			}
			e.PP.W = s.P.X
			d.MS["j"] = e
		}, "P.X->MS.j.PP.W"},
		{FieldPath{"B"}, FieldPath{"H", "x", "y"}, func(s *c15Src, d *c15Dst) {
			d.H = map[string]any{"x": map[string]any{"y": s.B}}
		}, "B->H.x.y"},
		{FieldPath{"A"}, FieldPath{"MP", "p", "U"}, func(s *c15Src, d *c15Dst) {
			if d.MP == nil {
				d.MP = map[string]*c15DstIn{}
			}
			if d.MP["p"] == nil {
				d.MP["p"] = &c15DstIn{}
			}
			d.MP["p"].U = s.A
		}, "A->MP.p.U"},
	}
}

func c15Values(maxSel int) {
	ctx := context.Background()
	vcfg("fifo", 1)
	vcfgMapOrderIn("convertTo")
	a, x, px := vsymInt("a"), vsymInt("x"), vsymInt("px")
	src := c15Src{A: a, B: "b", In: c15SrcIn{X: x, Y: "y"}, P: &c15SrcIn{X: px, Y: "py"}, M: map[string]any{"mk": 1}}
	snapshot := src
	snapshotP := *src.P
	var got *c15Dst
	wf := NewWorkflow[int, int]()
	wf.AddLambdaNode("s", InvokableLambda(func(ctx context.Context, in int) (c15Src, error) { return src, nil })).AddInput(START)
	var ms []*FieldMapping
	want := &c15Dst{}
	desc := ""
	nsel := 0
	for _, c := range c15Cands() {
		if nsel < maxSel && vchoose("sel", 2) == 1 {
			nsel++
			ms = append(ms, MapFieldPaths(c.from, c.to))
			c.apply(&src, want)
			desc += c.name + " "
		}
	}
	if len(ms) == 0 {
		return
	}
	wf.AddLambdaNode("t", InvokableLambda(func(ctx context.Context, in c15Dst) (int, error) { got = &in; return 1, nil })).AddInput("s", ms...)
	wf.End().AddInput("t")
	r, err := wf.Compile(ctx)
	vassert(err == nil, "non-overlapping mappings compile: "+desc)
	runs := 1
	useStream := vchoose("stream", 2) == 1
	for i := 0; i < runs+1; i++ {
		got = nil
		var rerr error
		if useStream {
			sr, e := r.Stream(ctx, 0)
			rerr = e
			if e == nil {
				for k := 0; k < 4; k++ {
					if _, e := sr.Recv(); e != nil {
						break
					}
				}
				sr.Close()
			}
		} else {
			_, rerr = r.Invoke(ctx, 0)
		}
		vassert(rerr == nil, "run with statically valid mappings succeeds: "+desc)
		vassert(got != nil && c15DstEq(got, want), "every mapped target path holds the value of its source path and everything else is zero: "+desc)
	}
	vassert(src.A == snapshot.A && src.B == snapshot.B && src.In == snapshot.In && src.P != nil && *src.P == snapshotP && len(src.M) == 1, "the predecessor's output is not modified: "+desc)
}

func VerifC15Values2() { c15Values(2) }
func VerifC15Values3() { c15Values(3) }

// mappings whose types can only be checked at run time: interface-typed source field
func VerifC15RuntimeCheck() {
	ctx := context.Background()
	vcfg("fifo", 1)
	vcfg("selectfirst", 1)
	dyn := vchoose("dyn", 4) // what the interface-typed source field holds: 0 int, 1 string, 2 nil, 3 struct
	var iv any
	x := vsymInt("x")
	switch dyn {
	case 0:
		iv = x
	case 1:
		iv = "s"
	case 3:
		iv = c15SrcIn{X: x}
	}
	var got *c15Dst
	wf := NewWorkflow[int, int]()
	wf.AddLambdaNode("s", InvokableLambda(func(ctx context.Context, in int) (c15Src, error) {
		return c15Src{I: iv, A: 1, M: map[string]any{"k": iv, "j": "t"}}, nil
	})).AddInput(START)
	sel := vchoose("mapping", 5)
	var ms []*FieldMapping
	switch sel {
	case 0:
		ms = []*FieldMapping{MapFieldPaths(FieldPath{"I"}, FieldPath{"F"})}
	case 1:
		ms = []*FieldMapping{MapFieldPaths(FieldPath{"I"}, FieldPath{"F"}), MapFieldPaths(FieldPath{"A"}, FieldPath{"N", "U"})}
	case 2:
		ms = []*FieldMapping{MapFieldPaths(FieldPath{"I", "X"}, FieldPath{"F"})}
	case 3: // a value taken from a map[string]any: its type is only known at run time as well
		ms = []*FieldMapping{MapFieldPaths(FieldPath{"M", "k"}, FieldPath{"F"})}
	case 4: // two run-time-checked mappings with different target types on one connection
		ms = []*FieldMapping{MapFieldPaths(FieldPath{"M", "k"}, FieldPath{"F"}), MapFieldPaths(FieldPath{"M", "j"}, FieldPath{"G"})}
	}
	wf.AddLambdaNode("t", InvokableLambda(func(ctx context.Context, in c15Dst) (int, error) { got = &in; return 1, nil })).AddInput("s", ms...)
	wf.End().AddInput("t")
	r, err := wf.Compile(ctx)
	vassert(err == nil, "mappings from an interface-typed field compile (checked at run time)")
	var rerr error
	if vchoose("stream", 2) == 1 {
		sr, e := r.Stream(ctx, 0)
		rerr = e
		if e == nil {
			for i := 0; i < 4; i++ {
				_, e := sr.Recv()
				if e == io.EOF {
					break
				}
				if e != nil {
					rerr = e
					break
				}
			}
			sr.Close()
		}
	} else {
		_, rerr = r.Invoke(ctx, 0)
	}
	ok := (sel != 2 && dyn == 0) || (sel == 2 && dyn == 3)
	if ok {
		vassert(rerr == nil && got != nil && got.F == x, "a dynamic value of the right type is mapped, in non-streaming and streaming execution")
		if sel == 4 {
			vassert(got.G == "t", "each run-time-checked mapping is checked against its own target type")
		}
	} else {
		vassert(rerr != nil, "a dynamic value that does not fit the target is reported as an error")
		vassert(!strings.Contains(rerr.Error(), "panic"), "a mapping that can only be checked at run time yields an ordinary error, never a panic")
	}
}

func VerifC15InputKey() {
	ctx := context.Background()
	vcfg("fifo", 1)
	a := vsymInt("a")
	got := -1
	wf := NewWorkflow[int, int]()
	wf.AddLambdaNode("s", InvokableLambda(func(ctx context.Context, in int) (c15Src, error) { return c15Src{A: a, B: "b"}, nil })).AddInput(START)
	wf.AddLambdaNode("t", InvokableLambda(func(ctx context.Context, in int) (int, error) { got = in; return in, nil }), WithInputKey("k")).
		AddInput("s", MapFieldPaths(FieldPath{"A"}, FieldPath{"k"}))
	wf.End().AddInput("t")
	r, err := wf.Compile(ctx)
	vassert(err == nil, "field mapping into the key of an input-keyed node compiles")
	if vchoose("stream", 2) == 1 {
		sr, e := r.Stream(ctx, 0)
		vassert(e == nil, "stream run starts")
		for i := 0; i < 4; i++ {
			if _, e := sr.Recv(); e != nil {
				break
			}
		}
		sr.Close()
	} else {
		_, e := r.Invoke(ctx, 0)
		vassert(e == nil, "run succeeds")
	}
	vassert(got == a, "the input-keyed node receives the mapped value under its key")
}

// maps keyed by a named string type: a mapping through them is either rejected at compile time or works
type c15Lang string
type c15LangSrc struct{ M map[c15Lang]int }
type c15LangDst struct{ M map[c15Lang]int }

func VerifC15NamedKey() {
	ctx := context.Background()
	vcfg("fifo", 1)
	side := vchoose("side", 2)
	x := vsymInt("x")
	var got *c15LangDst
	wf := NewWorkflow[int, int]()
	wf.AddLambdaNode("s", InvokableLambda(func(ctx context.Context, in int) (c15LangSrc, error) {
		return c15LangSrc{M: map[c15Lang]int{"en": x}}, nil
	})).AddInput(START)
	var fm *FieldMapping
	if side == 0 {
		fm = MapFieldPaths(FieldPath{"M", "en"}, FieldPath{"M"}) // from a named-key map element (type mismatch int->map is also a rejection)
	} else {
		fm = MapFieldPaths(FieldPath{"M"}, FieldPath{"M"})
	}
	wf.AddLambdaNode("t", InvokableLambda(func(ctx context.Context, in c15LangDst) (int, error) { got = &in; return 1, nil })).AddInput("s", fm)
	wf.End().AddInput("t")
	r, err := wf.Compile(ctx)
	if err != nil {
		vassert(r == nil, "rejected at compile time (allowed): no runnable is handed out")
		return
	}
	_, rerr := r.Invoke(ctx, 0)
	vassert(rerr == nil, "an accepted mapping through a map with a named string key type runs without error or panic")
	vassert(got != nil && got.M["en"] == x, "and moves the value")
}

func VerifC15NamedKeyPath() {
	ctx := context.Background()
	vcfg("fifo", 1)
	x := vsymInt("x")
	got := -1
	wf := NewWorkflow[int, int]()
	wf.AddLambdaNode("s", InvokableLambda(func(ctx context.Context, in int) (c15LangSrc, error) {
		return c15LangSrc{M: map[c15Lang]int{"en": x}}, nil
	})).AddInput(START)
	wf.AddLambdaNode("t", InvokableLambda(func(ctx context.Context, in c15Dst) (int, error) { got = in.F; return 1, nil })).
		AddInput("s", MapFieldPaths(FieldPath{"M", "en"}, FieldPath{"F"}))
	wf.End().AddInput("t")
	r, err := wf.Compile(ctx)
	if err != nil {
		vassert(r == nil, "rejected at compile time (allowed): no runnable is handed out")
		return
	}
	_, rerr := r.Invoke(ctx, 0)
	vassert(rerr == nil, "an accepted mapping from an element of a map with a named string key type runs without error or panic")
	vassert(got == x, "and moves the value")
}

// Multi-chunk streams through field mappings: a streaming predecessor emits 2-3 map chunks each carrying any subset
// of the mapped keys; every chunk is mapped on its own and the successor sees, under each target key, the
// concatenation (in chunk order) of the values its source key carried; a key that never appears is an ordinary
// error or an absent target, never a panic.
func VerifC15StreamChunks() { c15StreamChunks(false) }

// the same with a typed target (string fields of a struct): every mapping gets a run-time checker, which must cope
// with chunks that carry only some of the mapped keys
func VerifC15StreamChunksTyped() { c15StreamChunks(true) }

type c15FG struct{ F, G string }

func c15StreamChunks(typed bool) {
	ctx := context.Background()
	vcfg("fifo", 1)
	vcfg("selectfirst", 1)
	n := 2 + vchoose("chunks", 1+vtier())
	keys := []string{"A", "B"}
	var chunks []map[string]any
	want := map[string]string{}
	seen := map[string]bool{}
	for i := 0; i < n; i++ {
		sub := vchoose("subset", 4)
		c := map[string]any{}
		for k, key := range keys {
			if sub&(1<<k) != 0 {
				v := vsymStr("v_" + key + string(rune('0'+i)))
				if typed {
					vassume(v != "") // the typed consumer cannot tell an empty field from an absent one
				}
				c[key] = v
				want[key] += v
				seen[key] = true
			}
		}
		c["other"] = "zz"
		chunks = append(chunks, c)
	}
	var got map[string]any
	wf := NewWorkflow[int, map[string]any]()
	wf.AddLambdaNode("src", StreamableLambda(func(ctx context.Context, in int) (*schema.StreamReader[map[string]any], error) {
		return schema.StreamReaderFromArray(chunks), nil
	})).AddInput(START)
	if typed {
		wf.AddLambdaNode("dst", CollectableLambda(func(ctx context.Context, sr *schema.StreamReader[c15FG]) (map[string]any, error) {
			acc := map[string]any{}
			for i := 0; i < 8; i++ {
				c, e := sr.Recv()
				if e == io.EOF {
					break
				}
				if e != nil {
					sr.Close()
					return nil, e
				}
				if c.F != "" {
					f, _ := acc["F"].(string)
					acc["F"] = f + c.F
				}
				if c.G != "" {
					g, _ := acc["G"].(string)
					acc["G"] = g + c.G
				}
			}
			sr.Close()
			got = acc
			return acc, nil
		})).AddInput("src", MapFields("A", "F"), MapFields("B", "G"))
	} else {
		wf.AddLambdaNode("dst", InvokableLambda(func(ctx context.Context, in map[string]any) (map[string]any, error) {
			got = in
			return in, nil
		})).AddInput("src", MapFields("A", "F"), MapFields("B", "G"))
	}
	wf.End().AddInput("dst")
	r, err := wf.Compile(ctx)
	vassert(err == nil, "workflow with map-key mappings compiles")
	var out map[string]any
	var rerr error
	if vchoose("stream", 2) == 1 {
		sr, e := r.Stream(ctx, 0)
		rerr = e
		if e == nil {
			var parts []map[string]any
			for i := 0; i < 6; i++ {
				c, e := sr.Recv()
				if e == io.EOF {
					break
				}
				if e != nil {
					rerr = e
					break
				}
				parts = append(parts, c)
			}
			sr.Close()
			if rerr == nil {
				out = map[string]any{}
				for _, p := range parts {
					for k, v := range p {
						if s, ok := v.(string); ok {
							if o, ok := out[k].(string); ok {
								out[k] = o + s
							} else {
								out[k] = s
							}
						}
					}
				}
			}
		}
	} else {
		out, rerr = r.Invoke(ctx, 0)
	}
	if !(seen["A"] && seen["B"]) {
		// a mapped key that no chunk carries: an ordinary error, or the target is simply absent
		if rerr == nil {
			for k, key := range keys {
				_, has := got[[]string{"F", "G"}[k]]
				vassert(has == seen[key], "a target key is present exactly when some chunk carried its source key")
			}
		}
		return
	}
	vassert(rerr == nil, "run succeeds when every mapped key is carried by some chunk")
	for k, key := range keys {
		to := []string{"F", "G"}[k]
		s, ok := got[to].(string)
		vassert(ok && s == want[key], "target key "+to+" holds the concatenation, in chunk order, of what source key "+key+" carried")
		s2, ok2 := out[to].(string)
		vassert(ok2 && s2 == want[key], "and the run's output carries it unchanged")
	}
	_, extra := got["other"]
	vassert(!extra && len(got) == 2, "nothing that was not mapped reaches the successor")
	for _, c := range chunks {
		vassert(c["other"] == "zz", "the predecessor's chunks are left unchanged")
	}
}

// "identically on every run": a successor fed by a mapping plus static values receives the same input on the first,
// second and third run of one compiled workflow, whatever mix of non-streaming and streaming calls is used.
// In streaming execution the static values travel as a chunk of their own; struct chunks are only concatenated when a
// concat function is registered for the type (eino's documented rule), so the target type registers one.
type c15SV struct {
	F int
	G string
	U int
}

var c15SVRegistered = false

func VerifC15EveryRun() {
	ctx := context.Background()
	vcfg("fifo", 1)
	vcfg("selectfirst", 1)
	if !c15SVRegistered {
		RegisterStreamChunkConcatFunc(func(cs []c15SV) (c15SV, error) {
			var r c15SV
			for _, c := range cs {
				if c.F != 0 {
					r.F = c.F
				}
				if c.G != "" {
					r.G += c.G
				}
				if c.U != 0 {
					r.U = c.U
				}
			}
			return r, nil
		})
		c15SVRegistered = true
	}
	a := vsymInt("a")
	var got []c15SV
	wf := NewWorkflow[int, int]()
	wf.AddLambdaNode("s", InvokableLambda(func(ctx context.Context, in int) (c15Src, error) { return c15Src{A: a, B: "b"}, nil })).AddInput(START)
	wf.AddLambdaNode("t", InvokableLambda(func(ctx context.Context, in c15SV) (int, error) { got = append(got, in); return 1, nil })).
		AddInput("s", MapFieldPaths(FieldPath{"A"}, FieldPath{"F"})).
		SetStaticValue(FieldPath{"G"}, "static").SetStaticValue(FieldPath{"U"}, 7)
	wf.End().AddInput("t")
	r, err := wf.Compile(ctx)
	vassert(err == nil, "workflow with a mapping and static values compiles")
	for k := 0; k < 3; k++ {
		var e error
		if vchoose("stream", 2) == 1 {
			sr, e2 := r.Stream(ctx, 0)
			e = e2
			if e2 == nil {
				for i := 0; i < 4; i++ {
					if _, e3 := sr.Recv(); e3 != nil {
						if e3 != io.EOF {
							e = e3
						}
						break
					}
				}
				sr.Close()
			}
		} else {
			_, e = r.Invoke(ctx, 0)
		}
		vassert(e == nil, "every run succeeds")
		vassert(len(got) == k+1, "the successor runs once per run")
		d := got[k]
		vassert(d.F == a && d.G == "static" && d.U == 7, "every run hands the successor the mapped value and the static values")
	}
}

// Ill-typed declarations that only involve concrete types are rejected when the workflow is compiled (or at the
// latest reported as an ordinary error by the run), never a panic: a source path that continues below a field of a
// basic type, and a static value whose type does not fit the field it is set on.
func VerifC15StaticChecks() {
	ctx := context.Background()
	vcfg("fifo", 1)
	vcfg("selectfirst", 1)
	kind := vchoose("kind", 8)
	if kind == 7 { // static values on END, well typed and ill typed
		ill := vchoose("ill", 2) == 1
		w2 := NewWorkflow[int, c15SV]()
		w2.AddLambdaNode("s", InvokableLambda(func(ctx context.Context, in int) (c15Src, error) { return c15Src{A: 1}, nil })).AddInput(START)
		e := w2.End().AddInput("s", MapFieldPaths(FieldPath{"A"}, FieldPath{"F"}))
		if ill {
			e.SetStaticValue(FieldPath{"G"}, 12)
		} else {
			e.SetStaticValue(FieldPath{"G"}, "g")
		}
		r2, err := w2.Compile(ctx)
		if ill {
			vassert(err != nil, "an ill-typed static value on END is rejected at Compile")
			return
		}
		vassert(err == nil, "a static value on END compiles")
		out, rerr := r2.Invoke(ctx, 0)
		vassert(rerr == nil && out.F == 1 && out.G == "g", "END receives the mapped and the static value")
		return
	}
	wf := NewWorkflow[int, int]()
	wf.AddLambdaNode("s", InvokableLambda(func(ctx context.Context, in int) (c15Src, error) { return c15Src{A: 1, B: "b"}, nil })).AddInput(START)
	var got *c15SV
	t := wf.AddLambdaNode("t", InvokableLambda(func(ctx context.Context, in c15SV) (int, error) { got = &in; return 1, nil }))
	wellTyped := false
	switch kind {
	case 0: // a path below an int field
		t.AddInput("s", MapFieldPaths(FieldPath{"A", "Z"}, FieldPath{"F"}))
	case 1: // a path below a string field
		t.AddInput("s", MapFieldPaths(FieldPath{"B", "Z"}, FieldPath{"G"}))
	case 2: // target path below an int field
		t.AddInput("s", MapFieldPaths(FieldPath{"A"}, FieldPath{"F", "Z"}))
	case 3: // static value of the wrong type for a string field
		t.AddInput("s", MapFieldPaths(FieldPath{"A"}, FieldPath{"F"})).SetStaticValue(FieldPath{"G"}, 12)
	case 4: // static value of the wrong type for an int field
		t.AddInput("s", MapFieldPaths(FieldPath{"A"}, FieldPath{"F"})).SetStaticValue(FieldPath{"U"}, "seven")
	case 5: // nil static value for an int field
		t.AddInput("s", MapFieldPaths(FieldPath{"A"}, FieldPath{"F"})).SetStaticValue(FieldPath{"U"}, nil)
	case 6: // well-typed control
		t.AddInput("s", MapFieldPaths(FieldPath{"A"}, FieldPath{"F"})).SetStaticValue(FieldPath{"G"}, "g").SetStaticValue(FieldPath{"U"}, 7)
		wellTyped = true
	}
	wf.End().AddInput("t")
	r, err := wf.Compile(ctx)
	if wellTyped {
		vassert(err == nil, "the well-typed workflow compiles")
	}
	if err != nil {
		return // rejected at compile time: what the property asks for
	}
	_, rerr := r.Invoke(ctx, 0)
	if wellTyped {
		vassert(rerr == nil && got != nil && got.F == 1 && got.G == "g" && got.U == 7, "mapped and static values arrive")
		return
	}
	vassert(rerr != nil, "an ill-typed declaration that compiled must at least fail the run")
	vassert(!strings.Contains(rerr.Error(), "panic"), "with an ordinary error, not a recovered panic")
}

type c15AnySrc struct {
	A any
	P *int
}
type c15PtrMapDst struct{ M map[string]*c15Leaf }

// run-time-only situations around nil and pointers: each ends in a result or an ordinary error, never a panic
func VerifC15RuntimeNil() {
	ctx := context.Background()
	vcfg("fifo", 1)
	vcfg("selectfirst", 1)
	kind := vchoose("kind", 9)
	var run func(stream bool) error
	switch kind {
	case 0: // a nil value of an any-typed source field mapped to the whole (any-typed) input of END
		wf := NewWorkflow[c15AnySrc, any]()
		wf.End().AddInput(START, FromField("A"))
		r, err := wf.Compile(ctx)
		vassert(err == nil, "compiles")
		run = func(stream bool) error {
			if stream {
				sr, e := r.Stream(ctx, c15AnySrc{})
				if e != nil {
					return e
				}
				defer sr.Close()
				_, e = sr.Recv()
				if e == io.EOF {
					return nil
				}
				return e
			}
			_, e := r.Invoke(ctx, c15AnySrc{})
			return e
		}
	case 1: // a nil value of an any-typed source field mapped to a key of a map of pointers
		wf := NewWorkflow[c15AnySrc, c15PtrMapDst]()
		wf.End().AddInput(START, MapFieldPaths(FieldPath{"A"}, FieldPath{"M", "k"}))
		r, err := wf.Compile(ctx)
		if err != nil {
			return
		}
		run = func(stream bool) error {
			if stream {
				sr, e := r.Stream(ctx, c15AnySrc{})
				if e != nil {
					return e
				}
				defer sr.Close()
				_, e = sr.Recv()
				if e == io.EOF {
					return nil
				}
				return e
			}
			_, e := r.Invoke(ctx, c15AnySrc{})
			return e
		}
	case 7: // a nil at the end of a path below an any-typed value, mapped to a pointer-typed input: fits, or an ordinary error
		wf := NewWorkflow[map[string]any, string]()
		wf.AddLambdaNode("c", InvokableLambda(func(ctx context.Context, in *string) (string, error) {
			if in == nil {
				return "nil", nil
			}
			return *in, nil
		})).AddInput(START, FromFieldPath(FieldPath{"F1", "k", "j"}))
		wf.End().AddInput("c")
		r, err := wf.Compile(ctx)
		vassert(err == nil, "compiles (the type below the any value is only known at run time)")
		in := map[string]any{"F1": map[string]any{"k": map[string]any{"j": nil}}}
		run = func(stream bool) error {
			if stream {
				sr, e := r.Stream(ctx, in)
				if e != nil {
					return e
				}
				defer sr.Close()
				_, e = sr.Recv()
				if e == io.EOF {
					return nil
				}
				return e
			}
			_, e := r.Invoke(ctx, in)
			return e
		}
	case 8: // the same nil mapped to a non-nillable (string) input: an ordinary run-time error, in both paradigms
		wf := NewWorkflow[map[string]any, string]()
		wf.AddLambdaNode("c", InvokableLambda(func(ctx context.Context, in string) (string, error) {
			return in, nil
		})).AddInput(START, FromFieldPath(FieldPath{"F1", "k", "j"}))
		wf.End().AddInput("c")
		r, err := wf.Compile(ctx)
		vassert(err == nil, "compiles (the type below the any value is only known at run time)")
		in := map[string]any{"F1": map[string]any{"k": map[string]any{"j": nil}}}
		run = func(stream bool) error {
			if stream {
				sr, e := r.Stream(ctx, in)
				if e != nil {
					return e
				}
				defer sr.Close()
				_, e = sr.Recv()
				if e == io.EOF {
					return nil
				}
				return e
			}
			_, e := r.Invoke(ctx, in)
			return e
		}
	case 2, 3, 4, 5, 6: // a path below an any-typed value that holds something without that field
		wf := NewWorkflow[map[string]any, map[string]any]()
		wf.End().AddInput(START, MapFieldPaths(FieldPath{"F1", "x"}, FieldPath{"out"}))
		r, err := wf.Compile(ctx)
		vassert(err == nil, "compiles (the type below the any value is only known at run time)")
		n := 5
		var v any = &n // a pointer to a non-struct
		switch kind {
		case 3:
			v = 5 // a non-struct
		case 4:
			v = map[int]string{1: "x"} // a map whose keys are not strings
		case 5:
			v = struct{ Y int }{1} // a struct without the field
		case 6:
			v = struct{ x int }{1} // a struct whose field of that name is not exported
		}
		run = func(stream bool) error {
			if stream {
				sr, e := r.Stream(ctx, map[string]any{"F1": v})
				if e != nil {
					return e
				}
				defer sr.Close()
				_, e = sr.Recv()
				if e == io.EOF {
					return nil
				}
				return e
			}
			_, e := r.Invoke(ctx, map[string]any{"F1": v})
			return e
		}
	}
	rerr := run(vchoose("stream", 2) == 1)
	if kind >= 2 && kind <= 6 {
		vassert(rerr != nil, "a path below a value that has no such field is a run-time error")
	}
	if kind == 8 {
		vassert(rerr != nil, "a nil taken below an any-typed value does not fit a string input: a run-time error")
	}
	if rerr != nil {
		vassert(!strings.Contains(rerr.Error(), "panic"), "reported as an ordinary error, not a recovered panic")
	}
}

type c15PIn struct {
	A int
	B string
}

// A pass-through node with field-mapped inputs, typed by the node that follows it (whose input and output types
// differ): the mapped values are assembled into the type the pass-through carries and reach the successor unchanged,
// in non-streaming and streaming execution.
func VerifC15PassthroughMapped() {
	ctx := context.Background()
	vcfg("fifo", 1)
	vcfg("selectfirst", 1)
	x := vsymInt("x")
	var got c15PIn
	wf := NewWorkflow[map[string]any, string]()
	wf.AddPassthroughNode("p").AddInput(START, MapFields("x", "A"), MapFields("s", "B"))
	wf.AddLambdaNode("c", InvokableLambda(func(ctx context.Context, in c15PIn) (string, error) {
		got = in
		return in.B, nil
	})).AddInput("p")
	wf.End().AddInput("c")
	r, err := wf.Compile(ctx)
	vassert(err == nil, "workflow with a field-mapped pass-through compiles")
	in := map[string]any{"x": x, "s": "t"}
	var out string
	var rerr error
	if vchoose("stream", 2) == 1 {
		sr, e := r.Stream(ctx, in)
		rerr = e
		if e == nil {
			out, rerr = sr.Recv()
			sr.Close()
		}
	} else {
		out, rerr = r.Invoke(ctx, in)
	}
	vassert(rerr == nil, "the run succeeds")
	vassert(got.A == x && got.B == "t" && out == "t", "the successor of the pass-through receives exactly the mapped values")
}

type c15MEInner struct{ A string }
type c15MEOuter struct {
	In  c15MEInner
	Any any
	P   *c15MEInner
}

// A target path that goes through a map element of (non-pointer or pointer) struct type and then further down - a
// nested struct field, an any-typed field expanded to a map, a pointer field: the mapped value arrives at exactly that
// path, also next to a second mapping into the same element.
func VerifC15MapElemStruct() {
	ctx := context.Background()
	vcfg("fifo", 1)
	vcfg("selectfirst", 1)
	x := vsymStr("x")
	kind := vchoose("kind", 4)
	second := vchoose("second", 2) == 1
	if kind < 3 {
		wf := NewWorkflow[map[string]any, map[string]c15MEOuter]()
		var ms []*FieldMapping
		switch kind {
		case 0:
			ms = append(ms, MapFieldPaths(FieldPath{"x"}, FieldPath{"key", "In", "A"}))
		case 1:
			ms = append(ms, MapFieldPaths(FieldPath{"x"}, FieldPath{"key", "Any", "k"}))
		case 2:
			ms = append(ms, MapFieldPaths(FieldPath{"x"}, FieldPath{"key", "P", "A"}))
		}
		if second {
			ms = append(ms, MapFieldPaths(FieldPath{"y"}, FieldPath{"other", "In", "A"}))
		}
		wf.End().AddInput(START, ms...)
		r, err := wf.Compile(ctx)
		vassert(err == nil, "workflow compiles")
		out, rerr := r.Invoke(ctx, map[string]any{"x": x, "y": "w"})
		vassert(rerr == nil, "the run succeeds")
		switch kind {
		case 0:
			vassert(out["key"].In.A == x, "a value mapped below a struct-typed map element arrives in the nested struct field")
		case 1:
			m, _ := out["key"].Any.(map[string]any)
			vassert(m["k"] == x, "a value mapped below a struct-typed map element arrives under the key of its any-typed field")
		case 2:
			vassert(out["key"].P != nil && out["key"].P.A == x, "a value mapped below a struct-typed map element arrives behind its pointer field")
		}
		if second {
			vassert(out["other"].In.A == "w", "and so does a second mapping into another element")
		}
		return
	}
	wf := NewWorkflow[map[string]any, map[string]*c15MEOuter]()
	wf.End().AddInput(START, MapFieldPaths(FieldPath{"x"}, FieldPath{"key", "In", "A"}))
	r, err := wf.Compile(ctx)
	vassert(err == nil, "workflow compiles")
	out, rerr := r.Invoke(ctx, map[string]any{"x": x})
	vassert(rerr == nil && out["key"] != nil && out["key"].In.A == x, "a value mapped below a pointer-typed map element arrives in the nested struct field")
}

type c15ArrIn struct{ Arr [2]int }

// a node whose whole input is an array type, fed by a mapping of a source field: the array arrives (never a panic)
func VerifC15ArrayInput() {
	ctx := context.Background()
	vcfg("fifo", 1)
	x := vsymInt("x")
	wf := NewWorkflow[c15ArrIn, [2]int]()
	wf.End().AddInput(START, FromField("Arr"))
	r, err := wf.Compile(ctx)
	if err != nil {
		return // refusing array-typed inputs at compile time would be fine as well
	}
	out, rerr := r.Invoke(ctx, c15ArrIn{Arr: [2]int{x, 2}})
	vassert(rerr == nil && out[0] == x && out[1] == 2, "an array-typed input receives the mapped array")
}

type c15Namer interface{ Name() string }
type c15NamedStr string

func (s c15NamedStr) Name() string { return string(s) }

type c15Hole struct{ X c15Namer }
type C15Base struct{ BF string }
type c15Emb struct {
	*C15Base
	Y string
}

// Declarations the static check cannot fully see through: a target path that continues below a field of an interface
// type other than any (nothing can be set there), and a field promoted through an embedded pointer to a struct (nil in
// a fresh target, possibly nil in a source value). Each is rejected at Compile or gives a result / an ordinary error
// at run time - never a panic.
func VerifC15OpaqueTargets() {
	ctx := context.Background()
	vcfg("fifo", 1)
	vcfg("selectfirst", 1)
	x := vsymStr("x")
	var rerr error
	switch vchoose("kind", 4) {
	case 0:
		wf := NewWorkflow[c15NamedStr, c15Hole]()
		wf.End().AddInput(START, ToFieldPath(FieldPath{"X", "k"}))
		r, err := wf.Compile(ctx)
		if err != nil {
			vassert(true, "rejected at compile time")
			return
		}
		_, rerr = r.Invoke(ctx, c15NamedStr(x))
		vassert(rerr != nil, "nothing can be set below a field of a non-empty interface type")
	case 1: // promoted field on the target side: the embedded pointer of the fresh target is nil
		wf := NewWorkflow[string, c15Emb]()
		wf.End().AddInput(START, ToField("BF"))
		r, err := wf.Compile(ctx)
		if err != nil {
			vassert(true, "rejected at compile time")
			return
		}
		var out c15Emb
		out, rerr = r.Invoke(ctx, x)
		if rerr == nil {
			vassert(out.C15Base != nil && out.BF == x, "a promoted target field receives the mapped value")
		}
	case 2: // promoted field on the source side, embedded pointer nil
		wf := NewWorkflow[c15Emb, string]()
		wf.End().AddInput(START, FromField("BF"))
		r, err := wf.Compile(ctx)
		if err != nil {
			vassert(true, "rejected at compile time")
			return
		}
		_, rerr = r.Invoke(ctx, c15Emb{Y: "y"})
		vassert(rerr != nil, "a promoted source field behind a nil embedded pointer cannot be read")
	case 3: // promoted field on the source side, embedded pointer set
		wf := NewWorkflow[c15Emb, string]()
		wf.End().AddInput(START, FromField("BF"))
		r, err := wf.Compile(ctx)
		if err != nil {
			vassert(true, "rejected at compile time")
			return
		}
		var out string
		out, rerr = r.Invoke(ctx, c15Emb{C15Base: &C15Base{BF: x}})
		vassert(rerr == nil && out == x, "a promoted source field is read through its embedded pointer")
	}
	if rerr != nil {
		vassert(!strings.Contains(rerr.Error(), "panic"), "reported as an ordinary error, not a recovered panic")
	}
}

// A promoted source field behind a nil embedded pointer, the predecessor's output being a pointer to the struct: the
// run reports an ordinary error and leaves the predecessor's output alone (nothing is allocated inside it).
func VerifC15SourceUntouched() {
	ctx := context.Background()
	vcfg("fifo", 1)
	vcfg("selectfirst", 1)
	rec := &c15Emb{Y: "y"}
	wf := NewWorkflow[string, string]()
	wf.AddLambdaNode("p", InvokableLambda(func(ctx context.Context, in string) (*c15Emb, error) { return rec, nil })).AddInput(START)
	wf.End().AddInput("p", FromField("BF"))
	r, err := wf.Compile(ctx)
	if err != nil {
		vassert(true, "rejected at compile time")
		return
	}
	var rerr error
	if vchoose("stream", 2) == 1 {
		sr, e := r.Stream(ctx, "x")
		rerr = e
		if e == nil {
			_, rerr = sr.Recv()
			sr.Close()
		}
	} else {
		_, rerr = r.Invoke(ctx, "x")
	}
	vassert(rerr != nil, "a promoted source field behind a nil embedded pointer cannot be read: an error")
	if rerr != nil {
		vassert(!strings.Contains(rerr.Error(), "panic"), "an ordinary error, not a recovered panic")
	}
	vassert(rec.C15Base == nil, "the predecessor's output is not modified")
}

type c15PSIn struct {
	A int
	B string
}

// A pass-through node with field-mapped inputs and a static value, typed by the node that follows it: a static value
// of the wrong type is rejected by Compile whatever order the workflow visits its nodes in (or, at the latest, the run
// fails with an ordinary error); a well-typed one arrives.
func VerifC15PassthroughStatic() {
	ctx := context.Background()
	vcfg("fifo", 1)
	vcfg("selectfirst", 1)
	vcfgMapOrderIn("compose.Workflow[")
	ill := vchoose("ill", 2) == 1
	var got c15PSIn
	wf := NewWorkflow[map[string]any, string]()
	p := wf.AddPassthroughNode("p").AddInput(START, MapFields("x", "A"))
	if ill {
		p.SetStaticValue(FieldPath{"B"}, 12)
	} else {
		p.SetStaticValue(FieldPath{"B"}, "s")
	}
	wf.AddLambdaNode("c", InvokableLambda(func(ctx context.Context, in c15PSIn) (string, error) {
		got = in
		return in.B, nil
	})).AddInput("p")
	wf.End().AddInput("c")
	r, err := wf.Compile(ctx)
	if !ill {
		vassert(err == nil, "the well-typed workflow compiles")
	}
	if err != nil {
		return
	}
	x := vsymInt("x")
	out, rerr := r.Invoke(ctx, map[string]any{"x": x})
	if ill {
		vassert(rerr != nil, "an ill-typed static value that compiled must at least fail the run")
		if rerr != nil {
			vassert(!strings.Contains(rerr.Error(), "panic"), "with an ordinary error, not a recovered panic")
		}
		return
	}
	vassert(rerr == nil && got.A == x && got.B == "s" && out == "s", "mapped and static value reach the successor of the pass-through")
}

type c15SO struct {
	A string
	B string
}

// A struct-typed workflow node with a static value that receives no mapped value in this run - it has only a control
// dependency, or its only data predecessor was skipped by a branch while a control-only predecessor triggered it: it
// runs once on the zero value of its input plus the static field (Invoke and Stream).
func VerifC15StaticOnly() {
	ctx := context.Background()
	vcfg("fifo", 1)
	vcfg("selectfirst", 1)
	var got c15SO
	runs := 0
	kind := vchoose("kind", 3)
	wf := NewWorkflow[string, string]()
	n := wf.AddLambdaNode("n", InvokableLambda(func(ctx context.Context, in c15SO) (string, error) {
		runs++
		got = in
		return "A=" + in.A + ",B=" + in.B, nil
	}))
	switch kind {
	case 0: // control dependency only
		n.AddDependency(START)
	case 1, 2: // a data predecessor that the branch skips (1) or picks (2), next to a control-only one
		wf.AddPassthroughNode("gate").AddInput(START)
		wf.AddLambdaNode("a", InvokableLambda(func(ctx context.Context, in string) (string, error) { return in + "a", nil })).
			AddInputWithOptions("gate", nil, WithNoDirectDependency())
		wf.AddLambdaNode("b", InvokableLambda(func(ctx context.Context, in string) (string, error) { return in + "b", nil })).
			AddInputWithOptions("gate", nil, WithNoDirectDependency())
		pick := map[string]bool{"b": true}
		if kind == 2 {
			pick = map[string]bool{"a": true, "b": true}
		}
		wf.AddBranch("gate", NewGraphMultiBranch(func(ctx context.Context, in string) (map[string]bool, error) { return pick, nil }, map[string]bool{"a": true, "b": true}))
		n.AddInput("a", ToField("A")).AddDependency("b")
	}
	n.SetStaticValue(FieldPath{"B"}, "static")
	wf.End().AddInput("n")
	r, err := wf.Compile(ctx)
	vassert(err == nil, "workflow compiles")
	x := vsymStr("x")
	var out string
	var rerr error
	// (a mapped chunk next to the static chunk of a struct-typed input needs a registered concat function in streaming
	// execution - eino's documented limitation - so the case with a mapped value is run by Invoke only)
	if kind != 2 && vchoose("stream", 2) == 1 {
		sr, e := r.Stream(ctx, x)
		rerr = e
		if e == nil {
			out, rerr = sr.Recv()
			sr.Close()
		}
	} else {
		out, rerr = r.Invoke(ctx, x)
	}
	vassert(rerr == nil, "the run succeeds")
	wantA := ""
	if kind == 2 {
		wantA = x + "a"
	}
	vassert(runs == 1 && got.A == wantA && got.B == "static" && out == "A="+wantA+",B=static", "the node runs once on the mapped values that arrived (none: the zero value) plus its static field")
}
