package compose

import (
	"context"
	"errors"
)

// C03: run result independent of completion order; no completion lost; no hang.

var c03Err = errors.New("c03 task error")

// (a) the real taskManager hand-off protocol under every schedule within the pre-emption bound.
// kinds[i]: 0 = succeeds, 1 = returns an error, 2 = panics. In eager mode one more task is submitted after the
// first completion was collected (as the run loop does for successors).
func c03TM(nTasks int, eager bool, kinds []int, late bool) {
	vcfg("race", 1) // what the collector reads from a task must have been written before the task was handed over
	r := &runner{eager: eager}
	tm := r.initTaskManager(runnableInvoke)
	mk := func(id int) *task {
		act := &composableRunnable{i: func(ctx context.Context, input any, opts ...any) (any, error) {
			vyield()
			switch kinds[id] {
			case 1:
				return nil, c03Err
			case 2:
				panic("c03 task panic")
			}
			return id, nil
		}}
		return &task{ctx: context.Background(), nodeKey: []string{"a", "b", "c", "d", "e"}[id], call: &chanCall{action: act}, input: id}
	}
	var tasks []*task
	for i := 0; i < nTasks; i++ {
		tasks = append(tasks, mk(i))
	}
	err := tm.submit(tasks)
	vassert(err == nil, "submit succeeds")
	total := nTasks
	seen := map[string]int{}
	collected := 0
	for rounds := 0; collected < total; rounds++ {
		vassert(rounds < 8, "wait keeps making progress")
		done, err := tm.wait()
		vassert(err == nil, "wait succeeds")
		vassert(len(done) > 0, "wait returns at least one task while tasks are outstanding")
		if !eager {
			vassert(len(done) == total-collected, "batch mode: wait returns every outstanding task")
		} else {
			vassert(len(done) == 1, "eager mode: wait returns one task at a time")
		}
		for _, t := range done {
			seen[t.nodeKey]++
			collected++
			id := t.input.(int)
			switch kinds[id] {
			case 0:
				vassert(t.err == nil && t.output.(int) == id, "a finished task carries its own output")
			case 1:
				vassert(t.err == c03Err, "a failed task carries its own error")
			case 2:
				vassert(t.err != nil && t.output == nil, "a panic in a task body becomes that task's error")
			}
		}
		if late && eager && rounds == 0 {
			late = false
			total++
			vassert(tm.submit([]*task{mk(nTasks)}) == nil, "submit of a successor succeeds")
		}
	}
	for k, n := range seen {
		vassert(n == 1, "task "+k+" is collected exactly once")
	}
	vassert(len(seen) == total, "every started task is collected")
	vassert(tm.num == 0, "no outstanding tasks are counted after everything was collected")
	rest, err := tm.waitAll()
	vassert(err == nil && len(rest) == 0, "nothing left to collect")
	vquiesce()
}

func c03Kinds(n int) []int {
	ks := make([]int, n+1)
	for i := 0; i < n; i++ {
		ks[i] = vchoose("kind", 3)
	}
	return ks
}

func VerifC03TMBatch2() { vcfg("preempt", 2); c03TM(2, false, c03Kinds(2), false) }
func VerifC03TMBatch3() {
	vcfg("preempt", 2)
	c03TM(3, false, []int{0, vchoose("kind", 3), vchoose("kind", 3), 0}, false)
}
func VerifC03TMEager2() { vcfg("preempt", 2); c03TM(2, true, c03Kinds(2), vchoose("late", 2) == 1) }
func VerifC03TMEager3() { vcfg("preempt", 2); c03TM(3, true, []int{0, vchoose("kind", 3), 0, 0}, true) }

// The run loop's interrupt path: collect one batch, then drain with waitAll (as after an interrupt/rerun error).
func VerifC03TMDrain() {
	vcfg("preempt", 2)
	r := &runner{eager: true}
	tm := r.initTaskManager(runnableInvoke)
	kinds := []int{vchoose("kind", 2), vchoose("kind", 2), vchoose("kind", 2)}
	var tasks []*task
	for i := 0; i < 3; i++ {
		id := i
		act := &composableRunnable{i: func(ctx context.Context, input any, opts ...any) (any, error) {
			vyield()
			if kinds[id] == 1 {
				return nil, c03Err
			}
			return id, nil
		}}
		tasks = append(tasks, &task{ctx: context.Background(), nodeKey: []string{"a", "b", "c"}[id], call: &chanCall{action: act}, input: id})
	}
	vassert(tm.submit(tasks) == nil, "submit succeeds")
	first, err := tm.wait()
	vassert(err == nil && len(first) == 1, "eager wait returns one task")
	rest, err := tm.waitAll()
	vassert(err == nil, "waitAll succeeds")
	vassert(len(rest) == 2, "waitAll returns every other started task (none lost, no hang)")
	vassert(tm.num == 0, "no outstanding tasks")
	vquiesce()
}

// (b) run level: parallel nodes whose bodies yield; all schedules within the bound give the same result and executions.
func c03Par(mode int, n int) {
	ctx := context.Background()
	vcfg("preempt", 2)
	names := []string{"a", "b", "c"}[:n]
	counts := map[string]int{}
	body := func(key string) *Lambda {
		return InvokableLambda(func(ctx context.Context, in map[string]any) (map[string]any, error) {
			vyield()
			vMu.Lock()
			counts[key]++
			vMu.Unlock()
			return map[string]any{key: vsymUF("f_"+key, vFold(in))}, nil
		})
	}
	x := vsymInt("x")
	in := map[string]any{"in": x}
	var out map[string]any
	var rerr error
	join := func(in map[string]any) int { return vFold(in) }
	switch mode {
	case 0, 1: // Pregel / DAG graph: START -> a,b(,c) -> j -> END
		g := NewGraph[map[string]any, map[string]any]()
		_ = g.AddLambdaNode("j", body("j"))
		for _, k := range names {
			_ = g.AddLambdaNode(k, body(k))
			_ = g.AddEdge(START, k)
			_ = g.AddEdge(k, "j")
		}
		_ = g.AddEdge("j", END)
		var opts []GraphCompileOption
		if mode == 1 {
			opts = append(opts, WithNodeTriggerMode(AllPredecessor))
		}
		r, err := g.Compile(ctx, opts...)
		vassert(err == nil, "graph compiles")
		out, rerr = r.Invoke(ctx, in)
	case 2: // Workflow (eager): START -> a,b(,c) ; a -> a2 ; END <- a2, b(, c)
		wf := NewWorkflow[map[string]any, map[string]any]()
		for _, k := range names {
			wf.AddLambdaNode(k, body(k)).AddInput(START)
		}
		wf.AddLambdaNode("j", body("j")).AddInput("a")
		e := wf.End()
		e.AddInput("j", ToField("j"))
		for _, k := range names[1:] {
			e.AddInput(k, ToField(k))
		}
		r, err := wf.Compile(ctx)
		vassert(err == nil, "workflow compiles")
		out, rerr = r.Invoke(ctx, in)
	}
	vassert(rerr == nil, "run succeeds under every schedule")
	// expected, independent of completion order
	var want map[string]any
	if mode == 2 {
		want = map[string]any{"j": map[string]any{"j": vsymUF("f_j", join(map[string]any{"a": vsymUF("f_a", vFold(in))}))}}
		for _, k := range names[1:] {
			want[k] = map[string]any{k: vsymUF("f_"+k, vFold(in))}
		}
	} else {
		mid := map[string]any{}
		for _, k := range names {
			mid[k] = vsymUF("f_"+k, vFold(in))
		}
		want = map[string]any{"j": vsymUF("f_j", join(mid))}
	}
	vassert(vMapEq(out, want), "result does not depend on the order in which parallel nodes finish, and all nodes feeding END finished before the run returned")
	for _, k := range append(append([]string{}, names...), "j") {
		vassert(counts[k] == 1, "node "+k+" executed exactly once")
	}
	vquiesce()
}

func VerifC03ParPregel2()   { c03Par(0, 2) }
func VerifC03ParDAG2()      { c03Par(1, 2) }
func VerifC03ParWorkflow2() { c03Par(2, 2) }
func VerifC03ParPregel3()   { c03Par(0, 3) }
func VerifC03ParWorkflow3() { c03Par(2, 3) }

type c03Store struct{ m map[string][]byte }

func (s *c03Store) Get(ctx context.Context, id string) ([]byte, bool, error) {
	b, ok := s.m[id]
	return b, ok, nil
}
func (s *c03Store) Set(ctx context.Context, id string, b []byte) error {
	s.m[id] = append([]byte{}, b...)
	return nil
}

// Eager (Workflow) run interrupted while a parallel node is still running: the drain after the interrupt collects
// late completions; whatever the completion order, the resumed run executes every node exactly once and returns
// the schedule-independent result.
func c03Interrupt(after bool) { c03InterruptL(after, false) }

// three: a third lane e -> f, explored with one deviation from the deterministic schedule (two pre-emptions do not
// finish for three lanes)
func c03InterruptL(after bool, three bool) {
	ctx := context.Background()
	if three {
		vcfg("delaybound", 1+vtier())
	} else {
		vcfg("preempt", 2)
	}
	counts := map[string]int{}
	body := func(key string) *Lambda {
		return InvokableLambda(func(ctx context.Context, in map[string]any) (map[string]any, error) {
			vyield()
			vMu.Lock()
			counts[key]++
			vMu.Unlock()
			return map[string]any{key: vsymUF("f_"+key, vFold(in))}, nil
		})
	}
	x := vsymInt("x")
	in := map[string]any{"in": x}
	// START -> a, b ; a -> c ; b -> d ; END <- c, d
	wf := NewWorkflow[map[string]any, map[string]any]()
	wf.AddLambdaNode("a", body("a")).AddInput(START)
	wf.AddLambdaNode("b", body("b")).AddInput(START)
	wf.AddLambdaNode("c", body("c")).AddInput("a")
	wf.AddLambdaNode("d", body("d")).AddInput("b")
	e := wf.End()
	e.AddInput("c", ToField("c"))
	e.AddInput("d", ToField("d"))
	if three {
		wf.AddLambdaNode("e", body("e")).AddInput(START)
		wf.AddLambdaNode("f", body("f")).AddInput("e")
		e.AddInput("f", ToField("f"))
	}
	store := &c03Store{m: map[string][]byte{}}
	opts := []GraphCompileOption{WithCheckPointStore(store)}
	if after {
		opts = append(opts, WithInterruptAfterNodes([]string{"a"}))
	} else {
		opts = append(opts, WithInterruptBeforeNodes([]string{"c"}))
	}
	r, err := wf.Compile(ctx, opts...)
	vassert(err == nil, "workflow compiles")
	var out map[string]any
	var rerr error
	interrupts := 0
	for call := 0; call < 4; call++ {
		out, rerr = r.Invoke(ctx, in, WithCheckPointID("c03"))
		if rerr == nil {
			break
		}
		_, ok := ExtractInterruptInfo(rerr)
		vassert(ok, "only interrupt errors under every schedule")
		interrupts++
	}
	vassert(rerr == nil, "the interrupted run finishes after resuming, under every schedule")
	vassert(interrupts == 1, "exactly one interrupt")
	fa := map[string]any{"a": vsymUF("f_a", vFold(in))}
	fb := map[string]any{"b": vsymUF("f_b", vFold(in))}
	want := map[string]any{
		"c": map[string]any{"c": vsymUF("f_c", vFold(fa))},
		"d": map[string]any{"d": vsymUF("f_d", vFold(fb))},
	}
	nodes := []string{"a", "b", "c", "d"}
	if three {
		fe := map[string]any{"e": vsymUF("f_e", vFold(in))}
		want["f"] = map[string]any{"f": vsymUF("f_f", vFold(fe))}
		nodes = append(nodes, "e", "f")
	}
	vassert(vMapEq(out, want), "the result after resume does not depend on which parallel node was still running when the interrupt was taken")
	for _, k := range nodes {
		vassert(counts[k] == 1, "node "+k+" executed exactly once over interrupt and resume")
	}
	vquiesce()
}

func VerifC03InterruptAfter()   { c03Interrupt(true) }
func VerifC03InterruptBefore()  { c03Interrupt(false) }
func VerifC03InterruptAfter3()  { c03InterruptL(true, true) }
func VerifC03InterruptBefore3() { c03InterruptL(false, true) }

type c03State struct{ V int }

// Batch mode: the state pre-handlers of all nodes of a step run before any node body of that step starts, so what a
// pre-handler reads from the state does not depend on how far a sibling body got.
func c03PreHandlers(dag bool) {
	ctx := context.Background()
	vcfg("preempt", 2)
	g := NewGraph[map[string]any, map[string]any](WithGenLocalState(func(ctx context.Context) *c03State { return &c03State{} }))
	names := []string{"a", "b", "c"}
	for _, k := range names {
		key := k
		_ = g.AddLambdaNode(key, InvokableLambda(func(ctx context.Context, in map[string]any) (map[string]any, error) {
			_ = ProcessState(ctx, func(ctx context.Context, s *c03State) error { s.V += 10; return nil })
			vyield()
			seen, _ := in["seen"].(int)
			return map[string]any{key: seen}, nil
		}), WithStatePreHandler(func(ctx context.Context, in map[string]any, s *c03State) (map[string]any, error) {
			return map[string]any{"seen": s.V}, nil
		}))
		_ = g.AddEdge(START, key)
		_ = g.AddEdge(key, END)
	}
	var opts []GraphCompileOption
	if dag {
		opts = append(opts, WithNodeTriggerMode(AllPredecessor))
	}
	r, err := g.Compile(ctx, opts...)
	vassert(err == nil, "graph compiles")
	out, rerr := r.Invoke(ctx, map[string]any{"in": 1})
	vassert(rerr == nil, "run succeeds under every schedule")
	for _, k := range names {
		vassert(out[k] == 0, "node "+k+"'s pre-handler saw the state as it was when the step began, whatever its siblings' bodies had done by then")
	}
	vquiesce()
}

func VerifC03PreHandlersPregel() { c03PreHandlers(false) }
func VerifC03PreHandlersDAG()    { c03PreHandlers(true) }

// Eager run in which one node asks for interrupt-and-rerun while three siblings are still running: the run returns
// the interrupt only after every started node has finished, and the resumed run completes with every node executed
// once (the asking node attempted twice).
func VerifC03RerunDrain() {
	ctx := context.Background()
	vcfg("preempt", 1)
	counts := map[string]int{}
	started := map[string]int{}
	body := func(key string, rerun bool) *Lambda {
		return InvokableLambda(func(ctx context.Context, in map[string]any) (map[string]any, error) {
			vMu.Lock()
			started[key]++
			first := started[key] == 1
			vMu.Unlock()
			if rerun && first {
				vMu.Lock()
				counts[key]++
				vMu.Unlock()
				return nil, InterruptAndRerun
			}
			vyield()
			vMu.Lock()
			counts[key]++
			vMu.Unlock()
			return map[string]any{key: 1}, nil
		})
	}
	wf := NewWorkflow[map[string]any, map[string]any]()
	wf.AddLambdaNode("a", body("a", true)).AddInput(START)
	wf.AddLambdaNode("b", body("b", false)).AddInput(START)
	wf.AddLambdaNode("c", body("c", false)).AddInput(START)
	wf.AddLambdaNode("d", body("d", false)).AddInput(START)
	e := wf.End()
	for _, k := range []string{"a", "b", "c", "d"} {
		e.AddInput(k, ToField(k))
	}
	store := &c03Store{m: map[string][]byte{}}
	r, err := wf.Compile(ctx, WithCheckPointStore(store))
	vassert(err == nil, "workflow compiles")
	in := map[string]any{"in": 1}
	_, e1 := r.Invoke(ctx, in, WithCheckPointID("c03r"))
	_, ok := ExtractInterruptInfo(e1)
	vassert(ok, "the first call is interrupted")
	for _, k := range []string{"a", "b", "c", "d"} {
		vassert(started[k] == counts[k], "the run does not return before every node it started has finished: "+k)
	}
	out, e2 := r.Invoke(ctx, in, WithCheckPointID("c03r"))
	vassert(e2 == nil, "the resumed run completes under every schedule")
	vassert(len(out) == 4, "the result holds every lane")
	vassert(started["a"] == 2, "the asking node is attempted exactly once more")
	for _, k := range []string{"b", "c", "d"} {
		vassert(started[k] == 1, "node "+k+" executed exactly once over interrupt and resume: its completion was not lost")
	}
	vquiesce()
}

// All-predecessor batch step in which a node n is reached by a plain edge from c and by a branch from b, b and c
// finishing in either order: n runs once on both inputs, whatever the completion order.
func VerifC03BranchJoinDAG() {
	ctx := context.Background()
	vcfg("preempt", 2)
	counts := map[string]int{}
	body := func(key string) *Lambda {
		return InvokableLambda(func(ctx context.Context, in map[string]any) (map[string]any, error) {
			vyield()
			vMu.Lock()
			counts[key]++
			vMu.Unlock()
			return map[string]any{key: vsymUF("f_"+key, vFold(in))}, nil
		})
	}
	g := NewGraph[map[string]any, map[string]any]()
	for _, k := range []string{"b", "c", "n", "m"} {
		_ = g.AddLambdaNode(k, body(k))
	}
	_ = g.AddEdge(START, "b")
	_ = g.AddEdge(START, "c")
	_ = g.AddEdge("c", "n")
	toN := vchoose("branch", 2) == 0
	_ = g.AddBranch("b", NewGraphBranch(func(ctx context.Context, in map[string]any) (string, error) {
		if toN {
			return "n", nil
		}
		return "m", nil
	}, map[string]bool{"n": true, "m": true}))
	_ = g.AddEdge("n", END)
	_ = g.AddEdge("m", END)
	r, err := g.Compile(ctx, WithNodeTriggerMode(AllPredecessor))
	vassert(err == nil, "graph compiles")
	in := map[string]any{"in": vsymInt("x")}
	out, rerr := r.Invoke(ctx, in)
	vquiesce()
	vassert(rerr == nil, "run succeeds under every completion order")
	fb := map[string]any{"b": vsymUF("f_b", vFold(in))}
	fc := map[string]any{"c": vsymUF("f_c", vFold(in))}
	if toN {
		both := map[string]any{"b": fb["b"], "c": fc["c"]}
		want := map[string]any{"n": vsymUF("f_n", vFold(both))}
		vassert(counts["n"] == 1 && counts["m"] == 0 && vMapEq(out, want), "n runs once on the merge of both predecessors, m is skipped, whatever the completion order")
	} else {
		want := map[string]any{"n": vsymUF("f_n", vFold(fc)), "m": vsymUF("f_m", vFold(fb))}
		vassert(counts["n"] == 1 && counts["m"] == 1 && vMapEq(out, want), "n runs on c's output, m on b's, whatever the completion order")
	}
}

// Eager mode: two independent lanes a -> a2 and b -> b2; a2 may only finish once b2 has started (and the other way
// round in the mirrored case). Independent successors are started as soon as their predecessor finishes, so this
// never hangs, whichever lane is ahead.
func VerifC03EagerIndependence() {
	ctx := context.Background()
	vcfg("preempt", 1)
	started := make(chan struct{})
	waiter := []string{"a2", "b2"}[vchoose("waiter", 2)]
	body := func(key string) *Lambda {
		return InvokableLambda(func(ctx context.Context, in map[string]any) (map[string]any, error) {
			if key == "a2" || key == "b2" {
				if key == waiter {
					<-started // released by the other lane's successor
				} else {
					close(started)
				}
			} else {
				vyield()
			}
			return map[string]any{key: 1}, nil
		})
	}
	wf := NewWorkflow[map[string]any, map[string]any]()
	wf.AddLambdaNode("a", body("a")).AddInput(START)
	wf.AddLambdaNode("b", body("b")).AddInput(START)
	wf.AddLambdaNode("a2", body("a2")).AddInput("a")
	wf.AddLambdaNode("b2", body("b2")).AddInput("b")
	e := wf.End()
	e.AddInput("a2", ToField("a2"))
	e.AddInput("b2", ToField("b2"))
	r, err := wf.Compile(ctx)
	vassert(err == nil, "workflow compiles")
	out, rerr := r.Invoke(ctx, map[string]any{"in": 1})
	vquiesce()
	vassert(rerr == nil && len(out) == 2, "the run completes: a successor of one lane never keeps the other lane from advancing")
}

// Batch execution (Pregel / all-predecessor): the caller's context is cancelled by one of two parallel nodes of a step,
// at any point of any schedule. The run may fail with the cancellation, but it never returns while a node execution it
// started is still running: every started execution has been collected when Invoke returns.
func VerifC03CancelDuringStep() {
	vcfg("preempt", 2)
	ctx, cancel := context.WithCancel(context.Background())
	who := []string{"a", "b"}[vchoose("who", 2)]
	running := 0
	started := 0
	body := func(key string) *Lambda {
		return InvokableLambda(func(ctx context.Context, in map[string]any) (map[string]any, error) {
			vMu.Lock()
			running++
			started++
			vMu.Unlock()
			if key == who {
				cancel()
			}
			vyield()
			vMu.Lock()
			running--
			vMu.Unlock()
			return map[string]any{key: 1}, nil
		})
	}
	g := NewGraph[map[string]any, map[string]any]()
	_ = g.AddLambdaNode("a", body("a"))
	_ = g.AddLambdaNode("b", body("b"))
	_ = g.AddEdge(START, "a")
	_ = g.AddEdge(START, "b")
	_ = g.AddEdge("a", END)
	_ = g.AddEdge("b", END)
	var opts []GraphCompileOption
	if vchoose("dag", 2) == 1 {
		opts = append(opts, WithNodeTriggerMode(AllPredecessor))
	}
	r, err := g.Compile(context.Background(), opts...)
	vassert(err == nil, "graph compiles")
	_, _ = r.Invoke(ctx, map[string]any{"in": 1})
	vMu.Lock()
	still := running
	vMu.Unlock()
	vassert(still == 0, "no node execution the run started is still running when the run returns (cancelled or not)")
	vquiesce()
}

// Batch execution with two (three) parallel nodes that all fail, each with its own error: the run fails, and which
// failure it reports does not depend on the order in which the nodes finish - two runs of the same compiled graph,
// scheduled independently, report the same node's error; likewise for the lists of an interrupt raised by two
// nodes that ask for a rerun.
func VerifC03ParallelFailures() {
	ctx := context.Background()
	vcfg("preempt", 2)
	errs := map[string]error{"a": errors.New("c03 failure of a"), "b": errors.New("c03 failure of b")}
	rerun := vchoose("rerun", 2) == 1
	body := func(key string) *Lambda {
		return InvokableLambda(func(ctx context.Context, in map[string]any) (map[string]any, error) {
			vyield()
			if rerun {
				return nil, InterruptAndRerun
			}
			return nil, errs[key]
		})
	}
	g := NewGraph[map[string]any, map[string]any]()
	for _, k := range []string{"a", "b"} {
		_ = g.AddLambdaNode(k, body(k))
		_ = g.AddEdge(START, k)
		_ = g.AddEdge(k, END)
	}
	var opts []GraphCompileOption
	if vchoose("dag", 2) == 1 {
		opts = append(opts, WithNodeTriggerMode(AllPredecessor))
	}
	r, err := g.Compile(ctx, opts...)
	vassert(err == nil, "graph compiles")
	_, e1 := r.Invoke(ctx, map[string]any{"in": 1})
	vquiesce()
	_, e2 := r.Invoke(ctx, map[string]any{"in": 1})
	vquiesce()
	vassert(e1 != nil && e2 != nil, "both runs fail")
	if rerun {
		i1, ok1 := ExtractInterruptInfo(e1)
		i2, ok2 := ExtractInterruptInfo(e2)
		vassert(ok1 && ok2 && len(i1.RerunNodes) == 2 && len(i2.RerunNodes) == 2, "both asking nodes are reported")
		if ok1 && ok2 && len(i1.RerunNodes) == 2 && len(i2.RerunNodes) == 2 {
			vassert(i1.RerunNodes[0] == i2.RerunNodes[0] && i1.RerunNodes[1] == i2.RerunNodes[1], "the interrupt information does not depend on the completion order")
		}
		return
	}
	vassert(errors.Is(e1, errs["a"]) || errors.Is(e1, errs["b"]), "the run reports the error of one of the failing nodes")
	vassert(errors.Is(e1, errs["a"]) == errors.Is(e2, errs["a"]), "which failure is reported does not depend on the completion order")
}

// thorough tier: three parallel nodes in all-predecessor mode
func VerifC03ParDAG3() { c03Par(1, 3) }

// Eager (Workflow) run: a join node is triggered by node fast and also takes a field from node slow through a data-only
// input; slow is not an ancestor of fast and runs next to it. Whichever finishes first, the join runs once, after both,
// and receives both fields.
func VerifC03DataOnlyJoin() {
	ctx := context.Background()
	vcfg("preempt", 2)
	counts := map[string]int{}
	body := func(key string) *Lambda {
		return InvokableLambda(func(ctx context.Context, in map[string]any) (map[string]any, error) {
			vyield()
			vMu.Lock()
			counts[key]++
			vMu.Unlock()
			return map[string]any{key: vsymUF("f_"+key, vFold(in))}, nil
		})
	}
	wf := NewWorkflow[map[string]any, map[string]any]()
	wf.AddLambdaNode("fast", body("fast")).AddInput(START)
	wf.AddLambdaNode("slow", body("slow")).AddInput(START)
	var got map[string]any
	wf.AddLambdaNode("join", InvokableLambda(func(ctx context.Context, in map[string]any) (map[string]any, error) {
		vMu.Lock()
		counts["join"]++
		got = in
		vMu.Unlock()
		return map[string]any{"n": len(in)}, nil
	})).AddInput("fast", ToField("fast")).AddInputWithOptions("slow", []*FieldMapping{ToField("slow")}, WithNoDirectDependency())
	wf.End().AddInput("join")
	r, err := wf.Compile(ctx)
	vassert(err == nil, "workflow compiles")
	x := vsymInt("x")
	out, rerr := r.Invoke(ctx, map[string]any{"in": x})
	vquiesce()
	vassert(rerr == nil, "run succeeds under every schedule")
	vassert(counts["join"] == 1 && counts["fast"] == 1 && counts["slow"] == 1, "every node executed exactly once")
	vassert(out["n"] == 2 && got["fast"] != nil && got["slow"] != nil, "the join receives the field of its trigger and the field of its data-only predecessor, whichever finished first")
}

type c03PS struct{ N int }

// Batch execution: the state post-handler (or pre-handler) of one of two parallel nodes panics. The run fails with an
// error, and it does not return while the other node of the step is still running.
func VerifC03HandlerPanicDrain() {
	ctx := context.Background()
	vcfg("preempt", 2)
	running := 0
	body := func(key string) *Lambda {
		return InvokableLambda(func(ctx context.Context, in map[string]any) (map[string]any, error) {
			vMu.Lock()
			running++
			vMu.Unlock()
			vyield()
			vyield()
			vMu.Lock()
			running--
			vMu.Unlock()
			return map[string]any{key: 1}, nil
		})
	}
	post := vchoose("post", 2) == 1
	var hopt GraphAddNodeOpt
	if post {
		hopt = WithStatePostHandler(func(ctx context.Context, out map[string]any, s *c03PS) (map[string]any, error) {
			panic("c03 post-handler panic")
		})
	} else {
		hopt = WithStatePreHandler(func(ctx context.Context, in map[string]any, s *c03PS) (map[string]any, error) {
			panic("c03 pre-handler panic")
		})
	}
	g := NewGraph[map[string]any, map[string]any](WithGenLocalState(func(ctx context.Context) *c03PS { return &c03PS{} }))
	who := vchoose("who", 2)
	for i, k := range []string{"a", "b"} {
		if i == who {
			_ = g.AddLambdaNode(k, body(k), hopt)
		} else {
			_ = g.AddLambdaNode(k, body(k))
		}
		_ = g.AddEdge(START, k)
		_ = g.AddEdge(k, END)
	}
	var opts []GraphCompileOption
	if vchoose("dag", 2) == 1 {
		opts = append(opts, WithNodeTriggerMode(AllPredecessor))
	}
	r, err := g.Compile(ctx, opts...)
	vassert(err == nil, "graph compiles")
	_, rerr := r.Invoke(ctx, map[string]any{"in": 1})
	vMu.Lock()
	still := running
	vMu.Unlock()
	vassert(rerr != nil, "a panicking state handler makes the run fail with an error")
	vassert(still == 0, "no node execution the run started is still running when the run returns")
	vquiesce()
}
