package compose

import "context"

// C15 (a): overlap detection between field-mapping target paths, through Workflow.Compile.

func c15Path(name string, maxLen int) FieldPath {
	alphabet := []string{"a", "b"}
	n := vrange(name+"_len", 1, maxLen)
	var p FieldPath
	for i := 0; i < n; i++ {
		p = append(p, alphabet[vrange(name+"_e", 0, 1)])
	}
	return p
}

func c15IsPrefix(p, q FieldPath) bool {
	if len(p) > len(q) {
		return false
	}
	for i := range p {
		if p[i] != q[i] {
			return false
		}
	}
	return true
}

func c15Overlap(ps []FieldPath) bool {
	for i := range ps {
		for j := range ps {
			if i != j && c15IsPrefix(ps[i], ps[j]) {
				return true
			}
		}
	}
	return false
}

func c15PathStr(p FieldPath) string {
	s := ""
	for _, e := range p {
		s += e
	}
	return s
}

// Two or three target paths for node "n"; declared in one AddInput (same predecessor) or split over two
// predecessors; declaration order is a decision. Compile must fail iff two targets are equal or prefix-related.
func c15OverlapHarness(np, maxLen int) {
	ctx := context.Background()
	wf := NewWorkflow[map[string]any, map[string]any]()
	id := func(ctx context.Context, in map[string]any) (map[string]any, error) { return in, nil }
	wf.AddLambdaNode("m", InvokableLambda(id)).AddInput(START)
	n := wf.AddLambdaNode("n", InvokableLambda(id))
	var ps []FieldPath
	for i := 0; i < np; i++ {
		ps = append(ps, c15Path([]string{"p1", "p2", "p3"}[i], maxLen))
	}
	// declaration order: a permutation chosen by decisions
	rem := []int{}
	for i := 0; i < np; i++ {
		rem = append(rem, i)
	}
	var order []int
	for len(rem) > 0 {
		k := vchoose("order", len(rem))
		order = append(order, rem[k])
		rem = append(rem[:k:k], rem[k+1:]...)
	}
	split := vchoose("split", np) // the first `split` declared mappings come from START, the rest from "m" (0 = all from one AddInput)
	var fromStart, fromM []*FieldMapping
	desc := ""
	for i, oi := range order {
		fm := MapFieldPaths(FieldPath{"x"}, ps[oi])
		desc += c15PathStr(ps[oi]) + ","
		if i < split {
			fromStart = append(fromStart, fm)
		} else {
			fromM = append(fromM, fm)
		}
	}
	if len(fromStart) > 0 {
		n.AddInputWithOptions(START, fromStart, WithNoDirectDependency())
	}
	n.AddInput("m", fromM...)
	wf.End().AddInput("n")
	_, err := wf.Compile(ctx)
	overlap := c15Overlap(ps)
	vlog("targets", desc, "split", split, "overlap", overlap, "rejected", err != nil)
	if overlap {
		vassert(err != nil, "overlapping targets must be rejected at compile time whatever the declaration order: "+desc)
	} else {
		vassert(err == nil, "disjoint targets must compile: "+desc)
	}
}

func VerifC15Overlap2()     { c15OverlapHarness(2, 2) }
func VerifC15Overlap3()     { c15OverlapHarness(3, 2) }
func VerifC15Overlap2Deep() { c15OverlapHarness(2, 3) }

// a mapping of a whole output onto the whole input next to a mapping onto one of its fields (the empty path is a
// prefix of every path): rejected at compile time in both declaration orders
func VerifC15OverlapWhole() {
	ctx := context.Background()
	wf := NewWorkflow[map[string]any, map[string]any]()
	id := func(ctx context.Context, in map[string]any) (map[string]any, error) { return in, nil }
	wf.AddLambdaNode("m", InvokableLambda(id)).AddInput(START)
	n := wf.AddLambdaNode("n", InvokableLambda(id))
	wholeFirst := vchoose("wholeFirst", 2) == 1
	fromField := vchoose("fromField", 2) == 1         // the whole-input mapping may still select a source field
	wholeIndirect := vchoose("wholeIndirect", 2) == 1 // the whole output may arrive over a data-only input
	fieldKind := vchoose("fieldKind", 3)              // the field: data-only from START, direct from START, or a second whole data-only input
	whole := func() {
		var ms []*FieldMapping
		if fromField {
			ms = []*FieldMapping{FromField("x")}
		}
		if wholeIndirect {
			n.AddInputWithOptions("m", ms, WithNoDirectDependency())
			n.AddDependency("m")
		} else {
			n.AddInput("m", ms...)
		}
	}
	field := func() {
		switch fieldKind {
		case 0:
			n.AddInputWithOptions(START, []*FieldMapping{MapFields("x", "a")}, WithNoDirectDependency())
		case 1:
			n.AddInput(START, MapFields("x", "a"))
		case 2:
			n.AddInputWithOptions(START, nil, WithNoDirectDependency())
		}
	}
	if wholeFirst {
		whole()
		field()
	} else {
		field()
		whole()
	}
	wf.End().AddInput("n")
	_, err := wf.Compile(ctx)
	vassert(err != nil, "a whole-input mapping together with a field mapping is rejected at compile time whatever the declaration order")
}
