package compose

import "context"








// Harness 1: one reportSkip step from an arbitrary dagChannel state with 2 control predecessors.
func VerifSpikeDagSkip() {
	vcfg("maporder", 1)
	ch := dagChannelBuilder([]string{"a", "b"}, []string{"a"}, func() any { return 0 }, nil).(*dagChannel)
	sa := dependencyState(vsymInt("sa"))
	sb := dependencyState(vsymInt("sb"))
	vassume(sa <= 2)
	vassume(sb <= 2)
	ch.ControlPredecessors["a"] = sa
	ch.ControlPredecessors["b"] = sb
	r := ch.reportSkip([]string{"a"})
	vassert(r == (sb == dependencyStateSkipped), "reportSkip result = all control preds skipped")
	vassert(ch.Skipped == r, "Skipped flag matches")
	vassert(ch.ControlPredecessors["a"] == dependencyStateSkipped, "a marked skipped")
	vassert(ch.DataPredecessors["a"], "skipped data pred counts as reported")
	v, ready, err := ch.get(false)
	_ = v
	vassert(err == nil, "no error")
	// ready iff not skipped and b not waiting
	vassert(ready == (!r && sb != dependencyStateWaiting), "readiness rule")
}

func mkPath(name string) FieldPath {
	alphabet := []string{"a", "b"}
	n := vsymInt(name + "_len")
	vassume(n >= 1)
	vassume(n <= 2)
	var p FieldPath
	for i := 0; i < n; i++ {
		k := vsymInt(name + "_e")
		vassume(k >= 0)
		vassume(k <= 1)
		p = append(p, alphabet[k])
	}
	return p
}

func isPrefix(p, q FieldPath) bool {
	if len(p) > len(q) {
		return false
	}
	for i := range p {
		if p[i] != q[i] {
			return false
		}
	}
	return true
}

// Harness 2: overlap detection must not depend on declaration order.
func VerifSpikeOverlap() {
	p1 := mkPath("p1")
	p2 := mkPath("p2")
	n1 := &WorkflowNode{key: "n", mappedFieldPath: map[string]any{}}
	e1 := n1.checkAndAddMappedPath([]FieldPath{p1, p2})
	n2 := &WorkflowNode{key: "n", mappedFieldPath: map[string]any{}}
	e2 := n2.checkAndAddMappedPath([]FieldPath{p2, p1})
	vassume(!(isPrefix(p1, p2) && isPrefix(p2, p1))) // exact duplicates are caught later by graph.compile
	overlap := isPrefix(p1, p2) || isPrefix(p2, p1)
	vassert((e1 != nil) == overlap, "overlapping targets rejected, disjoint accepted")
	vassert((e1 == nil) == (e2 == nil), "acceptance independent of declaration order")
}

// Harness 3: run-level probe: how far does the interpreter get through Compile + Invoke?
func VerifSpikeRun() {
	g := NewGraph[int, int]()
	_ = g.AddLambdaNode("a", InvokableLambda(func(ctx context.Context, in int) (int, error) { return in + 1, nil }))
	_ = g.AddLambdaNode("b", InvokableLambda(func(ctx context.Context, in int) (int, error) { return in * 2, nil }))
	_ = g.AddEdge(START, "a")
	_ = g.AddEdge("a", "b")
	_ = g.AddEdge("b", END)
	r, err := g.Compile(context.Background())
	vassert(err == nil, "compiles")
	x := vsymInt("x")
	out, err := r.Invoke(context.Background(), x)
	vassert(err == nil, "runs")
	vassert(out == (x+1)*2, "result")
}





// Harness 4: taskManager hand-off protocol under all schedules (pre-emption bounded).
func verifTM(nTasks int, eager bool) {
	r := &runner{eager: eager}
	tm := r.initTaskManager(runnableInvoke)
	var tasks []*task
	for i := 0; i < nTasks; i++ {
		id := i
		act := &composableRunnable{i: func(ctx context.Context, input any, opts ...any) (any, error) {
			vyield()
			return id, nil
		}}
		tasks = append(tasks, &task{ctx: context.Background(), nodeKey: []string{"a", "b", "c", "d"}[i], call: &chanCall{action: act}, input: id})
	}
	err := tm.submit(tasks)
	vassert(err == nil, "submit ok")
	seen := map[int]int{}
	total := 0
	for total < nTasks {
		done, err := tm.wait()
		vassert(err == nil, "wait ok")
		vassert(len(done) > 0, "wait returns at least one task while tasks are outstanding")
		for _, t := range done {
			seen[t.output.(int)]++
			total++
		}
	}
	for i := 0; i < nTasks; i++ {
		vassert(seen[i] == 1, "every task collected exactly once")
	}
	vassert(tm.num == 0, "no outstanding tasks")
	vquiesce()
}

func VerifSpikeTM2()      { verifTM(2, false) }
func VerifSpikeTM3()      { verifTM(3, false) }
func VerifSpikeTM3Eager() { verifTM(3, true) }
