package compose

import (
	"context"
	"errors"
)

// C09: a compiled runnable is safe for concurrent use; runs are isolated.

type c09State struct{ Acc int }

var c09Concrete = false
var c09ErrNode = errors.New("c09 node failure")

// concrete, injective-enough node function and fold
func c09F(key string, v, acc int) int { return (v*31+vKeyID(key))*17 + acc }
func c09Fold(in map[string]any) int {
	s := 0
	for k, v := range in {
		if iv, ok := v.(int); ok {
			s += vKeyID(k)*1000003 + iv*7
		}
	}
	return s
}

type c09Key struct{}

func c09Pick(ctx context.Context) int {
	v, _ := ctx.Value(c09Key{}).(int)
	return v
}

// two overlapping runs of one compiled object; every schedule within the pre-emption bound; race monitor on
func c09Two(run func(ctx context.Context, x int) (map[string]any, error), want func(x int) map[string]any, what string) {
	c09TwoIdx(func(ctx context.Context, x, idx int) (map[string]any, error) { return run(ctx, x) },
		func(x, idx int) map[string]any { return want(x) }, what)
}

func c09TwoIdx(run func(ctx context.Context, x, idx int) (map[string]any, error), want func(x, idx int) map[string]any, what string) {
	ctx := context.Background()
	vcfg("race", 1)
	x1, x2 := vsymInt("x1"), vsymInt("x2")
	if c09Concrete {
		x1, x2 = 5, 9 // schedules are the subject; data is concrete to keep the solver out of the inner loop
	}
	var o2 map[string]any
	var e2 error
	done := false
	go func() {
		o2, e2 = run(ctx, x2, 2)
		done = true
	}()
	o1, e1 := run(ctx, x1, 1)
	vquiesce()
	vassert(done, what+": the second caller returns")
	vassert(e1 == nil && e2 == nil, what+": both concurrent runs succeed")
	vassert(vMapEq(o1, want(x1, 1)), what+": the first caller gets what it would get alone")
	vassert(vMapEq(o2, want(x2, 2)), what+": the second caller gets what it would get alone")
}

// graph with state, a branch next to a plain edge (edge slice with spare capacity), and a nested graph
func VerifC09Graph() {
	ctx := context.Background()
	vcfg("delaybound", 1+vtier())
	body := func(key string, yield bool) *Lambda {
		return InvokableLambda(func(ctx context.Context, in map[string]any) (map[string]any, error) {
			if yield {
				vyield()
			}
			acc := 0
			_ = ProcessState(ctx, func(ctx context.Context, s *c09State) error { acc = s.Acc; return nil })
			out := map[string]any{key: c09F(key, c09Fold(in), acc)}
			if key == "a" {
				// node a hands the run's branch choice on: the input value decides it (concretised per run)
				v, _ := in["i"].(int)
				_ = v
				out["pick"] = c09Pick(ctx)
			}
			return out, nil
		})
	}
	inner := NewGraph[map[string]any, map[string]any]()
	_ = inner.AddLambdaNode("i", InvokableLambda(func(ctx context.Context, in map[string]any) (map[string]any, error) {
		return map[string]any{"i": c09F("i", c09Fold(in), 0)}, nil
	}))
	_ = inner.AddEdge(START, "i")
	_ = inner.AddEdge("i", END)
	g := NewGraph[map[string]any, map[string]any](WithGenLocalState(func(ctx context.Context) *c09State { return &c09State{} }))
	_ = g.AddGraphNode("sub", inner)
	_ = g.AddLambdaNode("a", body("a", true), WithStatePostHandler(func(ctx context.Context, out map[string]any, s *c09State) (map[string]any, error) {
		s.Acc = out["a"].(int)
		return out, nil
	}))
	_ = g.AddLambdaNode("x", body("x", false))
	_ = g.AddLambdaNode("y", body("y", false))
	_ = g.AddEdge(START, "sub")
	_ = g.AddEdge("sub", "a")
	// three plain edges: the edge slice of node a has len 3 / cap 4 like in the Go runtime
	_ = g.AddLambdaNode("b", body("b", false))
	_ = g.AddLambdaNode("c", body("c", false))
	_ = g.AddEdge("a", END)
	_ = g.AddEdge("a", "b")
	_ = g.AddEdge("a", "c")
	_ = g.AddEdge("b", END)
	_ = g.AddEdge("c", END)
	// the branch target depends on the run's own input
	_ = g.AddBranch("a", NewGraphBranch(func(ctx context.Context, in map[string]any) (string, error) {
		if in["pick"].(int) == 0 {
			return "x", nil
		}
		return "y", nil
	}, map[string]bool{"x": true, "y": true}))
	_ = g.AddEdge("x", END)
	_ = g.AddEdge("y", END)
	r, err := g.Compile(ctx, WithNodeTriggerMode(AllPredecessor))
	vassert(err == nil, "graph compiles")
	p := []int{0, vchoose("pick1", 2), vchoose("pick2", 2)}
	run := func(ctx context.Context, x, idx int) (map[string]any, error) {
		return r.Invoke(context.WithValue(ctx, c09Key{}, p[idx]), map[string]any{"in": x})
	}
	want := func(x, idx int) map[string]any {
		pick := p[idx]
		vi := map[string]any{"i": c09F("i", c09Fold(map[string]any{"in": x}), 0)}
		va := c09F("a", c09Fold(vi), 0)
		ain := map[string]any{"a": va, "pick": pick}
		out := map[string]any{"a": va, "pick": pick, "b": c09F("b", c09Fold(ain), va), "c": c09F("c", c09Fold(ain), va)}
		if pick == 0 {
			out["x"] = c09F("x", c09Fold(ain), va)
		} else {
			out["y"] = c09F("y", c09Fold(ain), va)
		}
		return out
	}
	c09Concrete = true
	c09TwoIdx(run, want, "graph with state, branch and nested graph")
}

// Workflow with field mappings
func VerifC09Workflow() {
	ctx := context.Background()
	vcfg("delaybound", 1+vtier())
	wf := NewWorkflow[map[string]any, map[string]any]()
	wf.AddLambdaNode("a", InvokableLambda(func(ctx context.Context, in map[string]any) (map[string]any, error) {
		vyield()
		return map[string]any{"a": vsymUF("f_a", vFoldDeep(in))}, nil
	})).AddInput(START)
	wf.AddLambdaNode("b", InvokableLambda(func(ctx context.Context, in map[string]any) (map[string]any, error) {
		return map[string]any{"b": vsymUF("f_b", vFoldDeep(in))}, nil
	})).AddInput("a", ToField("fromA"))
	wf.End().AddInput("b")
	r, err := wf.Compile(ctx)
	vassert(err == nil, "workflow compiles")
	run := func(ctx context.Context, x int) (map[string]any, error) {
		return r.Invoke(ctx, map[string]any{"in": x})
	}
	want := func(x int) map[string]any {
		va := map[string]any{"a": vsymUF("f_a", vFoldDeep(map[string]any{"in": x}))}
		return map[string]any{"b": vsymUF("f_b", vFoldDeep(map[string]any{"fromA": va}))}
	}
	c09Two(run, want, "workflow with field mapping")
}

// designated callbacks and options per call
func VerifC09Options() {
	ctx := context.Background()
	vcfg("delaybound", 1+vtier())
	g := NewGraph[map[string]any, map[string]any]()
	_ = g.AddLambdaNode("a", InvokableLambdaWithOption(func(ctx context.Context, in map[string]any, opts ...c16OptA) (map[string]any, error) {
		vyield()
		v := 0
		for _, o := range opts {
			v += o.val
		}
		return map[string]any{"a": vsymUF("f_a", vFold(in), v)}, nil
	}), WithNodeName("A"))
	_ = g.AddEdge(START, "a")
	_ = g.AddEdge("a", END)
	r, err := g.Compile(ctx)
	vassert(err == nil, "graph compiles")
	var evs []c10Ev
	run := func(ctx context.Context, x int) (map[string]any, error) {
		return r.Invoke(ctx, map[string]any{"in": x}, WithLambdaOption(c16OptA{1, x}), WithCallbacks(&c10Rec{id: "h", evs: &evs}).DesignateNode("a"))
	}
	want := func(x int) map[string]any {
		return map[string]any{"a": vsymUF("f_a", vFold(map[string]any{"in": x}), x)}
	}
	c09Two(run, want, "per-call options and designated callbacks")
	vassert(c10Count(evs, "h", "start", "A") == 2 && c10Count(evs, "h", "end", "A") == 2, "each run fires its own callbacks once")
}

// A workflow node fed only by static values (control dependency on START, no mapped input) that hands its input on:
// every run gets its own value; what a caller does to its result is invisible to the other caller and to later runs.
func VerifC09WorkflowStatic() {
	ctx := context.Background()
	vcfg("delaybound", 1+vtier())
	vcfg("race", 1)
	wf := NewWorkflow[map[string]any, map[string]any]()
	wf.AddLambdaNode("s", InvokableLambda(func(ctx context.Context, in map[string]any) (map[string]any, error) {
		vyield()
		return in, nil
	})).AddDependency(START).SetStaticValue(FieldPath{"k"}, 7)
	wf.End().AddInput("s")
	r, err := wf.Compile(ctx)
	vassert(err == nil, "workflow with a static-values-only node compiles")
	useStream := vchoose("stream", 2) == 1
	run := func(idx int) (map[string]any, error) {
		var out map[string]any
		var e error
		if useStream {
			sr, e2 := r.Stream(ctx, map[string]any{"in": idx})
			if e2 != nil {
				return nil, e2
			}
			out, e = vDrainMap(sr)
		} else {
			out, e = r.Invoke(ctx, map[string]any{"in": idx})
		}
		if e == nil {
			out["mine"] = idx // the caller owns its result
		}
		return out, e
	}
	var o2 map[string]any
	var e2 error
	go func() { o2, e2 = run(2) }()
	o1, e1 := run(1)
	vquiesce()
	vassert(e1 == nil && e2 == nil, "both concurrent runs succeed")
	vassert(len(o1) == 2 && o1["k"] == 7 && o1["mine"] == 1, "the first caller's result is its own")
	vassert(len(o2) == 2 && o2["k"] == 7 && o2["mine"] == 2, "the second caller's result is its own")
	o3, e3 := r.Invoke(ctx, map[string]any{"in": 3})
	vassert(e3 == nil && len(o3) == 1 && o3["k"] == 7, "a later run returns what it would return alone: earlier callers' modifications are invisible")
}

// Failing runs are isolated as well: the error a run returns (step limit exhausted inside a nested graph, or a
// failing nested node) is what the run would return alone, and it does not change when other runs fail later.
func VerifC09ErrorIsolation() {
	ctx := context.Background()
	vcfg("delaybound", 1+vtier())
	vcfg("race", 1)
	kind := vchoose("failure", 2) // 0 step limit inside the nested graph, 1 failing nested node
	sub := NewGraph[map[string]any, map[string]any]()
	_ = sub.AddLambdaNode("n", InvokableLambda(func(ctx context.Context, in map[string]any) (map[string]any, error) {
		vyield()
		if kind == 1 {
			return nil, c09ErrNode
		}
		return in, nil
	}))
	_ = sub.AddEdge(START, "n")
	_ = sub.AddBranch("n", NewGraphBranch(func(ctx context.Context, in map[string]any) (string, error) { return "n", nil },
		map[string]bool{"n": true, END: true}))
	outer := NewGraph[map[string]any, map[string]any]()
	_ = outer.AddGraphNode("sub", sub, WithGraphCompileOptions(WithMaxRunSteps(2)))
	_ = outer.AddEdge(START, "sub")
	_ = outer.AddEdge("sub", END)
	r, err := outer.Compile(ctx)
	vassert(err == nil, "graph compiles")
	useStream := vchoose("stream", 2) == 1
	run := func() error {
		if useStream {
			sr, e := r.Stream(ctx, map[string]any{"in": 1})
			if e != nil {
				return e
			}
			_, e = vDrainMap(sr)
			return e
		}
		_, e := r.Invoke(ctx, map[string]any{"in": 1})
		return e
	}
	var e2 error
	s2 := ""
	go func() {
		e2 = run()
		if e2 != nil {
			s2 = e2.Error()
		}
	}()
	e1 := run()
	s1 := ""
	if e1 != nil {
		s1 = e1.Error()
	}
	vquiesce()
	vassert(e1 != nil && e2 != nil, "both runs fail")
	e3 := run()
	vassert(e3 != nil, "a later run fails the same way")
	vassert(s1 == e3.Error() && s2 == e3.Error(), "every failing run reports what it would report alone (same node path, nothing accumulated from other runs)")
	vassert(e1.Error() == s1 && e2.Error() == s2, "an error already returned to a caller does not change when other runs fail later")
	if kind == 0 {
		vassert(errors.Is(e1, ErrExceedMaxSteps) && errors.Is(e2, ErrExceedMaxSteps), "the step-limit sentinel is matchable in every run")
	} else {
		vassert(errors.Is(e1, c09ErrNode) && errors.Is(e2, c09ErrNode), "the node's error is matchable in every run")
	}
}

type c09Store struct{ m map[string][]byte }

func (s *c09Store) Get(ctx context.Context, id string) ([]byte, bool, error) {
	vMu.Lock()
	defer vMu.Unlock()
	b, ok := s.m[id]
	return b, ok, nil
}
func (s *c09Store) Set(ctx context.Context, id string, b []byte) error {
	vMu.Lock()
	defer vMu.Unlock()
	s.m[id] = append([]byte{}, b...)
	return nil
}

// The compiled interrupt configuration belongs to the runnable, not to a run: a caller that goes through all its
// interrupts (before a, then before b) leaves the next caller — overlapping or later — with the same interrupt points.
func VerifC09InterruptConfig() {
	ctx := context.Background()
	vcfg("delaybound", 1+vtier())
	vcfg("race", 1)
	g := NewGraph[map[string]any, map[string]any]()
	for _, k := range []string{"p", "a", "b"} {
		key := k
		_ = g.AddLambdaNode(key, InvokableLambda(func(ctx context.Context, in map[string]any) (map[string]any, error) {
			vyield()
			return map[string]any{key: 1}, nil
		}))
	}
	_ = g.AddEdge(START, "p")
	_ = g.AddEdge("p", "a")
	_ = g.AddEdge("a", "b")
	_ = g.AddEdge("b", END)
	store := &c09Store{m: map[string][]byte{}}
	before := []string{"a", "b"}
	r, err := g.Compile(ctx, WithCheckPointStore(store), WithInterruptBeforeNodes(before))
	vassert(err == nil, "graph compiles")
	// one caller: every call until the run finishes; returns the interrupt-before nodes reported by each call
	session := func(id string) []string {
		var seen []string
		for call := 0; call < 4; call++ {
			_, e := r.Invoke(ctx, map[string]any{"in": 1}, WithCheckPointID(id))
			if e == nil {
				break
			}
			info, ok := ExtractInterruptInfo(e)
			if !ok {
				seen = append(seen, "error:"+e.Error())
				break
			}
			for _, n := range info.BeforeNodes {
				seen = append(seen, n)
			}
		}
		return seen
	}
	var s2 []string
	go func() { s2 = session("y") }()
	s1 := session("x")
	vquiesce()
	s3 := session("z")
	ok := func(s []string) bool { return len(s) == 2 && s[0] == "a" && s[1] == "b" }
	vassert(ok(s1) && ok(s2), "two overlapping callers are each interrupted before a and then before b")
	vassert(ok(s3), "a later caller meets the same interrupt points")
	vassert(len(before) == 2 && before[0] == "a" && before[1] == "b", "the list the application passed at compile time is not modified")
}
