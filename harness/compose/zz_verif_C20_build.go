package compose

import (
	"context"
	"errors"
)

// C20: ill-formed graphs are rejected deterministically; compiled graphs are immutable.

type c20Op struct {
	kind    int // 0 lambda, 1 passthrough, 2 edge, 3 branch
	a, b, c string
	name    string
}

var c20Catalog = []c20Op{
	{0, "a", "", "", "node a"},
	{0, "b", "", "", "node b"},
	{0, END, "", "", "node END(reserved)"},
	{1, "p", "", "", "passthrough p"},
	{2, START, "a", "", "START->a"},
	{2, "a", "b", "", "a->b"},
	{2, "b", END, "", "b->END"},
	{2, "a", END, "", "a->END"},
	{2, "a", "ghost", "", "a->ghost"},
	{2, "b", "a", "", "b->a"},
	{2, END, "a", "", "END->a"},
	{3, "a", "b", "", "branch a->{b}"},
	{3, "a", "b", END, "branch a->{b,END}"},
	{2, "a", "p", "", "a->p"},
	{2, "p", END, "", "p->END"},
	{3, "ghost", "a", "b", "branch ghost->{a,b}"},
	{1, "q", "", "", "passthrough q"},
	{2, "p", "q", "", "p->q"},
	{2, "q", END, "", "q->END"},
}

func c20Apply(g *Graph[map[string]any, map[string]any], op c20Op) error {
	switch op.kind {
	case 0:
		return g.AddLambdaNode(op.a, vNode(op.a, nil))
	case 1:
		return g.AddPassthroughNode(op.a)
	case 2:
		return g.AddEdge(op.a, op.b)
	default:
		ends := map[string]bool{op.b: true}
		if op.c != "" {
			ends[op.c] = true
		}
		return g.AddBranch(op.a, NewGraphBranch(func(ctx context.Context, in map[string]any) (string, error) { return op.b, nil }, ends))
	}
}

// reference well-formedness of a construction sequence (must-reject classes of the statement)
type c20Ref struct {
	nodes   map[string]bool
	pass    map[string]bool
	edges   map[[2]string]bool
	starts  int
	ends    int
	bad     string
	brEdges [][2]string
}

func (r *c20Ref) apply(op c20Op) {
	if r.bad != "" {
		return
	}
	known := func(k string, allowStart, allowEnd bool) bool {
		return r.nodes[k] || (allowStart && k == START) || (allowEnd && k == END)
	}
	switch op.kind {
	case 0, 1:
		if op.a == START || op.a == END {
			r.bad = "reserved node key"
		} else if r.nodes[op.a] {
			r.bad = "duplicate node key"
		} else {
			r.nodes[op.a] = true
			if op.kind == 1 {
				r.pass[op.a] = true
			}
		}
	case 2:
		switch {
		case op.a == END:
			r.bad = "END as start node"
		case op.b == START:
			r.bad = "START as end node"
		case !known(op.a, true, false) || !known(op.b, false, true):
			r.bad = "unknown node in edge"
		case r.edges[[2]string{op.a, op.b}]:
			r.bad = "duplicate edge"
		default:
			r.edges[[2]string{op.a, op.b}] = true
			if op.a == START {
				r.starts++
			}
			if op.b == END {
				r.ends++
			}
		}
	case 3:
		switch {
		case op.a == END:
			r.bad = "END as start node"
		case !known(op.a, true, false):
			r.bad = "unknown branch start node"
		case op.c == "":
			r.bad = "single-target branch"
		case !known(op.b, false, true) || !known(op.c, false, true):
			r.bad = "unknown branch end node"
		default:
			for _, t := range []string{op.b, op.c} {
				r.brEdges = append(r.brEdges, [2]string{op.a, t})
				if op.a == START {
					r.starts++
				}
				if t == END {
					r.ends++
				}
			}
		}
	}
}

func (r *c20Ref) cyclic() bool {
	adj := map[string][]string{}
	for e := range r.edges {
		adj[e[0]] = append(adj[e[0]], e[1])
	}
	for _, e := range r.brEdges {
		adj[e[0]] = append(adj[e[0]], e[1])
	}
	state := map[string]int{}
	var visit func(n string) bool
	visit = func(n string) bool {
		if state[n] == 1 {
			return true
		}
		if state[n] == 2 {
			return false
		}
		state[n] = 1
		for _, m := range adj[n] {
			if visit(m) {
				return true
			}
		}
		state[n] = 2
		return false
	}
	for n := range r.nodes {
		if visit(n) {
			return true
		}
	}
	return false
}

// pass-through nodes need a typed neighbour (directly or through other pass-through nodes)
func (r *c20Ref) untypedPassthrough() bool {
	typed := map[string]bool{START: true, END: true}
	for n := range r.nodes {
		if !r.pass[n] {
			typed[n] = true
		}
	}
	all := [][2]string{}
	for e := range r.edges {
		all = append(all, e)
	}
	all = append(all, r.brEdges...)
	for changed := true; changed; {
		changed = false
		for _, e := range all {
			if typed[e[0]] != typed[e[1]] {
				typed[e[0]], typed[e[1]] = true, true
				changed = true
			}
		}
	}
	for n := range r.pass {
		if !typed[n] {
			return true // a pass-through node that is not connected (directly or through pass-through nodes) to a typed node
		}
	}
	return false
}

// in all-predecessor mode a node that nothing leads to (no incoming edge, not a branch target) can never be triggered
// in a meaningful way: such graphs are ill-formed there
func (r *c20Ref) orphan() bool {
	in := map[string]bool{}
	for e := range r.edges {
		in[e[1]] = true
	}
	for _, e := range r.brEdges {
		in[e[1]] = true
	}
	for n := range r.nodes {
		if !in[n] {
			return true
		}
	}
	return false
}

func c20Sequence(L int) {
	ctx := context.Background()
	vcfg("fifo", 1)
	if L <= 3 {
		// L = 4 keeps insertion order: 19^4 x 2 sequences times the orders of every map they fill does not finish within
		// the thorough budget (2.4 M paths and counting after 40 min); orders are varied for L = 3, Tail, EdgeOrder, SameReason
		vcfgMapOrderIn("updateToValidateMap")
		vcfgMapOrderIn("validateDAG")
	}
	var ops []c20Op
	desc := ""
	for i := 0; i < L; i++ {
		op := c20Catalog[vchoose("op", len(c20Catalog))]
		ops = append(ops, op)
		desc += op.name + "; "
	}
	dag := vchoose("dag", 2) == 1
	ref := &c20Ref{nodes: map[string]bool{}, pass: map[string]bool{}, edges: map[[2]string]bool{}}
	build := func() (Runnable[map[string]any, map[string]any], *Graph[map[string]any, map[string]any], error, bool) {
		g := NewGraph[map[string]any, map[string]any]()
		var first error
		stickyOK := true
		for _, op := range ops {
			err := c20Apply(g, op)
			if first != nil && err != first {
				stickyOK = false
			}
			if first == nil && err != nil {
				first = err
			}
		}
		var copts []GraphCompileOption
		if dag {
			copts = append(copts, WithNodeTriggerMode(AllPredecessor))
		}
		r, err := g.Compile(ctx, copts...)
		if first != nil && err != first {
			stickyOK = false
		}
		if first == nil {
			first = err
		}
		return r, g, first, stickyOK
	}
	r1, g1, err1, sticky1 := build()
	for _, op := range ops {
		ref.apply(op)
	}
	vassert(sticky1, "once a call has returned an error every later Add*/Compile call returns that same error: "+desc)
	mustReject := ref.bad != "" || ref.starts == 0 || ref.ends == 0 || (dag && ref.cyclic()) || ref.untypedPassthrough() || (dag && ref.orphan())
	if mustReject {
		vassert(err1 != nil, "ill-formed construction is rejected with an error: "+desc)
	}
	// the same sequence gives the same outcome on a second attempt (and under every marked map order)
	_, _, err2, _ := build()
	vassert((err1 == nil) == (err2 == nil), "the same construction sequence gives the same outcome on every attempt: "+desc)
	if err1 != nil && err2 != nil {
		vassert(err1.Error() == err2.Error(), "the same construction sequence is rejected for the same reason on every attempt: "+desc)
	}
	if err1 != nil {
		return
	}
	vreach("compiled")
	// compiled: the graph can no longer be modified and the runnable is unaffected by later attempts
	x := vsymInt("x")
	in := map[string]any{"in": x}
	out1, rerr1 := r1.Invoke(ctx, in)
	for _, op := range c20Catalog[:8] {
		err := c20Apply(g1, op)
		vassert(errors.Is(err, ErrGraphCompiled), "after a successful Compile every Add* call fails with ErrGraphCompiled ("+op.name+"): "+desc)
	}
	_, _ = g1.Compile(ctx)
	out2, rerr2 := r1.Invoke(ctx, in)
	vassert((rerr1 == nil) == (rerr2 == nil), "the compiled runnable behaves the same after later modification attempts and a second Compile: "+desc)
	if rerr1 == nil && rerr2 == nil {
		vassert(vMapEq(out1, out2), "the compiled runnable returns the same result after later modification attempts: "+desc)
	}
}

func VerifC20Seq3() { c20Sequence(3) }
func VerifC20Seq4() { c20Sequence(4) }

// canonical well-formed prefixes followed by two arbitrary operations
func VerifC20Tail() {
	ctx := context.Background()
	vcfg("fifo", 1)
	base := []int{0, 1, 4, 5} // a, b, START->a, a->b
	var ops []c20Op
	desc := ""
	for _, i := range base {
		ops = append(ops, c20Catalog[i])
	}
	for i := 0; i < 3; i++ {
		op := c20Catalog[vchoose("op", len(c20Catalog))]
		ops = append(ops, op)
		desc += op.name + "; "
	}
	ops = append(ops, c20Catalog[6]) // b->END
	dag := vchoose("dag", 2) == 1
	g := NewGraph[map[string]any, map[string]any]()
	ref := &c20Ref{nodes: map[string]bool{}, pass: map[string]bool{}, edges: map[[2]string]bool{}}
	var first error
	for _, op := range ops {
		err := c20Apply(g, op)
		if first != nil {
			vassert(err == first, "the first error sticks: "+desc)
		}
		if first == nil {
			first = err
		}
		ref.apply(op)
	}
	var copts []GraphCompileOption
	if dag {
		copts = append(copts, WithNodeTriggerMode(AllPredecessor))
	}
	r, err := g.Compile(ctx, copts...)
	mustReject := ref.bad != "" || ref.starts == 0 || ref.ends == 0 || (dag && ref.cyclic()) || ref.untypedPassthrough() || (dag && ref.orphan())
	if mustReject {
		vassert(err != nil, "ill-formed construction is rejected: a,b,START->a,a->b, "+desc+"b->END")
		return
	}
	vassert(err == nil, "well-formed construction compiles: a,b,START->a,a->b, "+desc+"b->END")
	_, _ = r.Invoke(ctx, map[string]any{"in": vsymInt("x")})
}

// Workflow and Chain front ends: deferred errors, second Compile
func VerifC20Workflow() {
	ctx := context.Background()
	vcfg("fifo", 1)
	type mid struct{ V int }
	wf := NewWorkflow[map[string]any, map[string]any]()
	wf.AddLambdaNode("a", InvokableLambda(func(ctx context.Context, in map[string]any) (mid, error) {
		v, _ := in["in"].(int)
		return mid{V: vsymUF("f_a", v)}, nil
	})).AddInput(START)
	type midS struct {
		V int
		S int
	}
	nb := wf.AddLambdaNode("b", InvokableLambda(func(ctx context.Context, in midS) (map[string]any, error) {
		return map[string]any{"b": vsymUF("f_b", in.V), "s": in.S}, nil
	}))
	nb.AddInput("a", MapFields("V", "V")).SetStaticValue(FieldPath{"S"}, 7)
	wf.End().AddInput("b")
	bad := vchoose("bad", 4)
	switch bad {
	case 1:
		wf.AddBranch("a", NewGraphBranch(func(ctx context.Context, in mid) (string, error) { return "b", nil }, map[string]bool{"b": true}))
	case 2:
		wf.AddBranch("ghost", NewGraphBranch(func(ctx context.Context, in mid) (string, error) { return "b", nil }, map[string]bool{"b": true, END: true}))
	case 3:
		wf.AddLambdaNode("a", vNode("a", nil)) // duplicate key
	}
	r, err := wf.Compile(ctx)
	if bad != 0 {
		vassert(err != nil, "ill-formed workflow (single-target branch / unknown branch source / duplicate key) is rejected at Compile")
		_, err2 := wf.Compile(ctx)
		vassert(err2 != nil, "the error sticks on a second Compile")
		return
	}
	vassert(err == nil, "workflow compiles")
	x := vsymInt("x")
	out1, e1 := r.Invoke(ctx, map[string]any{"in": x})
	vassert(e1 == nil, "workflow runs")
	vassert(out1["s"] == 7, "the static value reaches the node")
	_, _ = wf.Compile(ctx) // a later attempt to compile again must not affect the first runnable
	wf.AddLambdaNode("late", vNode("late", nil))
	nb.SetStaticValue(FieldPath{"S"}, 8) // nor must a later change of a node's static values
	out2, e2 := r.Invoke(ctx, map[string]any{"in": x})
	vassert(e2 == nil, "the compiled workflow still runs after later attempts on the builder")
	vassert(vMapEq(out1, out2), "the compiled workflow returns the same result after later attempts on the builder")
}

func VerifC20Chain() {
	ctx := context.Background()
	vcfg("fifo", 1)
	ch := NewChain[map[string]any, map[string]any]()
	ch.AppendLambda(vNode("a", nil))
	bad := vchoose("bad", 3)
	switch bad {
	case 1: // branch directly after parallel is not allowed
		p := NewParallel()
		p.AddLambda("p1", vNode("p1", nil))
		p.AddLambda("p2", vNode("p2", nil))
		ch.AppendParallel(p)
		cb := NewChainBranch(func(ctx context.Context, in map[string]any) (string, error) { return "x", nil })
		cb.AddLambda("x", vNode("x", nil))
		cb.AddLambda("y", vNode("y", nil))
		ch.AppendBranch(cb)
	case 2: // parallel with one branch only
		p := NewParallel()
		p.AddLambda("p1", vNode("p1", nil))
		ch.AppendParallel(p)
	}
	ch.AppendLambda(vNode("z", nil))
	r, err := ch.Compile(ctx)
	if bad != 0 {
		vassert(err != nil, "ill-formed chain is rejected at Compile")
		_, err2 := ch.Compile(ctx)
		vassert(err2 != nil, "the chain error sticks")
		return
	}
	vassert(err == nil, "chain compiles")
	x := vsymInt("x")
	out1, e1 := r.Invoke(ctx, map[string]any{"in": x})
	ch.AppendLambda(vNode("late", nil))
	out2, e2 := r.Invoke(ctx, map[string]any{"in": x})
	vassert(e1 == nil && e2 == nil, "chain runs before and after a late Append attempt")
	vassert(vMapEq(out1, out2), "a compiled chain is unaffected by later Append calls")
}

// Workflow: entry / exit connected only by data-only dependencies; duplicate input mappings; every attempt to
// compile an ill-formed workflow fails
func VerifC20WorkflowDeferred() {
	ctx := context.Background()
	vcfg("fifo", 1)
	bad := vchoose("bad", 5)
	wf := NewWorkflow[map[string]any, map[string]any]()
	a := wf.AddLambdaNode("a", vNode("a", nil))
	b := wf.AddLambdaNode("b", vNode("b", nil))
	switch bad {
	case 0: // well-formed
		a.AddInput(START)
		b.AddInput("a")
		wf.End().AddInput("b")
	case 1: // END reachable only through a data-only dependency: no exit edge
		a.AddInput(START)
		b.AddInput("a")
		wf.End().AddInputWithOptions("b", nil, WithNoDirectDependency())
	case 2: // entry only through a data-only dependency: no entry edge
		a.AddInputWithOptions(START, nil, WithNoDirectDependency())
		b.AddInput("a")
		wf.End().AddInput("b")
	case 3: // whole output mapped twice
		a.AddInput(START)
		b.AddInput("a")
		b.AddInput(START)
		wf.End().AddInput("b")
	case 4: // same target field mapped twice
		a.AddInput(START)
		b.AddInput("a", ToField("f"))
		b.AddInputWithOptions(START, []*FieldMapping{ToField("f")}, WithNoDirectDependency())
		wf.End().AddInput("b")
	}
	_, err1 := wf.Compile(ctx)
	_, err2 := wf.Compile(ctx)
	if bad == 0 {
		vassert(err1 == nil, "well-formed workflow compiles")
		return
	}
	vassert(err1 != nil, "ill-formed workflow (missing entry/exit edge, duplicate mapping target) is rejected at Compile")
	vassert(err2 != nil, "the same ill-formed workflow is rejected on every Compile attempt")
}

// The verdict on a graph does not depend on the order in which its (valid) edges are declared: a chain through two
// pass-through nodes whose ends have mismatching types is rejected for every edge order, a matching one accepted.
func VerifC20EdgeOrder() {
	ctx := context.Background()
	vcfg("fifo", 1)
	mismatch := vchoose("mismatch", 2) == 1
	g := NewGraph[map[string]any, map[string]any]()
	_ = g.AddLambdaNode("a", vNode("a", nil))
	_ = g.AddPassthroughNode("p")
	_ = g.AddPassthroughNode("q")
	if mismatch {
		_ = g.AddLambdaNode("b", InvokableLambda(func(ctx context.Context, in int) (map[string]any, error) {
			return map[string]any{"b": in}, nil
		}))
	} else {
		_ = g.AddLambdaNode("b", vNode("b", nil))
	}
	edges := [][2]string{{START, "a"}, {"a", "p"}, {"p", "q"}, {"q", "b"}, {"b", END}}
	used := make([]bool, len(edges))
	var firstErr error
	order := ""
	for k := 0; k < len(edges); k++ {
		// the k-th declared edge is the c-th still undeclared one
		c := vchoose("edge", len(edges)-k)
		idx := -1
		for i := range edges {
			if !used[i] {
				if c == 0 {
					idx = i
					break
				}
				c--
			}
		}
		used[idx] = true
		order += edges[idx][0] + ">" + edges[idx][1] + " "
		if err := g.AddEdge(edges[idx][0], edges[idx][1]); err != nil && firstErr == nil {
			firstErr = err
		}
	}
	r, cerr := g.Compile(ctx)
	if mismatch {
		vassert(firstErr != nil || cerr != nil, "a type mismatch across two pass-through nodes is rejected whatever the order of the AddEdge calls: "+order)
		return
	}
	vassert(firstErr == nil && cerr == nil, "a well-typed chain through two pass-through nodes is accepted whatever the order of the AddEdge calls: "+order)
	x := vsymInt("x")
	_, err := r.Invoke(ctx, map[string]any{"in": x})
	vassert(err == nil, "and runs")
}

// Cycles in all-predecessor mode, whatever else the graph contains: START->a ; a->b ; b->c ; c->END with any subset of
// extra links {branch a->{b,END}, branch a->{c,END}, edge a->c, back edge c->b, back edge c->a, back edge b->a}; the
// graph must be rejected exactly when it has a cycle, on every attempt, in DAG mode; in Pregel mode cycles compile.
func VerifC20Cycles() {
	ctx := context.Background()
	vcfg("fifo", 1)
	g := NewGraph[map[string]any, map[string]any]()
	for _, k := range []string{"a", "b", "c"} {
		_ = g.AddLambdaNode(k, vNode(k, nil))
	}
	var errs []error
	errs = append(errs, g.AddEdge(START, "a"), g.AddEdge("a", "b"), g.AddEdge("b", "c"), g.AddEdge("c", END))
	desc := ""
	br := func(to string) *GraphBranch {
		return NewGraphBranch(func(ctx context.Context, in map[string]any) (string, error) { return to, nil }, map[string]bool{to: true, END: true})
	}
	if vchoose("branch_a_b", 2) == 1 {
		errs = append(errs, g.AddBranch("a", br("b")))
		desc += "a?>b "
	}
	if vchoose("branch_a_c", 2) == 1 {
		errs = append(errs, g.AddBranch("a", br("c")))
		desc += "a?>c "
	}
	if vchoose("edge_a_c", 2) == 1 {
		errs = append(errs, g.AddEdge("a", "c"))
		desc += "a>c "
	}
	cyclic := false
	switch vchoose("back", 5) {
	case 1:
		errs = append(errs, g.AddEdge("c", "b"))
		desc += "c>b "
		cyclic = true
	case 2:
		errs = append(errs, g.AddEdge("c", "a"))
		desc += "c>a "
		cyclic = true
	case 3:
		errs = append(errs, g.AddEdge("b", "a"))
		desc += "b>a "
		cyclic = true
	case 4:
		errs = append(errs, g.AddBranch("c", br("b")))
		desc += "c?>b "
		cyclic = true
	}
	for _, e := range errs {
		vassert(e == nil, "every single construction step is legal: "+desc)
	}
	dag := vchoose("dag", 2) == 1
	var opts []GraphCompileOption
	if dag {
		opts = append(opts, WithNodeTriggerMode(AllPredecessor))
	}
	_, err := g.Compile(ctx, opts...)
	if dag && cyclic {
		vassert(err != nil, "a cycle is rejected in all-predecessor mode, however the nodes on it are reached otherwise: "+desc)
		_, err2 := g.Compile(ctx, opts...)
		vassert(err2 != nil, "and on every further attempt: "+desc)
		return
	}
	if !dag {
		vassert(err == nil, "any-predecessor mode accepts the graph (cycles allowed): "+desc)
	}
}

type c20In struct{ A int }
type c20Out struct{ X int }

// The deferred inputs of a workflow are applied in map order at Compile: the verdict on one and the same workflow
// does not depend on that order. A pass-through node between START and a field-mapped END, and a pass-through in
// front of a typed node, compile and run for every order.
func VerifC20WorkflowOrder() {
	ctx := context.Background()
	vcfg("fifo", 1)
	vcfgMapOrderIn("compose.Workflow[")
	x := vsymInt("x")
	shape := vchoose("shape", 2)
	wf := NewWorkflow[c20In, c20Out]()
	switch shape {
	case 0: // START -> p(pass-through) ; END.X <- p.A
		wf.AddPassthroughNode("p").AddInput(START)
		wf.End().AddInput("p", MapFields("A", "X"))
	case 1: // START -> p -> n(c20In -> int) ; END.X <- n
		wf.AddPassthroughNode("p").AddInput(START)
		wf.AddLambdaNode("n", InvokableLambda(func(ctx context.Context, in c20In) (int, error) { return in.A, nil })).AddInput("p")
		wf.End().AddInput("n", ToField("X"))
	}
	r, err := wf.Compile(ctx)
	if err != nil {
		vlog("compile error: " + err.Error())
	}
	vassert(err == nil, "the well-formed workflow compiles whatever order the deferred inputs are applied in")
	out, rerr := r.Invoke(ctx, c20In{A: x})
	vassert(rerr == nil && out.X == x, "and runs")
}

// pass-through nodes with an input or output key whose un-keyed side is not connected to any typed node: the type
// cannot be inferred, which Compile reports as an error (never a panic), on every attempt
func VerifC20KeyedPassthrough() {
	ctx := context.Background()
	vcfg("fifo", 1)
	shape := vchoose("shape", 4)
	var err1, err2 error
	switch shape {
	case 0: // output-keyed pass-through whose only connection is p -> END
		g := NewGraph[map[string]any, map[string]any]()
		_ = g.AddLambdaNode("a", vNode("a", nil))
		_ = g.AddPassthroughNode("p", WithOutputKey("k"))
		_ = g.AddEdge(START, "a")
		_ = g.AddEdge("a", END)
		_ = g.AddEdge("p", END)
		_, err1 = g.Compile(ctx)
		_, err2 = g.Compile(ctx)
	case 1: // input-keyed pass-through fed by START, nothing behind it
		g := NewGraph[map[string]any, map[string]any]()
		_ = g.AddLambdaNode("a", vNode("a", nil))
		_ = g.AddPassthroughNode("p", WithInputKey("k"))
		_ = g.AddEdge(START, "a")
		_ = g.AddEdge("a", END)
		_ = g.AddEdge(START, "p")
		_, err1 = g.Compile(ctx)
		_, err2 = g.Compile(ctx)
	case 2: // workflow pass-through that only has a control dependency
		wf := NewWorkflow[map[string]any, map[string]any]()
		wf.AddLambdaNode("a", vNode("a", nil)).AddInput(START)
		wf.AddPassthroughNode("p", WithOutputKey("k")).AddDependency("a")
		wf.End().AddInput("a")
		_, err1 = wf.Compile(ctx)
		_, err2 = wf.Compile(ctx)
	case 3: // control: a keyed pass-through connected on both sides compiles
		g := NewGraph[map[string]any, map[string]any]()
		_ = g.AddLambdaNode("a", vNode("a", nil))
		_ = g.AddPassthroughNode("p", WithOutputKey("k"))
		_ = g.AddEdge(START, "a")
		_ = g.AddEdge("a", "p")
		_ = g.AddEdge("p", END)
		r, err := g.Compile(ctx)
		vassert(err == nil, "a keyed pass-through between two typed nodes compiles")
		out, rerr := r.Invoke(ctx, map[string]any{"in": 1})
		_, has := out["k"]
		vassert(rerr == nil && has, "and wraps its input under the key")
		return
	}
	vassert(err1 != nil && err2 != nil, "a keyed pass-through whose type cannot be inferred is rejected by Compile with an error, on every attempt")
}

// ill-formed branch declarations: a nil branch, a branch without targets, a workflow branch to a node that does not
// exist: an error from AddBranch or Compile, never a panic
func VerifC20BadBranches() {
	ctx := context.Background()
	vcfg("fifo", 1)
	var err error
	switch vchoose("case", 4) {
	case 3: // a branch without any target
		g := NewGraph[map[string]any, map[string]any]()
		_ = g.AddLambdaNode("a", vNode("a", nil))
		_ = g.AddEdge(START, "a")
		_ = g.AddEdge("a", END)
		err = g.AddBranch("a", NewGraphBranch(func(ctx context.Context, in map[string]any) (string, error) { return END, nil }, map[string]bool{}))
		if err == nil {
			_, err = g.Compile(ctx)
		}
	case 0:
		g := NewGraph[map[string]any, map[string]any]()
		_ = g.AddLambdaNode("a", vNode("a", nil))
		_ = g.AddEdge(START, "a")
		_ = g.AddEdge("a", END)
		err = g.AddBranch("a", nil)
		if err == nil {
			_, err = g.Compile(ctx)
		}
	case 1:
		wf := NewWorkflow[map[string]any, map[string]any]()
		wf.AddLambdaNode("a", vNode("a", nil)).AddInput(START)
		wf.AddLambdaNode("b", vNode("b", nil)).AddInput("a")
		wf.End().AddInput("b")
		wf.AddBranch("a", NewGraphBranch(func(ctx context.Context, in map[string]any) (string, error) { return "b", nil },
			map[string]bool{"b": true, "zzz": true}))
		_, err = wf.Compile(ctx)
	case 2:
		wf := NewWorkflow[map[string]any, map[string]any]()
		wf.AddLambdaNode("a", vNode("a", nil)).AddInput(START)
		wf.End().AddInput("a")
		wf.AddBranch("a", nil)
		_, err = wf.Compile(ctx)
	}
	vassert(err != nil, "a nil branch, a branch without targets or a branch to an unknown node is rejected with an error")
}

// Compiling an unchanged builder again gives the same verdict and an equivalent runnable (graph, chain, workflow
// with deferred inputs, a branch and a static value); a modification attempted after a successful Compile is
// never silently lost: it is reported by the call itself or by the next Compile, and never becomes part of a
// later runnable.
func VerifC20Recompile() {
	ctx := context.Background()
	vcfg("fifo", 1)
	kind := vchoose("kind", 3)
	lateKind := vchoose("late", 4) // 0 none, 1.. a modification attempted after Compile
	late := lateKind != 0
	if kind != 2 && lateKind > 1 {
		return
	}
	x := vsymInt("x")
	in := map[string]any{"in": x}
	switch kind {
	case 0:
		g := NewGraph[map[string]any, map[string]any]()
		_ = g.AddLambdaNode("a", vNode("a", nil))
		_ = g.AddEdge(START, "a")
		_ = g.AddEdge("a", END)
		r1, e1 := g.Compile(ctx)
		vassert(e1 == nil, "graph compiles")
		if late {
			vassert(errors.Is(g.AddLambdaNode("late", vNode("late", nil)), ErrGraphCompiled), "late AddNode is refused")
		}
		r2, e2 := g.Compile(ctx)
		vassert(e2 == nil, "compiling the unchanged graph again succeeds as well")
		o1, _ := r1.Invoke(ctx, in)
		o2, _ := r2.Invoke(ctx, in)
		vassert(vMapEq(o1, o2), "both compilations of the graph behave alike")
	case 1:
		ch := NewChain[map[string]any, map[string]any]()
		ch.AppendLambda(vNode("a", nil))
		r1, e1 := ch.Compile(ctx)
		vassert(e1 == nil, "chain compiles")
		if late {
			ch.AppendLambda(vNode("late", nil))
			_, e2 := ch.Compile(ctx)
			vassert(e2 != nil, "an Append refused after Compile is reported by the next Compile (the chain's only error channel)")
			return
		}
		r2, e2 := ch.Compile(ctx)
		vassert(e2 == nil, "compiling the unchanged chain again succeeds as well")
		o1, _ := r1.Invoke(ctx, in)
		o2, _ := r2.Invoke(ctx, in)
		vassert(vMapEq(o1, o2), "both compilations of the chain behave alike")
	case 2:
		type midS struct {
			V int
			S int
			T int
		}
		wf := NewWorkflow[map[string]any, map[string]any]()
		wf.AddLambdaNode("a", InvokableLambda(func(ctx context.Context, in map[string]any) (int, error) {
			v, _ := in["in"].(int)
			return vsymUF("f_a", v), nil
		})).AddInput(START)
		nb := wf.AddLambdaNode("b", InvokableLambda(func(ctx context.Context, in midS) (map[string]any, error) {
			return map[string]any{"b": vsymUF("f_b", in.V), "s": in.S, "t": in.T}, nil
		}))
		nb.AddInputWithOptions("a", []*FieldMapping{ToField("V")}, WithNoDirectDependency()).SetStaticValue(FieldPath{"S"}, 7)
		wf.AddLambdaNode("c", vNode("c", nil)).AddInput(START)
		wf.AddBranch("a", NewGraphBranch(func(ctx context.Context, in int) (string, error) { return "b", nil }, map[string]bool{"b": true, "c": true}))
		wf.End().AddInput("b")
		r1, e1 := wf.Compile(ctx)
		vassert(e1 == nil, "workflow compiles")
		o1, _ := r1.Invoke(ctx, in)
		vassert(o1["s"] == 7 && o1["t"] == 0, "static value delivered")
		if late {
			switch lateKind {
			case 1:
				nb.SetStaticValue(FieldPath{"T"}, 9)
			case 2:
				wf.AddBranch("a", NewGraphBranch(func(ctx context.Context, in int) (string, error) { return "c", nil }, map[string]bool{"b": true, "c": true}))
			case 3:
				nb.AddInputWithOptions(START, []*FieldMapping{MapFields("in", "T")}, WithNoDirectDependency())
			}
			r2, e2 := wf.Compile(ctx)
			vassert(e2 != nil, "a static value, branch or input added after a successful Compile is reported by the next Compile")
			if e2 == nil {
				o2, _ := r2.Invoke(ctx, in)
				vassert(vMapEq(o1, o2), "a modification after a successful Compile does not become part of a later runnable")
			}
			o3, _ := r1.Invoke(ctx, in)
			vassert(vMapEq(o1, o3), "the first runnable is unaffected")
			return
		}
		r2, e2 := wf.Compile(ctx)
		vassert(e2 == nil, "compiling the unchanged workflow again succeeds as well")
		o2, _ := r2.Invoke(ctx, in)
		vassert(vMapEq(o1, o2), "both compilations of the workflow behave alike")
	}
}

// A graph nested in itself - directly, or through a second graph or chain - has no finite expansion: Compile rejects
// it with an error (it must not recurse until the stack overflows, which no caller can recover from).
func VerifC20SelfNested() {
	ctx := context.Background()
	vcfg("fifo", 1)
	vcfg("depthviolation", 300) // a Compile still nesting at this depth is unbounded recursion
	var err error
	switch vchoose("shape", 3) {
	case 0:
		g := NewGraph[map[string]any, map[string]any]()
		_ = g.AddGraphNode("self", g)
		_ = g.AddEdge(START, "self")
		_ = g.AddEdge("self", END)
		_, err = g.Compile(ctx)
	case 1:
		a := NewGraph[map[string]any, map[string]any]()
		b := NewGraph[map[string]any, map[string]any]()
		_ = a.AddGraphNode("b", b)
		_ = a.AddEdge(START, "b")
		_ = a.AddEdge("b", END)
		_ = b.AddGraphNode("a", a)
		_ = b.AddEdge(START, "a")
		_ = b.AddEdge("a", END)
		_, err = a.Compile(ctx)
	case 2:
		c1 := NewChain[map[string]any, map[string]any]()
		c2 := NewChain[map[string]any, map[string]any]()
		c1.AppendGraph(c2)
		c2.AppendGraph(c1)
		_, err = c1.Compile(ctx)
	}
	vassert(err != nil, "a graph nested in itself is rejected by Compile with an error")
}

// One *GraphBranch value given to a Workflow and to an ordinary Graph, in either order, and the Graph compiled before
// and after the Workflow: lowering the branch for the Workflow (where branches carry no data) leaves the caller's
// branch value alone, so the Graph's selected target always receives the branching node's output.
func VerifC20SharedBranchValue() {
	ctx := context.Background()
	vcfg("fifo", 1)
	br := NewGraphBranch(func(ctx context.Context, in map[string]any) (string, error) { return "a", nil }, map[string]bool{"a": true, "b": true})
	x := vsymInt("x")
	in := map[string]any{"in": x}
	mkGraph := func() (Runnable[map[string]any, map[string]any], error) {
		g := NewGraph[map[string]any, map[string]any]()
		_ = g.AddLambdaNode("a", vNode("a", nil))
		_ = g.AddLambdaNode("b", vNode("b", nil))
		_ = g.AddBranch(START, br)
		_ = g.AddEdge("a", END)
		_ = g.AddEdge("b", END)
		return g.Compile(ctx, WithNodeTriggerMode(AllPredecessor))
	}
	mkWorkflow := func() error {
		wf := NewWorkflow[map[string]any, map[string]any]()
		wf.AddPassthroughNode("gate").AddInput(START)
		wf.AddLambdaNode("a", vNode("a", nil)).AddInputWithOptions("gate", nil, WithNoDirectDependency())
		wf.AddLambdaNode("b", vNode("b", nil)).AddInputWithOptions("gate", nil, WithNoDirectDependency())
		wf.AddBranch("gate", br)
		wf.End().AddInput("a", ToField("a")).AddInput("b", ToField("b"))
		_, err := wf.Compile(ctx)
		return err
	}
	want := map[string]any{"a": vsymUF("f_a", vFold(in))}
	order := vchoose("order", 3)
	switch order {
	case 0: // workflow first, then the graph
		vassert(mkWorkflow() == nil, "workflow compiles")
		r, err := mkGraph()
		vassert(err == nil, "graph compiles")
		out, rerr := r.Invoke(ctx, in)
		vassert(rerr == nil && vMapEq(out, want), "a graph built with a branch value a workflow used before: the selected target receives the input")
	case 1: // graph compiled, then the workflow: the compiled graph is unaffected
		r, err := mkGraph()
		vassert(err == nil, "graph compiles")
		vassert(mkWorkflow() == nil, "workflow compiles")
		out, rerr := r.Invoke(ctx, in)
		vassert(rerr == nil && vMapEq(out, want), "a compiled graph is unaffected by a workflow that uses the same branch value later")
	case 2: // the same graph-building sequence repeated after the workflow gives the same runnable
		_, err := mkGraph()
		vassert(err == nil, "graph compiles")
		vassert(mkWorkflow() == nil, "workflow compiles")
		r, err := mkGraph()
		vassert(err == nil, "graph compiles again")
		out, rerr := r.Invoke(ctx, in)
		vassert(rerr == nil && vMapEq(out, want), "the same construction sequence gives the same runnable after a workflow has used the branch value")
	}
}

// Missing components and an untypable pass-through are ill-formed constructions like any other: every front end
// answers with an error (from the Add* call or from Compile), never with a panic.
func VerifC20NilComponents() {
	ctx := context.Background()
	vcfg("fifo", 1)
	var err error
	switch vchoose("case", 10) {
	case 0:
		err = NewGraph[string, string]().AddLambdaNode("k", nil)
	case 1:
		err = NewGraph[string, string]().AddGraphNode("k", nil)
	case 2:
		err = NewGraph[string, string]().AddChatModelNode("k", nil)
	case 3:
		err = NewGraph[string, string]().AddToolsNode("k", nil)
	case 4:
		err = NewGraph[string, string]().AddChatTemplateNode("k", nil)
	case 5:
		_, err = NewChain[string, string]().AppendLambda(nil).Compile(ctx)
	case 6:
		wf := NewWorkflow[string, string]()
		wf.AddLambdaNode("k", nil).AddInput(START)
		wf.End().AddInput("k")
		_, err = wf.Compile(ctx)
	case 7:
		cb := NewChainBranch(func(ctx context.Context, in string) (string, error) { return "x", nil })
		cb.AddLambda("x", nil)
		cb.AddLambda("y", InvokableLambda(func(ctx context.Context, s string) (string, error) { return s, nil }))
		_, err = NewChain[string, string]().AppendBranch(cb).Compile(ctx)
	case 8:
		p := NewParallel()
		p.AddLambda("x", nil)
		p.AddLambda("y", InvokableLambda(func(ctx context.Context, s string) (string, error) { return s, nil }))
		_, err = NewChain[string, map[string]any]().AppendParallel(p).Compile(ctx)
	case 9: // a pass-through with an input key and an output key: nothing can give the value it carries a type
		g := NewGraph[map[string]any, map[string]any]()
		_ = g.AddPassthroughNode("p", WithInputKey("a"), WithOutputKey("b"))
		_ = g.AddEdge(START, "p")
		_ = g.AddEdge("p", END)
		var r Runnable[map[string]any, map[string]any]
		r, err = g.Compile(ctx)
		if err == nil { // or it is given a type and works
			out, rerr := r.Invoke(ctx, map[string]any{"a": 1})
			vassert(rerr == nil && out["b"] == 1, "a keyed pass-through that compiles hands the value under its input key on under its output key")
			return
		}
	}
	vassert(err != nil, "a missing component (or an untypable pass-through) is rejected with an error")
}

// Outcome determinism includes the reason given: a graph with a cycle through three nodes (all-predecessor mode), or
// with two untypable pass-through nodes, is rejected with the same error text on every attempt, whatever order the
// compile steps visit their maps in.
func VerifC20SameReason() {
	ctx := context.Background()
	vcfg("fifo", 1)
	shape := vchoose("shape", 5)
	cond := func(ctx context.Context, in map[string]any) (string, error) { return "x", nil }
	build := func() error {
		switch shape {
		case 2: // a branch with two unknown end nodes
			g := NewGraph[map[string]any, map[string]any]()
			_ = g.AddLambdaNode("a", vNode("a", nil))
			return g.AddBranch("a", NewGraphBranch(cond, map[string]bool{"x": true, "y": true}))
		case 3: // a chain branch whose two nodes both need a state the chain does not have
			pre := func(ctx context.Context, in map[string]any, s *int) (map[string]any, error) { return in, nil }
			cb := NewChainBranch(cond)
			cb.AddLambda("x", vNode("x", nil), WithStatePreHandler(pre))
			cb.AddLambda("y", vNode("y", nil), WithStatePreHandler(pre))
			_, err := NewChain[map[string]any, map[string]any]().AppendBranch(cb).Compile(ctx)
			return err
		case 4: // two static values that both conflict with mapped fields
			wf := NewWorkflow[map[string]any, map[string]any]()
			wf.AddLambdaNode("a", vNode("a", nil)).AddInput(START)
			wf.End().AddInput("a", ToField("x")).AddInput(START, ToField("y")).
				SetStaticValue(FieldPath{"x"}, "1").SetStaticValue(FieldPath{"y"}, "2")
			_, err := wf.Compile(ctx)
			return err
		}
		g := NewGraph[map[string]any, map[string]any]()
		if shape == 0 {
			for _, k := range []string{"a", "b", "c"} {
				_ = g.AddLambdaNode(k, vNode(k, nil))
			}
			_ = g.AddEdge(START, "a")
			_ = g.AddEdge("a", "b")
			_ = g.AddEdge("b", "c")
			_ = g.AddEdge("c", "a")
			_ = g.AddEdge("c", END)
		} else {
			_ = g.AddLambdaNode("a", vNode("a", nil))
			_ = g.AddPassthroughNode("p")
			_ = g.AddPassthroughNode("q")
			_ = g.AddEdge(START, "a")
			_ = g.AddEdge("a", END)
		}
		_, err := g.Compile(ctx, WithNodeTriggerMode(AllPredecessor))
		return err
	}
	// the maps whose order decides which offender is met first (those of graph.compile itself are too many to enumerate)
	marked := []string{"validateDAG", "", "graph).addBranch", "AppendBranch", "compose.Workflow["}[shape]
	e1 := build() // one attempt in the default order of the maps ...
	if marked != "" {
		vcfgMapOrderIn(marked)
	}
	e2 := build() // ... and one in any order
	if marked != "" {
		vcfgMapOrderIn("-" + marked)
	}
	vassert(e1 != nil && e2 != nil, "the ill-formed graph is rejected on every attempt")
	if e1 != nil && e2 != nil {
		vassert(e1.Error() == e2.Error(), "and for the same stated reason on every attempt")
	}
}

// Invalid option combinations are rejected by Compile - at the top level and for a nested graph compiled through
// WithGraphCompileOptions, on the first and on a repeated Compile: a step limit in all-predecessor mode or in a
// workflow, a trigger mode on a chain or a workflow; the same options one at a time are accepted.
func VerifC20OptionCombos() {
	ctx := context.Background()
	vcfg("fifo", 1)
	mk := func() *Graph[map[string]any, map[string]any] {
		g := NewGraph[map[string]any, map[string]any]()
		_ = g.AddLambdaNode("a", vNode("a", nil))
		_ = g.AddEdge(START, "a")
		_ = g.AddEdge("a", END)
		return g
	}
	nested := vchoose("nested", 2) == 1
	compile := func(inner AnyGraph, opts ...GraphCompileOption) error {
		if !nested {
			switch x := inner.(type) {
			case *Graph[map[string]any, map[string]any]:
				_, err := x.Compile(ctx, opts...)
				if err == nil || vchoose("again", 2) == 0 {
					return err
				}
				_, err = x.Compile(ctx, opts...)
				return err
			case *Workflow[map[string]any, map[string]any]:
				_, err := x.Compile(ctx, opts...)
				return err
			case *Chain[map[string]any, map[string]any]:
				_, err := x.Compile(ctx, opts...)
				return err
			}
			return nil
		}
		outer := NewGraph[map[string]any, map[string]any]()
		_ = outer.AddGraphNode("sub", inner, WithGraphCompileOptions(opts...))
		_ = outer.AddEdge(START, "sub")
		_ = outer.AddEdge("sub", END)
		_, err := outer.Compile(ctx)
		return err
	}
	wf := func() *Workflow[map[string]any, map[string]any] {
		w := NewWorkflow[map[string]any, map[string]any]()
		w.AddLambdaNode("a", vNode("a", nil)).AddInput(START)
		w.End().AddInput("a")
		return w
	}
	ch := func() *Chain[map[string]any, map[string]any] {
		c := NewChain[map[string]any, map[string]any]()
		c.AppendLambda(vNode("a", nil))
		return c
	}
	bad := true
	var err error
	switch vchoose("combo", 8) {
	case 0:
		err = compile(mk(), WithNodeTriggerMode(AllPredecessor), WithMaxRunSteps(5))
	case 1:
		err = compile(wf(), WithMaxRunSteps(5))
	case 2:
		err = compile(ch(), WithNodeTriggerMode(AllPredecessor))
	case 3:
		err = compile(wf(), WithNodeTriggerMode(AnyPredecessor))
	case 4:
		err = compile(mk(), WithMaxRunSteps(5))
		bad = false
	case 5:
		err = compile(mk(), WithNodeTriggerMode(AllPredecessor))
		bad = false
	case 6:
		err = compile(ch(), WithMaxRunSteps(5))
		bad = false
	case 7:
		err = compile(mk(), WithNodeTriggerMode(AnyPredecessor), WithMaxRunSteps(5))
		bad = false
	}
	if bad {
		vassert(err != nil, "an invalid combination of compile options is rejected")
	} else {
		vassert(err == nil, "each of the options alone, and the valid combinations, are accepted")
	}
}

// A workflow cycle that is closed by a data-only input (a waits for b's value, b for a's completion) is a cycle in
// all-predecessor mode like any other: Compile rejects it; the same shape without the back edge, and a data-only input
// that closes no cycle, are accepted.
func VerifC20DataOnlyCycle() {
	ctx := context.Background()
	vcfg("fifo", 1)
	shape := vchoose("shape", 3)
	wf := NewWorkflow[map[string]any, map[string]any]()
	a := wf.AddLambdaNode("a", vNode("a", nil))
	a.AddInput(START, ToField("s"))
	wf.AddLambdaNode("b", vNode("b", nil)).AddInput("a", ToField("fromA"))
	c := wf.AddLambdaNode("c", vNode("c", nil))
	c.AddInput("b", ToField("fromB"))
	switch shape {
	case 0: // b's value flows back into a over a data-only input: a -> b -(data)-> a
		a.AddInputWithOptions("b", []*FieldMapping{ToField("fromB")}, WithNoDirectDependency())
	case 1: // a longer cycle: a -> b -> c -(data)-> a
		a.AddInputWithOptions("c", []*FieldMapping{ToField("fromC")}, WithNoDirectDependency())
	case 2: // no cycle: c additionally reads a's value over a data-only input
		c.AddInputWithOptions("a", []*FieldMapping{ToField("fromA")}, WithNoDirectDependency())
	}
	wf.End().AddInput("c", ToField("out"))
	r, err := wf.Compile(ctx)
	if shape == 2 {
		vassert(err == nil, "a data-only input that closes no cycle is accepted")
		if err == nil {
			_, rerr := r.Invoke(ctx, map[string]any{"in": 1})
			vassert(rerr == nil, "and the workflow runs")
		}
		return
	}
	vassert(err != nil, "a cycle closed by a data-only input is rejected by Compile")
}

// The same predecessor declared twice for one workflow node - first as a data-only input, then as an ordinary input
// (or the other way round), and two predecessors mapped onto the same END field through the deprecated AddEnd: each
// is a duplicate declaration that Compile rejects, on every attempt.
func VerifC20DuplicateInputs() {
	ctx := context.Background()
	vcfg("fifo", 1)
	wf := NewWorkflow[map[string]any, map[string]any]()
	wf.AddLambdaNode("a", vNode("a", nil)).AddInput(START)
	b := wf.AddLambdaNode("b", vNode("b", nil))
	kind := vchoose("kind", 4)
	switch kind {
	case 0:
		b.AddInputWithOptions("a", []*FieldMapping{ToField("x")}, WithNoDirectDependency())
		b.AddInput("a", ToField("y"))
		b.AddDependency(START)
		wf.End().AddInput("b")
	case 1:
		b.AddInput("a", ToField("y"))
		b.AddInputWithOptions("a", []*FieldMapping{ToField("x")}, WithNoDirectDependency())
		wf.End().AddInput("b")
	case 2: // two predecessors onto the same END field, both through AddEnd
		b.AddInput(START)
		wf.AddEnd("a", ToField("x"))
		wf.AddEnd("b", ToField("x"))
	case 3: // well-formed control
		b.AddInput("a", ToField("y"))
		wf.End().AddInput("b")
	}
	_, err1 := wf.Compile(ctx)
	_, err2 := wf.Compile(ctx)
	if kind == 3 {
		vassert(err1 == nil && err2 == nil, "the well-formed workflow compiles")
		return
	}
	vassert(err1 != nil, "a predecessor declared twice for one node / two mappings onto one END field are rejected by Compile")
	vassert(err2 != nil, "and on every further attempt")
}

// Further ill-formed constructions: a chain whose Compile failed on an option error is finalised - a later Append is
// reported by the next Compile instead of producing a runnable that silently lacks the appended stage; an error found
// by Workflow.Compile in the declarations (a branch to an unknown node) sticks; a nil field mapping, an empty Lambda
// value and a condition-less chain branch are rejected with an error, never a panic.
func VerifC20MoreIllFormed() {
	ctx := context.Background()
	vcfg("fifo", 1)
	switch vchoose("case", 5) {
	case 0:
		ch := NewChain[map[string]any, map[string]any]()
		ch.AppendLambda(vNode("a", nil))
		_, e1 := ch.Compile(ctx, WithNodeTriggerMode(AllPredecessor)) // an option a chain does not take
		vassert(e1 != nil, "the option error is reported")
		ch.AppendLambda(vNode("b", nil))
		r, e2 := ch.Compile(ctx)
		if e2 == nil { // or the chain is still open: then the appended stage is part of it
			x := vsymInt("x")
			in := map[string]any{"in": x}
			out, rerr := r.Invoke(ctx, in)
			want := map[string]any{"b": vsymUF("f_b", vFold(map[string]any{"a": vsymUF("f_a", vFold(in))}))}
			vassert(rerr == nil && vMapEq(out, want), "a stage appended after a failed Compile is either refused or part of the chain")
		}
	case 1:
		wf := NewWorkflow[map[string]any, map[string]any]()
		wf.AddLambdaNode("a", vNode("a", nil)).AddInput(START)
		wf.AddBranch("a", NewGraphBranch(func(ctx context.Context, in map[string]any) (string, error) { return "late", nil }, map[string]bool{"late": true, END: true}))
		wf.End().AddInput("a")
		_, e1 := wf.Compile(ctx)
		vassert(e1 != nil, "a branch to an unknown node is rejected by Compile")
		wf.AddLambdaNode("late", vNode("late", nil)).AddInputWithOptions("a", nil, WithNoDirectDependency())
		_, e2 := wf.Compile(ctx)
		vassert(e2 != nil, "the first error sticks: repairing the declarations afterwards does not make the workflow compile")
	case 2:
		wf := NewWorkflow[map[string]any, map[string]any]()
		wf.AddLambdaNode("a", vNode("a", nil)).AddInput(START, nil)
		wf.End().AddInput("a")
		_, err := wf.Compile(ctx)
		vassert(err != nil, "a nil field mapping is rejected")
	case 3:
		err := NewGraph[map[string]any, map[string]any]().AddLambdaNode("k", &Lambda{})
		vassert(err != nil, "a Lambda value without an executor is rejected")
	case 4:
		cb := &ChainBranch{}
		cb.AddLambda("x", vNode("x", nil))
		cb.AddLambda("y", vNode("y", nil))
		_, err := NewChain[map[string]any, map[string]any]().AppendLambda(vNode("a", nil)).AppendBranch(cb).Compile(ctx)
		vassert(err != nil, "a chain branch without a condition is rejected")
	}
}
