package compose

import (
	"context"
	"fmt"
	"io"
	"strings"

	"github.com/cloudwego/eino/components/tool"
	"github.com/cloudwego/eino/schema"
)

// C05 / C06: interrupt + resume is equivalent to the uninterrupted run; interrupt points are honoured and reported.

type vStore struct {
	m    map[string][]byte
	sets int
	gets int
}

func (s *vStore) Get(ctx context.Context, id string) ([]byte, bool, error) {
	s.gets++
	b, ok := s.m[id]
	if !ok {
		return nil, false, nil
	}
	c := make([]byte, len(b))
	copy(c, b)
	return c, true, nil
}
func (s *vStore) Set(ctx context.Context, id string, b []byte) error {
	s.sets++
	c := make([]byte, len(b))
	copy(c, b)
	s.m[id] = c
	return nil
}

var c05Mode = 5

func a5(c bool, msg string) {
	if c05Mode == 5 {
		vassert(c, msg)
	}
}
func a6(c bool, msg string) {
	if c05Mode == 6 {
		vassert(c, msg)
	}
}

// monitors for C06
type c06Mon struct {
	g          *vG
	before     map[string]bool
	after      map[string]bool
	allowed    map[string]int  // interrupts reported for a before-node and not yet consumed by an execution
	pendingAft map[string]bool // after-node completed, interrupt not yet returned
	bad        string
}

func (m *c06Mon) succOf(n string) []string {
	var r []string
	for _, e := range m.g.edges {
		if e[0] == n {
			r = append(r, e[1])
		}
	}
	for _, b := range m.g.branches {
		if b.from == n {
			r = append(r, b.targets...)
		}
	}
	return r
}

func (m *c06Mon) onStart(n string) {
	if m.before[n] {
		if m.allowed[n] <= 0 && m.bad == "" {
			m.bad = "interrupt-before node " + n + " began executing without a preceding interrupt that reported it"
		}
		m.allowed[n]--
	}
	for p := range m.pendingAft {
		for _, s := range m.succOf(p) {
			if s == n && m.bad == "" {
				m.bad = "successor " + n + " of interrupt-after node " + p + " started before the run stopped"
			}
		}
	}
}

func (m *c06Mon) onEnd(n string) {
	if m.after[n] {
		m.pendingAft[n] = true
	}
}

func c05Node(key string, log *vLog, mon *c06Mon) *Lambda {
	return InvokableLambda(func(ctx context.Context, in map[string]any) (map[string]any, error) {
		if mon != nil {
			vMu.Lock()
			mon.onStart(key)
			vMu.Unlock()
		}
		x := vFold(in)
		log.add(key, x)
		out := map[string]any{key: vsymUF("f_"+key, x)}
		if mon != nil {
			vMu.Lock()
			mon.onEnd(key)
			vMu.Unlock()
		}
		return out, nil
	})
}

func (g *vG) buildMon(log *vLog, d *vDecider, mon *c06Mon) *Graph[map[string]any, map[string]any] {
	gr := NewGraph[map[string]any, map[string]any]()
	for _, n := range g.nodes {
		_ = gr.AddLambdaNode(n, c05Node(n, log, mon))
	}
	for _, e := range g.edges {
		_ = gr.AddEdge(e[0], e[1])
	}
	for bi, b := range g.branches {
		bi, b := bi, b
		ends := map[string]bool{}
		for _, t := range b.targets {
			ends[t] = true
		}
		_ = gr.AddBranch(b.from, NewGraphBranch(func(ctx context.Context, in map[string]any) (string, error) {
			k := d.cntR[bi]
			d.cntR[bi]++
			return b.targets[d.get(bi, k)], nil
		}, ends))
	}
	return gr
}

func c05Contains(l []string, s string) bool {
	for _, x := range l {
		if x == s {
			return true
		}
	}
	return false
}

// c05Check: interrupt sets are Booleans per node; resume until the run completes (<= maxCalls); compare with an
// identically built graph run without interrupts.
func c05Check(g *vG, dag bool, maxSteps int, maxCalls int, candidates []string) {
	c05CheckL(g, dag, maxSteps, maxCalls, candidates, 0)
}

func c05CheckL(g *vG, dag bool, maxSteps int, maxCalls int, candidates []string, loopLimit int) {
	ctx := context.Background()
	vcfg("fifo", 1)
	var before, after []string
	mon := &c06Mon{g: g, before: map[string]bool{}, after: map[string]bool{}, allowed: map[string]int{}, pendingAft: map[string]bool{}}
	desc := ""
	for _, n := range candidates {
		switch vchoose("int_"+n, 3) {
		case 1:
			before = append(before, n)
			mon.before[n] = true
			desc += "before:" + n + " "
		case 2:
			after = append(after, n)
			mon.after[n] = true
			desc += "after:" + n + " "
		}
	}
	d := &vDecider{g: g, limit: loopLimit, taken: map[int][]int{}, cntR: map[int]int{}, cntM: map[int]int{}}
	logI, logU := &vLog{}, &vLog{}
	store := &vStore{m: map[string][]byte{}}
	opts := []GraphCompileOption{WithCheckPointStore(store), WithInterruptBeforeNodes(before), WithInterruptAfterNodes(after)}
	if dag {
		opts = append(opts, WithNodeTriggerMode(AllPredecessor))
	} else if maxSteps > 0 {
		opts = append(opts, WithMaxRunSteps(maxSteps))
	}
	ri, err := g.buildMon(logI, d, mon).Compile(ctx, opts...)
	vassume(err == nil)
	// uninterrupted twin (same decisions: the k-th evaluation of a branch gives the same outcome)
	d2 := &vDecider{g: g, limit: loopLimit, taken: d.taken, cntR: map[int]int{}, cntM: map[int]int{}}
	var opts2 []GraphCompileOption
	if dag {
		opts2 = append(opts2, WithNodeTriggerMode(AllPredecessor))
	} else if maxSteps > 0 {
		opts2 = append(opts2, WithMaxRunSteps(maxSteps*maxCalls))
	}
	ru, err := g.buildMon(logU, d2, nil).Compile(ctx, opts2...)
	vassume(err == nil)
	in := map[string]any{"in": vsymInt("x")}
	wantOut, wantErr := ru.Invoke(ctx, in)
	vassume(wantErr == nil)

	var out map[string]any
	finished := false
	interrupts := 0
	for call := 0; call < maxCalls && !finished; call++ {
		setsBefore := store.sets
		var rerr error
		if vchoose("paradigm", 2) == 1 {
			sr, e := ri.Stream(ctx, in, WithCheckPointID("cp"))
			if e != nil {
				rerr = e
			} else {
				out, rerr = vDrainMap(sr)
			}
		} else {
			out, rerr = ri.Invoke(ctx, in, WithCheckPointID("cp"))
		}
		if rerr == nil {
			finished = true
			a6(store.sets == setsBefore, "no checkpoint is written when the call returns without an interrupt ("+desc+")")
			break
		}
		info, ok := ExtractInterruptInfo(rerr)
		a6(ok, "a run of interrupt-configured nodes fails only with an interrupt error from which the info can be extracted ("+desc+")")
		interrupts++
		a6(store.sets == setsBefore+1, "a checkpoint is written under the id exactly when an interrupt error is returned ("+desc+")")
		a6(len(info.BeforeNodes)+len(info.AfterNodes)+len(info.RerunNodes)+len(info.SubGraphs) > 0, "the interrupt names at least one node ("+desc+")")
		for _, n := range info.BeforeNodes {
			a6(mon.before[n], "reported before-node "+n+" is configured as interrupt-before")
			mon.allowed[n]++
		}
		for _, n := range info.AfterNodes {
			a6(mon.after[n], "reported after-node "+n+" is configured as interrupt-after")
			a6(mon.pendingAft[n], "reported after-node "+n+" has just completed")
			delete(mon.pendingAft, n)
		}
		a6(len(mon.pendingAft) == 0, "every interrupt-after node that completed is reported by the interrupt ("+desc+")")
	}
	a6(mon.bad == "", ""+mon.bad+" ("+desc+")")
	a5(finished, "the run completes after resuming at most "+fmt.Sprintf("%d", maxCalls)+" times ("+desc+")")
	a5(vMapEq(out, wantOut), "interrupted and resumed run returns the output of the uninterrupted run ("+desc+")")
	for _, n := range g.nodes {
		a, b := logI.of(n), logU.of(n)
		a5(len(a) == len(b), "node "+n+" is executed as often as in the uninterrupted run: nothing re-executed or lost ("+desc+")")
		for i := range a {
			a5(a[i] == b[i], "node "+n+" sees the same input as in the uninterrupted run ("+desc+")")
		}
	}
	if len(before)+len(after) > 0 {
		vreach("interrupted")
	}
}

func c05Chain() *vG {
	return &vG{nodes: []string{"a", "b", "c"}, edges: [][2]string{{START, "a"}, {"a", "b"}, {"b", "c"}, {"c", END}}}
}
func c05Fan() *vG {
	return &vG{nodes: []string{"a", "b", "c"}, edges: [][2]string{{START, "a"}, {START, "b"}, {"a", "c"}, {"b", "c"}, {"c", END}}}
}
func c05Branch() *vG {
	return &vG{nodes: []string{"a", "b", "c", "d"}, edges: [][2]string{{START, "a"}, {"b", "d"}, {"c", "d"}, {"d", END}},
		branches: []vBranch{{"a", []string{"b", "c"}}}}
}
func c05Cycle() *vG {
	return &vG{nodes: []string{"a", "b"}, edges: [][2]string{{START, "a"}, {"a", "b"}}, branches: []vBranch{{"b", []string{"a", END}}}}
}

func VerifC05ChainPregel()  { c05Check(c05Chain(), false, 0, 5, []string{"a", "b", "c"}) }
func VerifC05ChainDAG()     { c05Check(c05Chain(), true, 0, 5, []string{"a", "b", "c"}) }
func VerifC05FanPregel()    { c05Check(c05Fan(), false, 0, 5, []string{"a", "b", "c"}) }
func VerifC05FanDAG()       { c05Check(c05Fan(), true, 0, 5, []string{"a", "b", "c"}) }
func VerifC05BranchPregel() { c05Check(c05Branch(), false, 0, 5, []string{"a", "b", "d"}) }
func VerifC05BranchDAG()    { c05Check(c05Branch(), true, 0, 5, []string{"a", "b", "d"}) }
func VerifC05Cycle()        { c05CheckL(c05Cycle(), false, 8, 8, []string{"a", "b"}, 2) }

func VerifC06ChainPregel()  { c05Mode = 6; c05Check(c05Chain(), false, 0, 5, []string{"a", "b", "c"}) }
func VerifC06ChainDAG()     { c05Mode = 6; c05Check(c05Chain(), true, 0, 5, []string{"a", "b", "c"}) }
func VerifC06FanPregel()    { c05Mode = 6; c05Check(c05Fan(), false, 0, 5, []string{"a", "b", "c"}) }
func VerifC06FanDAG()       { c05Mode = 6; c05Check(c05Fan(), true, 0, 5, []string{"a", "b", "c"}) }
func VerifC06BranchPregel() { c05Mode = 6; c05Check(c05Branch(), false, 0, 5, []string{"a", "b", "d"}) }
func VerifC06BranchDAG()    { c05Mode = 6; c05Check(c05Branch(), true, 0, 5, []string{"a", "b", "d"}) }
func VerifC06Cycle()        { c05Mode = 6; c05CheckL(c05Cycle(), false, 8, 8, []string{"a", "b"}, 2) }

// ---- Workflow (eager execution): two parallel lanes START->a->c, START->b->d, END <- c, d
func c05Workflow() { c05WorkflowShape(0) }

// shape 0: lanes START->a->c, START->b->d, END<-c,d ; shape 1: join START->a, START->b, c<-a,b, END<-c
func c05WorkflowShape(shape int) {
	ctx := context.Background()
	vcfg("fifo", 1)
	nodes := []string{"a", "b", "c", "d"}
	succ := map[string]string{"a": "c", "b": "d"}
	var before, after []string
	g := &vG{nodes: nodes, edges: [][2]string{{START, "a"}, {START, "b"}, {"a", "c"}, {"b", "d"}, {"c", END}, {"d", END}}}
	if shape == 1 {
		nodes = []string{"a", "b", "c"}
		g = &vG{nodes: nodes, edges: [][2]string{{START, "a"}, {START, "b"}, {"a", "c"}, {"b", "c"}, {"c", END}}}
	}
	if shape == 2 { // the join c gets a's field early and z's field late: at an interrupt its channel is half filled
		nodes = []string{"a", "b", "z", "c"}
		g = &vG{nodes: nodes, edges: [][2]string{{START, "a"}, {START, "b"}, {"b", "z"}, {"a", "c"}, {"z", "c"}, {"c", END}}}
	}
	mon := &c06Mon{g: g, before: map[string]bool{}, after: map[string]bool{}, allowed: map[string]int{}, pendingAft: map[string]bool{}}
	desc := ""
	for _, n := range nodes {
		switch vchoose("int_"+n, 3) {
		case 1:
			before = append(before, n)
			mon.before[n] = true
			desc += "before:" + n + " "
		case 2:
			after = append(after, n)
			mon.after[n] = true
			desc += "after:" + n + " "
		}
	}
	_ = succ
	build := func(log *vLog, m *c06Mon) *Workflow[map[string]any, map[string]any] {
		wf := NewWorkflow[map[string]any, map[string]any]()
		mk := func(k string) *Lambda {
			return InvokableLambda(func(ctx context.Context, in map[string]any) (map[string]any, error) {
				if m != nil {
					vMu.Lock()
					m.onStart(k)
					vMu.Unlock()
				}
				x := vFoldDeep(in)
				log.add(k, x)
				if m != nil {
					vMu.Lock()
					m.onEnd(k)
					vMu.Unlock()
				}
				return map[string]any{k: vsymUF("f_"+k, x)}, nil
			})
		}
		wf.AddLambdaNode("a", mk("a")).AddInput(START)
		wf.AddLambdaNode("b", mk("b")).AddInput(START)
		if shape == 1 {
			wf.AddLambdaNode("c", mk("c")).AddInput("a", ToField("a")).AddInput("b", ToField("b"))
			wf.End().AddInput("c")
			return wf
		}
		if shape == 2 {
			wf.AddLambdaNode("z", mk("z")).AddInput("b")
			wf.AddLambdaNode("c", mk("c")).AddInput("a", ToField("a")).AddInput("z", ToField("z"))
			wf.End().AddInput("c")
			return wf
		}
		wf.AddLambdaNode("c", mk("c")).AddInput("a")
		wf.AddLambdaNode("d", mk("d")).AddInput("b")
		wf.End().AddInput("c", ToField("c")).AddInput("d", ToField("d"))
		return wf
	}
	logI, logU := &vLog{}, &vLog{}
	store := &vStore{m: map[string][]byte{}}
	ri, err := build(logI, mon).Compile(ctx, WithCheckPointStore(store), WithInterruptBeforeNodes(before), WithInterruptAfterNodes(after))
	vassume(err == nil)
	ru, err := build(logU, nil).Compile(ctx)
	vassume(err == nil)
	in := map[string]any{"in": vsymInt("x")}
	wantOut, wantErr := ru.Invoke(ctx, in)
	vassume(wantErr == nil)
	var out map[string]any
	finished := false
	for call := 0; call < 6 && !finished; call++ {
		setsBefore := store.sets
		var rerr error
		if vchoose("paradigm", 2) == 1 {
			sr, e := ri.Stream(ctx, in, WithCheckPointID("cp"))
			rerr = e
			if e == nil {
				out, rerr = vDrainMap(sr)
			}
		} else {
			out, rerr = ri.Invoke(ctx, in, WithCheckPointID("cp"))
		}
		if rerr == nil {
			finished = true
			a6(store.sets == setsBefore, "no checkpoint is written when the call returns without an interrupt ("+desc+")")
			break
		}
		info, ok := ExtractInterruptInfo(rerr)
		a6(ok, "workflow: a run of interrupt-configured nodes fails only with an interrupt error ("+desc+")")
		vassert(ok, "workflow: the resumed run does not fail with a non-interrupt error ("+desc+")")
		if !ok {
			return
		}
		a6(store.sets == setsBefore+1, "workflow: a checkpoint is written exactly when an interrupt error is returned ("+desc+")")
		for _, n := range info.BeforeNodes {
			a6(mon.before[n], "workflow: reported before-node "+n+" is configured as interrupt-before")
			mon.allowed[n]++
		}
		for _, n := range info.AfterNodes {
			a6(mon.after[n] && mon.pendingAft[n], "workflow: reported after-node "+n+" is configured and has just completed")
			delete(mon.pendingAft, n)
		}
		a6(len(mon.pendingAft) == 0, "workflow: every interrupt-after node that completed is reported by the interrupt ("+desc+")")
	}
	a6(mon.bad == "", "workflow: "+mon.bad+" ("+desc+")")
	a5(finished, "workflow: the run completes after resuming ("+desc+")")
	a5(c02DeepEq(out, wantOut), "workflow: interrupted and resumed run returns the output of the uninterrupted run ("+desc+")")
	for _, n := range nodes {
		a, b := logI.of(n), logU.of(n)
		a5(len(a) == len(b), "workflow: node "+n+" is executed as often as in the uninterrupted run ("+desc+")")
		for i := range a {
			a5(a[i] == b[i], "workflow: node "+n+" sees the same input as in the uninterrupted run ("+desc+")")
		}
	}
}

func VerifC05Workflow() { c05Workflow() }
func VerifC06Workflow() { c05Mode = 6; c05Workflow() }

func VerifC05WorkflowJoin() { c05WorkflowShape(1) }
func VerifC06WorkflowJoin() { c05Mode = 6; c05WorkflowShape(1) }

func VerifC05WorkflowLateJoin() { c05WorkflowShape(2) }
func VerifC06WorkflowLateJoin() { c05Mode = 6; c05WorkflowShape(2) }

// ---- nested graph with its own interrupt points, inside a cycle of the outer graph:
//
//	outer: START -> pre -> sub -> (branch: pre | END) ; inner: START -> p -> x -> END
type c05NS struct{ Visits int }

type c05CompileCB struct{ n int }

func (c *c05CompileCB) OnFinish(ctx context.Context, info *GraphInfo) { c.n++ }

func c05NestedLoop() {
	ctx := context.Background()
	vcfg("fifo", 1)
	_ = RegisterSerializableType[c05NS]("c05_ns")
	levels := 2 + vchoose("levels", 2) // 3: the looping graph is itself a node of a top-level graph
	innerInt := vchoose("inner", 3)    // 0 none, 1 before x, 2 after p
	outerInt := vchoose("outer", 4)    // 0 none, 1 before sub, 2 after sub, 3 after pre
	desc := []string{"", "inner-before:x ", "inner-after:p "}[innerInt] + []string{"", "before:sub", "after:sub", "after:pre"}[outerInt]
	loops := vrange("loops", 0, 2)                // how often the branch goes back to pre
	withCompileCB := vchoose("compileCB", 2) == 1 // the enclosing graphs are compiled with a compile callback
	visitsSeen := map[bool]int{}
	build := func(log *vLog, interrupts bool, store CheckPointStore) (Runnable[map[string]any, map[string]any], error) {
		evals := 0
		inner := NewGraph[map[string]any, map[string]any]()
		_ = inner.AddLambdaNode("p", c05Node("p", log, nil))
		_ = inner.AddLambdaNode("x", c05Node("x", log, nil))
		_ = inner.AddEdge(START, "p")
		_ = inner.AddEdge("p", "x")
		_ = inner.AddEdge("x", END)
		outer := NewGraph[map[string]any, map[string]any](WithGenLocalState(func(ctx context.Context) *c05NS { return &c05NS{} }))
		_ = outer.AddLambdaNode("pre", c05Node("pre", log, nil))
		var iopts []GraphCompileOption
		if interrupts && innerInt == 1 {
			iopts = append(iopts, WithInterruptBeforeNodes([]string{"x"}))
		}
		if interrupts && innerInt == 2 {
			iopts = append(iopts, WithInterruptAfterNodes([]string{"p"}))
		}
		_ = outer.AddGraphNode("sub", inner, WithGraphCompileOptions(iopts...),
			WithStatePreHandler(func(ctx context.Context, in map[string]any, s *c05NS) (map[string]any, error) {
				s.Visits++ // once per execution of the nested graph node, also across interrupt and resume
				return in, nil
			}))
		_ = outer.AddEdge(START, "pre")
		_ = outer.AddEdge("pre", "sub")
		_ = outer.AddBranch("sub", NewGraphBranch(func(ctx context.Context, in map[string]any) (string, error) {
			_ = ProcessState(ctx, func(ctx context.Context, s *c05NS) error { visitsSeen[interrupts] = s.Visits; return nil })
			evals++
			if evals <= loops {
				return "pre", nil
			}
			return END, nil
		}, map[string]bool{"pre": true, END: true}))
		opts := []GraphCompileOption{WithMaxRunSteps(20)}
		if withCompileCB {
			opts = append(opts, WithGraphCompileCallbacks(&c05CompileCB{}))
		}
		if interrupts && levels == 2 {
			opts = append(opts, WithCheckPointStore(store))
		}
		if interrupts {
			switch outerInt {
			case 1:
				opts = append(opts, WithInterruptBeforeNodes([]string{"sub"}))
			case 2:
				opts = append(opts, WithInterruptAfterNodes([]string{"sub"}))
			case 3:
				opts = append(opts, WithInterruptAfterNodes([]string{"pre"}))
			}
		}
		if levels == 3 {
			top := NewGraph[map[string]any, map[string]any]()
			_ = top.AddGraphNode("mid", outer, WithGraphCompileOptions(opts...))
			_ = top.AddEdge(START, "mid")
			_ = top.AddEdge("mid", END)
			var topts []GraphCompileOption
			if withCompileCB {
				topts = append(topts, WithGraphCompileCallbacks(&c05CompileCB{}))
			}
			if interrupts {
				topts = append(topts, WithCheckPointStore(store))
			}
			return top.Compile(ctx, topts...)
		}
		return outer.Compile(ctx, opts...)
	}
	logI, logU := &vLog{}, &vLog{}
	store := &vStore{m: map[string][]byte{}}
	ri, err := build(logI, true, store)
	vassert(err == nil, "graph with nested interrupt points compiles")
	ru, err := build(logU, false, nil)
	vassert(err == nil, "twin compiles")
	in := map[string]any{"in": vsymInt("x")}
	wantOut, wantErr := ru.Invoke(ctx, in)
	vassert(wantErr == nil, "uninterrupted run succeeds")
	var out map[string]any
	finished := false
	reportedX := 0
	for call := 0; call < 12 && !finished; call++ {
		setsBefore := store.sets
		var rerr error
		out, rerr = ri.Invoke(ctx, in, WithCheckPointID("cp"))
		if rerr == nil {
			finished = true
			break
		}
		info, ok := ExtractInterruptInfo(rerr)
		vassert(ok, "nested: the resumed run does not fail with a non-interrupt error ("+desc+")")
		a6(ok, "nested: a run with nested interrupt points fails only with an interrupt error ("+desc+")")
		if !ok {
			return
		}
		a6(store.sets == setsBefore+1, "nested: a checkpoint is written by the top-level run exactly when an interrupt error is returned ("+desc+")")
		if levels == 3 && info.SubGraphs["mid"] != nil {
			info = info.SubGraphs["mid"]
		}
		if len(info.SubGraphs) > 0 {
			si := info.SubGraphs["sub"]
			a6(si != nil && (len(si.BeforeNodes)+len(si.AfterNodes) > 0), "nested: the interrupt carries the nested graph's interrupt info ("+desc+")")
			if si != nil && innerInt == 1 {
				a6(c05Contains(si.BeforeNodes, "x"), "nested: inner interrupt-before node is reported in the nested info")
				if c05Contains(si.BeforeNodes, "x") {
					reportedX++
				}
			}
			if si != nil && innerInt == 2 {
				a6(c05Contains(si.AfterNodes, "p"), "nested: inner interrupt-after node is reported in the nested info")
			}
		}
	}
	a5(finished, "nested: the run completes after resuming ("+desc+")")
	if innerInt == 1 {
		a6(len(logI.of("x")) <= reportedX, "nested: every execution of the inner interrupt-before node was preceded by an interrupt that reported it, also in later rounds of the enclosing loop ("+desc+")")
	}
	a5(vMapEq(out, wantOut), "nested: interrupted and resumed run returns the output of the uninterrupted run ("+desc+")")
	a5(visitsSeen[true] == visitsSeen[false], "nested: the pre-handler of the nested graph node ran as often as in the uninterrupted run; state carried unchanged across interrupt and resume ("+desc+")")
	for _, n := range []string{"pre", "p", "x"} {
		a, b := logI.of(n), logU.of(n)
		a5(len(a) == len(b), "nested: node "+n+" is executed as often as in the uninterrupted run; a later execution of the nested graph starts fresh ("+desc+")")
		for i := range a {
			if i < len(b) {
				a5(a[i] == b[i], "nested: node "+n+" sees the same input as in the uninterrupted run ("+desc+")")
			}
		}
	}
}

func VerifC05NestedLoop() { c05NestedLoop() }
func VerifC06NestedLoop() { c05Mode = 6; c05NestedLoop() }

// ---- two nested graphs running in parallel inside a Workflow, each with an interrupt-after point
func c05ParallelNested() {
	ctx := context.Background()
	vcfg("fifo", 1)
	i1 := vchoose("s1", 2) == 1
	i2 := vchoose("s2", 2) == 1
	build := func(log *vLog, interrupts bool, store CheckPointStore) (Runnable[map[string]any, map[string]any], error) {
		mkInner := func(tag string, intr bool) (AnyGraph, []GraphAddNodeOpt) {
			inner := NewGraph[map[string]any, map[string]any]()
			_ = inner.AddLambdaNode("a", c05Node(tag+"a", log, nil))
			_ = inner.AddLambdaNode("b", c05Node(tag+"b", log, nil))
			_ = inner.AddEdge(START, "a")
			_ = inner.AddEdge("a", "b")
			_ = inner.AddEdge("b", END)
			var o []GraphAddNodeOpt
			if interrupts && intr {
				o = append(o, WithGraphCompileOptions(WithInterruptAfterNodes([]string{"a"})))
			}
			return inner, o
		}
		wf := NewWorkflow[map[string]any, map[string]any]()
		g1, o1 := mkInner("1", i1)
		g2, o2 := mkInner("2", i2)
		wf.AddGraphNode("S1", g1, o1...).AddInput(START)
		wf.AddGraphNode("S2", g2, o2...).AddInput(START)
		wf.AddLambdaNode("c", InvokableLambda(func(ctx context.Context, in map[string]any) (map[string]any, error) {
			x := vFoldDeep(in)
			log.add("c", x)
			return map[string]any{"c": vsymUF("f_c", x)}, nil
		})).AddInput("S1", ToField("s1")).AddInput("S2", ToField("s2"))
		wf.End().AddInput("c")
		var opts []GraphCompileOption
		if interrupts {
			opts = append(opts, WithCheckPointStore(store))
		}
		return wf.Compile(ctx, opts...)
	}
	logI, logU := &vLog{}, &vLog{}
	store := &vStore{m: map[string][]byte{}}
	ri, err := build(logI, true, store)
	vassert(err == nil, "workflow with nested graphs compiles")
	ru, err := build(logU, false, nil)
	vassert(err == nil, "twin compiles")
	in := map[string]any{"in": vsymInt("x")}
	wantOut, wantErr := ru.Invoke(ctx, in)
	vassert(wantErr == nil, "uninterrupted run succeeds")
	var out map[string]any
	finished := false
	reported := map[string]bool{}
	for call := 0; call < 6 && !finished; call++ {
		var rerr error
		out, rerr = ri.Invoke(ctx, in, WithCheckPointID("cp"))
		if rerr == nil {
			finished = true
			break
		}
		info, ok := ExtractInterruptInfo(rerr)
		vassert(ok, "parallel nested: the resumed run does not fail with a non-interrupt error")
		a6(ok, "parallel nested: only interrupt errors")
		if !ok {
			return
		}
		for k, si := range info.SubGraphs {
			a6(si != nil && c05Contains(si.AfterNodes, "a"), "parallel nested: nested info of "+k+" names its interrupt-after node")
			reported[k] = true
		}
	}
	a6(reported["S1"] == i1 && reported["S2"] == i2, "parallel nested: every nested graph that interrupted is reported in SubGraphs")
	a5(finished, "parallel nested: the run completes after resuming")
	a5(c02DeepEq(out, wantOut), "parallel nested: same output as the uninterrupted run")
	for _, n := range []string{"1a", "1b", "2a", "2b", "c"} {
		a, b := logI.of(n), logU.of(n)
		a5(len(a) == len(b), "parallel nested: node "+n+" is executed as often as in the uninterrupted run")
		for i := range a {
			if i < len(b) {
				a5(a[i] == b[i], "parallel nested: node "+n+" sees the same input as in the uninterrupted run")
			}
		}
	}
}

func VerifC05ParallelNested() { c05ParallelNested() }
func VerifC06ParallelNested() { c05Mode = 6; c05ParallelNested() }

// ---- a node that asks to be interrupted and re-run (once), with a state pre-handler that rebuilds its input
type c05RS struct{ Items []string }

func c05Rerun() {
	ctx := context.Background()
	vcfg("fifo", 1)
	_ = RegisterSerializableType[c05RS]("c05_rs")
	wrapped := vchoose("wrapped", 2) == 1
	first := vchoose("firstParadigm", 2)
	second := vchoose("secondParadigm", 2)
	build := func(interrupting bool, store CheckPointStore, attempts *int, runsA *int) (Runnable[string, string], error) {
		g := NewGraph[string, string](WithGenLocalState(func(ctx context.Context) *c05RS { return &c05RS{} }))
		_ = g.AddLambdaNode("a", InvokableLambda(func(ctx context.Context, in string) (string, error) {
			*runsA++
			return in + "-prepared", nil
		}))
		_ = g.AddLambdaNode("r", InvokableLambda(func(ctx context.Context, in string) (string, error) {
			*attempts++
			if interrupting && *attempts == 1 {
				if wrapped {
					return "", fmt.Errorf("tool asks for a rerun: %w", InterruptAndRerun)
				}
				return "", InterruptAndRerun
			}
			return "[" + in + "]-done", nil
		}), WithStatePreHandler(func(ctx context.Context, in string, s *c05RS) (string, error) {
			if in != "" {
				s.Items = append(s.Items, in)
			}
			return strings.Join(s.Items, "|"), nil
		}))
		_ = g.AddEdge(START, "a")
		_ = g.AddEdge("a", "r")
		_ = g.AddEdge("r", END)
		var opts []GraphCompileOption
		if store != nil {
			opts = append(opts, WithCheckPointStore(store))
		}
		return g.Compile(ctx, opts...)
	}
	call := func(r Runnable[string, string], paradigm int, opts ...Option) (string, error) {
		if paradigm == 0 {
			return r.Invoke(ctx, "q", opts...)
		}
		sr, err := r.Stream(ctx, "q", opts...)
		if err != nil {
			return "", err
		}
		defer sr.Close()
		out := ""
		for i := 0; i < 8; i++ {
			c, err := sr.Recv()
			if err == io.EOF {
				break
			}
			if err != nil {
				return "", err
			}
			out += c
		}
		return out, nil
	}
	var at0, ra0 int
	ru, err := build(false, nil, &at0, &ra0)
	vassert(err == nil, "twin compiles")
	want, werr := ru.Invoke(ctx, "q")
	vassert(werr == nil, "uninterrupted run succeeds")
	store := &vStore{m: map[string][]byte{}}
	var at, ra int
	ri, err := build(true, store, &at, &ra)
	vassert(err == nil, "graph with a rerun node compiles")
	_, e1 := call(ri, first, WithCheckPointID("cp"))
	info, ok := ExtractInterruptInfo(e1)
	a6(ok, "rerun: a node asking for interrupt-and-rerun (also through a wrapping error) yields an interrupt error with extractable info")
	vassert(ok, "rerun: the first call is interrupted")
	if !ok {
		return
	}
	a6(len(info.RerunNodes) == 1 && info.RerunNodes[0] == "r", "rerun: the interrupt names the node that asked for it in RerunNodes")
	a6(store.sets == 1, "rerun: a checkpoint is written under the id when the rerun interrupt is returned")
	st, _ := info.State.(*c05RS)
	a6(st != nil && len(st.Items) == 1, "rerun: the interrupt info carries the state")
	out, e2 := call(ri, second, WithCheckPointID("cp"))
	a5(e2 == nil, "rerun: the resumed run completes")
	a5(out == want, "rerun: the re-run node receives the input its pre-handler rebuilds from state, so the output equals the uninterrupted run")
	a5(ra == 1, "rerun: nodes completed before the interrupt are not executed again")
	a5(at == 2, "rerun: the node that asked for the interrupt runs once more after resume")
}

func VerifC05Rerun() { c05Rerun() }
func VerifC06Rerun() { c05Mode = 6; c05Rerun() }

// A chain whose nodes change the value type, with pass-through nodes in between:
//
//	START -> len(string->int) -> p(pass) -> dbl(int->int) -> q(pass) -> str(int->string) -> END
//
// one or two interrupt points (before/after any node), every call in its own paradigm (Invoke/Stream): the pending
// input of every node kind (typed, pass-through) survives the checkpoint in both the value and the stream form.
func c05TypedChain() {
	ctx := context.Background()
	vcfg("fifo", 1)
	vcfg("selectfirst", 1)
	names := []string{"len", "p", "dbl", "q", "str"}
	counts := map[string]int{}
	x := vsymStr("x")
	g := NewGraph[string, string]()
	_ = g.AddLambdaNode("len", InvokableLambda(func(ctx context.Context, in string) (int, error) {
		counts["len"]++
		a5(in == x, "typed chain: node len runs on the original input")
		return len(in), nil
	}))
	_ = g.AddPassthroughNode("p")
	_ = g.AddLambdaNode("dbl", InvokableLambda(func(ctx context.Context, in int) (int, error) {
		counts["dbl"]++
		a5(in == len(x), "typed chain: node dbl runs on the value len produced")
		return in*2 + 1, nil
	}))
	_ = g.AddPassthroughNode("q")
	_ = g.AddLambdaNode("str", InvokableLambda(func(ctx context.Context, in int) (string, error) {
		counts["str"]++
		a5(in == len(x)*2+1, "typed chain: node str runs on the value dbl produced")
		if in > 5 {
			return "long", nil
		}
		return "short", nil
	}))
	prev := START
	for _, n := range names {
		_ = g.AddEdge(prev, n)
		prev = n
	}
	_ = g.AddEdge(prev, END)
	var before, after []string
	nInt := 1 + vchoose("points", 2)
	used := map[string]bool{}
	desc := ""
	stops := map[int]bool{} // distinct places between two nodes at which the run has to stop
	for i := 0; i < nInt; i++ {
		k := vchoose("node", len(names))
		n := names[k]
		if used[n] {
			return
		}
		used[n] = true
		if vchoose("when", 2) == 0 {
			before = append(before, n)
			desc += "before:" + n + " "
			stops[k] = true
		} else {
			after = append(after, n)
			desc += "after:" + n + " "
			if k+1 < len(names) { // the run finishes with the last node: nothing left to stop before
				stops[k+1] = true
			}
		}
	}
	store := &vStore{m: map[string][]byte{}}
	mon := &c06Mon{}
	_ = mon
	r, err := g.Compile(ctx, WithCheckPointStore(store), WithInterruptBeforeNodes(before), WithInterruptAfterNodes(after))
	vassert(err == nil, "typed chain compiles")
	want := "short"
	if len(x)*2+1 > 5 {
		want = "long"
	}
	var out string
	var rerr error
	interrupts := 0
	for call := 0; call < 4; call++ {
		if vchoose("paradigm", 2) == 1 {
			desc += "S "
			sr, e := r.Stream(ctx, x, WithCheckPointID("t"))
			rerr = e
			if e == nil {
				out = ""
				for i := 0; i < 4; i++ {
					c, e := sr.Recv()
					if e == io.EOF {
						break
					}
					if e != nil {
						rerr = e
						break
					}
					out += c
				}
				sr.Close()
			}
		} else {
			desc += "I "
			out, rerr = r.Invoke(ctx, x, WithCheckPointID("t"))
		}
		if rerr == nil {
			break
		}
		info, ok := ExtractInterruptInfo(rerr)
		vassert(ok, "typed chain: the run is only ever stopped by interrupts, reported as such (not by a conversion failure) ("+desc+")")
		if !ok {
			return
		}
		a6(len(info.BeforeNodes)+len(info.AfterNodes) > 0, "typed chain: the interrupt reports its nodes ("+desc+")")
		interrupts++
	}
	a5(rerr == nil, "typed chain: the run completes after at most one resume per interrupt point ("+desc+")")
	a5(out == want, "typed chain: the resumed run returns the uninterrupted result ("+desc+")")
	a6(interrupts == len(stops), "typed chain: one interrupt per place at which a configured node asks the run to stop ("+desc+")")
	for _, n := range []string{"len", "dbl", "str"} {
		a5(counts[n] == 1, "typed chain: node "+n+" executed exactly once over all calls ("+desc+")")
	}
}

func c05TypedChainB() {
	ctx := context.Background()
	vcfg("fifo", 1)
	vcfg("selectfirst", 1)
	names := []string{"p", "len", "q", "str"}
	counts := map[string]int{}
	x := vsymStr("x")
	g := NewGraph[string, string]()
	_ = g.AddPassthroughNode("p")
	_ = g.AddLambdaNode("len", InvokableLambda(func(ctx context.Context, in string) (int, error) {
		counts["len"]++
		a5(in == x, "typed chain (backward): node len runs on the original input")
		return len(in), nil
	}))
	_ = g.AddPassthroughNode("q")
	_ = g.AddLambdaNode("str", InvokableLambda(func(ctx context.Context, in int) (string, error) {
		counts["str"]++
		a5(in == len(x), "typed chain (backward): node str runs on the value len produced")
		if in > 2 {
			return "long", nil
		}
		return "short", nil
	}))
	// edges declared from END backwards: every pass-through takes its type from the node that follows it
	_ = g.AddEdge("str", END)
	_ = g.AddEdge("q", "str")
	_ = g.AddEdge("len", "q")
	_ = g.AddEdge("p", "len")
	_ = g.AddEdge(START, "p")
	var before, after []string
	nInt := 1 + vchoose("points", 2)
	used := map[string]bool{}
	desc := ""
	stops := map[int]bool{} // distinct places between two nodes at which the run has to stop
	for i := 0; i < nInt; i++ {
		k := vchoose("node", len(names))
		n := names[k]
		if used[n] {
			return
		}
		used[n] = true
		if vchoose("when", 2) == 0 {
			before = append(before, n)
			desc += "before:" + n + " "
			stops[k] = true
		} else {
			after = append(after, n)
			desc += "after:" + n + " "
			if k+1 < len(names) { // the run finishes with the last node: nothing left to stop before
				stops[k+1] = true
			}
		}
	}
	store := &vStore{m: map[string][]byte{}}
	mon := &c06Mon{}
	_ = mon
	r, err := g.Compile(ctx, WithCheckPointStore(store), WithInterruptBeforeNodes(before), WithInterruptAfterNodes(after))
	vassert(err == nil, "typed chain (backward) compiles")
	want := "short"
	if len(x) > 2 {
		want = "long"
	}
	var out string
	var rerr error
	interrupts := 0
	for call := 0; call < 4; call++ {
		if vchoose("paradigm", 2) == 1 {
			desc += "S "
			sr, e := r.Stream(ctx, x, WithCheckPointID("t"))
			rerr = e
			if e == nil {
				out = ""
				for i := 0; i < 4; i++ {
					c, e := sr.Recv()
					if e == io.EOF {
						break
					}
					if e != nil {
						rerr = e
						break
					}
					out += c
				}
				sr.Close()
			}
		} else {
			desc += "I "
			out, rerr = r.Invoke(ctx, x, WithCheckPointID("t"))
		}
		if rerr == nil {
			break
		}
		info, ok := ExtractInterruptInfo(rerr)
		vassert(ok, "typed chain (backward): the run is only ever stopped by interrupts, reported as such (not by a conversion failure) ("+desc+")")
		if !ok {
			return
		}
		a6(len(info.BeforeNodes)+len(info.AfterNodes) > 0, "typed chain (backward): the interrupt reports its nodes ("+desc+")")
		interrupts++
	}
	a5(rerr == nil, "typed chain (backward): the run completes after at most one resume per interrupt point ("+desc+")")
	a5(out == want, "typed chain (backward): the resumed run returns the uninterrupted result ("+desc+")")
	a6(interrupts == len(stops), "typed chain (backward): one interrupt per place at which a configured node asks the run to stop ("+desc+")")
	for _, n := range []string{"len", "str"} {
		a5(counts[n] == 1, "typed chain (backward): node "+n+" executed exactly once over all calls ("+desc+")")
	}
}

func VerifC05TypedChain()  { c05TypedChain() }
func VerifC05TypedChainB() { c05TypedChainB() }
func VerifC06TypedChainB() { c05Mode = 6; c05TypedChainB() }
func VerifC06TypedChain()  { c05Mode = 6; c05TypedChain() }

// Three independent lanes START -> n_i -> m_i -> END run side by side in one graph (Pregel or DAG); the head of
// every lane is a plain node, a node that asks for interrupt-and-rerun on its first attempt, or a nested graph with an
// interrupt point. Whatever the mix, every interrupting head is reported, the plain heads that finished in the same
// step are not lost (their successors run after the resume), nothing is executed twice except the re-run nodes.
func c05Lanes(dag bool) {
	ctx := context.Background()
	vcfg("fifo", 1)
	kinds := []int{vchoose("lane", 3), vchoose("lane", 3), vchoose("lane", 3)} // 0 plain, 1 rerun, 2 nested graph
	if kinds[0] == 0 && kinds[1] == 0 && kinds[2] == 0 {
		return
	}
	heads := []string{"n0", "n1", "n2"}
	tails := []string{"m0", "m1", "m2"}
	in0 := map[string]any{"in": vsymInt("x")}
	build := func(log *vLog, interrupts bool, store CheckPointStore, attempts map[string]int) (Runnable[map[string]any, map[string]any], error) {
		g := NewGraph[map[string]any, map[string]any]()
		for i := range heads {
			h, t := heads[i], tails[i]
			switch kinds[i] {
			case 0:
				_ = g.AddLambdaNode(h, c05Node(h, log, nil))
			case 1:
				_ = g.AddLambdaNode(h, InvokableLambda(func(ctx context.Context, in map[string]any) (map[string]any, error) {
					vMu.Lock()
					attempts[h]++
					first := attempts[h] == 1
					vMu.Unlock()
					if interrupts && first {
						return nil, InterruptAndRerun
					}
					// the framework does not keep the input of a node that asked for a rerun (it is rebuilt by a state
					// pre-handler where needed, see the rerun family): this node works from the run's input directly
					x := vFoldDeep(in0)
					log.add(h, x)
					return map[string]any{h: vsymUF("f_"+h, x)}, nil
				}))
			case 2:
				inner := NewGraph[map[string]any, map[string]any]()
				_ = inner.AddLambdaNode("a", c05Node(h+"a", log, nil))
				_ = inner.AddLambdaNode("b", c05Node(h+"b", log, nil))
				_ = inner.AddEdge(START, "a")
				_ = inner.AddEdge("a", "b")
				_ = inner.AddEdge("b", END)
				var o []GraphAddNodeOpt
				if interrupts {
					o = append(o, WithGraphCompileOptions(WithInterruptBeforeNodes([]string{"b"})))
				}
				_ = g.AddGraphNode(h, inner, o...)
			}
			_ = g.AddLambdaNode(t, c05Node(t, log, nil))
			_ = g.AddEdge(START, h)
			_ = g.AddEdge(h, t)
			_ = g.AddEdge(t, END)
		}
		var opts []GraphCompileOption
		if dag {
			opts = append(opts, WithNodeTriggerMode(AllPredecessor))
		}
		if interrupts {
			opts = append(opts, WithCheckPointStore(store))
		}
		return g.Compile(ctx, opts...)
	}
	logI, logU := &vLog{}, &vLog{}
	store := &vStore{m: map[string][]byte{}}
	attempts := map[string]int{}
	ri, err := build(logI, true, store, attempts)
	vassert(err == nil, "lanes graph compiles")
	ru, err := build(logU, false, nil, map[string]int{})
	vassert(err == nil, "twin compiles")
	in := in0
	wantOut, wantErr := ru.Invoke(ctx, in)
	vassert(wantErr == nil, "uninterrupted run succeeds")
	var out map[string]any
	finished := false
	for call := 0; call < 5 && !finished; call++ {
		var rerr error
		if vchoose("paradigm", 2) == 1 {
			sr, e := ri.Stream(ctx, in, WithCheckPointID("cp"))
			rerr = e
			if e == nil {
				out, rerr = vDrainMap(sr)
			}
		} else {
			out, rerr = ri.Invoke(ctx, in, WithCheckPointID("cp"))
		}
		if rerr == nil {
			finished = true
			break
		}
		info, ok := ExtractInterruptInfo(rerr)
		vassert(ok, "lanes: the (resumed) run does not fail with a non-interrupt error")
		a6(ok, "lanes: only interrupt errors")
		if !ok {
			return
		}
		if call == 0 {
			for i, h := range heads {
				switch kinds[i] {
				case 1:
					a6(c05Contains(info.RerunNodes, h), "lanes: every node that asked for a rerun in this step is reported in RerunNodes: "+h)
				case 2:
					si := info.SubGraphs[h]
					a6(si != nil && c05Contains(si.BeforeNodes, "b"), "lanes: every nested graph that interrupted in this step is reported with its own info: "+h)
				default:
					a6(!c05Contains(info.RerunNodes, h) && info.SubGraphs[h] == nil, "lanes: a plain node is not reported")
				}
			}
			a6(store.sets == 1, "lanes: the checkpoint is written when the interrupt is returned")
			for i, h := range heads {
				if kinds[i] == 0 {
					a6(len(logI.of(h)) == 1, "lanes: every node started in the step has finished when the interrupt is returned: "+h)
				}
			}
		}
	}
	a5(finished, "lanes: the run completes after resuming")
	a5(c02DeepEq(out, wantOut), "lanes: same output as the uninterrupted run")
	var all []string
	for i, h := range heads {
		if kinds[i] == 2 {
			all = append(all, h+"a", h+"b")
		} else {
			all = append(all, h)
		}
		all = append(all, tails[i])
	}
	for _, n := range all {
		a, b := logI.of(n), logU.of(n)
		a5(len(a) == len(b), "lanes: node "+n+" completes as often as in the uninterrupted run: nothing lost, nothing re-executed")
		for i := range a {
			if i < len(b) {
				a5(a[i] == b[i], "lanes: node "+n+" sees the same input as in the uninterrupted run")
			}
		}
	}
	for i, h := range heads {
		if kinds[i] == 1 {
			a5(attempts[h] == 2, "lanes: a node that asked for the interrupt is attempted exactly once more")
		}
	}
}

func VerifC05LanesPregel() { c05Lanes(false) }
func VerifC05LanesDAG()    { c05Lanes(true) }
func VerifC06LanesPregel() { c05Mode = 6; c05Lanes(false) }
func VerifC06LanesDAG()    { c05Mode = 6; c05Lanes(true) }

// thorough tier: a six-node shape with fan-in, a two-way branch, a skip path and a late join; every node may be an
// interrupt-before or interrupt-after point (3^6 configurations), every call chooses its paradigm
func c05Big() *vG {
	return &vG{nodes: []string{"a", "b", "c", "d", "e", "f"},
		edges:    [][2]string{{START, "a"}, {START, "b"}, {"a", "c"}, {"b", "c"}, {"d", "f"}, {"e", "f"}, {"f", END}},
		branches: []vBranch{{"c", []string{"d", "e"}}}}
}

func VerifC05BigPregel() { c05Check(c05Big(), false, 0, 9, []string{"a", "b", "c", "d", "e", "f"}) }
func VerifC05BigDAG()    { c05Check(c05Big(), true, 0, 9, []string{"a", "b", "c", "d", "e", "f"}) }
func VerifC06BigPregel() {
	c05Mode = 6
	c05Check(c05Big(), false, 0, 9, []string{"a", "b", "c", "d", "e", "f"})
}
func VerifC06BigDAG() {
	c05Mode = 6
	c05Check(c05Big(), true, 0, 9, []string{"a", "b", "c", "d", "e", "f"})
}

// thorough tier: a cycle with a fan inside (a -> {b, c} -> d -> branch back to a | END), up to three rounds
func c05CycleFan() *vG {
	return &vG{nodes: []string{"a", "b", "c", "d"}, edges: [][2]string{{START, "a"}, {"a", "b"}, {"a", "c"}, {"b", "d"}, {"c", "d"}},
		branches: []vBranch{{"d", []string{"a", END}}}}
}

func VerifC05CycleFan() { c05CheckL(c05CycleFan(), false, 14, 11, []string{"a", "b", "d"}, 2) }
func VerifC06CycleFan() {
	c05Mode = 6
	c05CheckL(c05CycleFan(), false, 14, 11, []string{"a", "b", "d"}, 2)
}

// a join node fed by START directly and by another node: at an interrupt the value START sent is still waiting in the
// join's channel and has to survive the checkpoint in the paradigm of the interrupted call
func c05StartJoin() *vG {
	return &vG{nodes: []string{"a", "b", "x"}, edges: [][2]string{{START, "a"}, {START, "x"}, {"a", "b"}, {"b", "x"}, {"x", END}}}
}

func VerifC05StartJoinPregel() { c05Check(c05StartJoin(), false, 0, 6, []string{"a", "b", "x"}) }
func VerifC05StartJoinDAG()    { c05Check(c05StartJoin(), true, 0, 6, []string{"a", "b", "x"}) }
func VerifC06StartJoinPregel() {
	c05Mode = 6
	c05Check(c05StartJoin(), false, 0, 6, []string{"a", "b", "x"})
}
func VerifC06StartJoinDAG() {
	c05Mode = 6
	c05Check(c05StartJoin(), true, 0, 6, []string{"a", "b", "x"})
}

// Eager (Workflow) runs in which an interrupt-after node, a node asking for a rerun, a join over two lanes and a
// node with a control-only dependency complete in every order the scheduler allows (one deviation from the
// deterministic schedule): the resumed run finishes with the uninterrupted result, nothing lost or run twice.
//
//	START -> A, Z, B, W ; A2 <- A, Z (join) ; X depends on Z, Y on W (control only, data from START) ; END <- A2, B, X, Y
func c05EagerMix() {
	ctx := context.Background()
	vcfg("delaybound", 1+vtier())
	vcfg("selectfirst", 1)
	afterA := vchoose("afterA", 2) == 1
	rerunB := vchoose("rerunB", 2) == 1
	if !afterA && !rerunB {
		return
	}
	in0 := map[string]any{"in": vsymInt("x")}
	build := func(log *vLog, interrupts bool, store CheckPointStore, attempts *int) (Runnable[map[string]any, map[string]any], error) {
		mk := func(k string) *Lambda {
			return InvokableLambda(func(ctx context.Context, in map[string]any) (map[string]any, error) {
				vyield()
				x := vFoldDeep(in)
				log.add(k, x)
				return map[string]any{k: vsymUF("f_"+k, x)}, nil
			})
		}
		wf := NewWorkflow[map[string]any, map[string]any]()
		wf.AddLambdaNode("A", mk("A")).AddInput(START)
		wf.AddLambdaNode("Z", mk("Z")).AddInput(START)
		wf.AddLambdaNode("B", InvokableLambda(func(ctx context.Context, in map[string]any) (map[string]any, error) {
			vMu.Lock()
			*attempts++
			first := *attempts == 1
			vMu.Unlock()
			if interrupts && rerunB && first {
				return nil, InterruptAndRerun
			}
			x := vFoldDeep(in0)
			log.add("B", x)
			return map[string]any{"B": vsymUF("f_B", x)}, nil
		})).AddInput(START)
		wf.AddLambdaNode("A2", mk("A2")).AddInput("A", ToField("a")).AddInput("Z", ToField("z"))
		wf.AddLambdaNode("X", mk("X")).AddInputWithOptions(START, nil, WithNoDirectDependency()).AddDependency("Z")
		// W has no data successor at all: Y only waits for it
		wf.AddLambdaNode("W", mk("W")).AddInput(START)
		wf.AddLambdaNode("Y", mk("Y")).AddInputWithOptions(START, nil, WithNoDirectDependency()).AddDependency("W")
		wf.End().AddInput("A2", ToField("a2")).AddInput("B", ToField("b")).AddInput("X", ToField("x")).AddInput("Y", ToField("y"))
		var opts []GraphCompileOption
		if interrupts {
			opts = append(opts, WithCheckPointStore(store))
			if afterA {
				opts = append(opts, WithInterruptAfterNodes([]string{"A"}))
			}
		}
		return wf.Compile(ctx, opts...)
	}
	logI, logU := &vLog{}, &vLog{}
	store := &vStore{m: map[string][]byte{}}
	attI, attU := 0, 0
	ru, err := build(logU, false, nil, &attU)
	vassert(err == nil, "twin compiles")
	vcfgPush := 0
	_ = vcfgPush
	wantOut, wantErr := ru.Invoke(ctx, in0)
	vassert(wantErr == nil, "uninterrupted run succeeds")
	ri, err := build(logI, true, store, &attI)
	vassert(err == nil, "workflow compiles")
	var out map[string]any
	finished := false
	for call := 0; call < 5 && !finished; call++ {
		var rerr error
		out, rerr = ri.Invoke(ctx, in0, WithCheckPointID("mix"))
		if rerr == nil {
			finished = true
			break
		}
		_, ok := ExtractInterruptInfo(rerr)
		vassert(ok, "eager mix: the (resumed) run does not fail with a non-interrupt error, whatever the completion order")
		a6(ok, "eager mix: only interrupt errors")
		if !ok {
			return
		}
	}
	vquiesce()
	a5(finished, "eager mix: the run completes after resuming")
	a5(c02DeepEq(out, wantOut), "eager mix: same output as the uninterrupted run")
	for _, n := range []string{"A", "Z", "B", "A2", "X", "W", "Y"} {
		a, b := logI.of(n), logU.of(n)
		a5(len(a) == len(b), "eager mix: node "+n+" completes as often as in the uninterrupted run")
		for i := range a {
			if i < len(b) {
				a5(a[i] == b[i], "eager mix: node "+n+" sees the same input as in the uninterrupted run")
			}
		}
	}
}

func VerifC05EagerMix() { c05EagerMix() }
func VerifC06EagerMix() { c05Mode = 6; c05EagerMix() }

// the minimal case of the above: the only node still running when B asks for its rerun has no data successor at all
// (Y merely waits for it): its completion must still be remembered by the checkpoint
func c05RerunControlOnly() {
	ctx := context.Background()
	vcfg("delaybound", 1)
	vcfg("selectfirst", 1)
	in0 := map[string]any{"in": vsymInt("x")}
	build := func(log *vLog, interrupts bool, store CheckPointStore, attempts *int) (Runnable[map[string]any, map[string]any], error) {
		mk := func(k string, yields int) *Lambda {
			return InvokableLambda(func(ctx context.Context, in map[string]any) (map[string]any, error) {
				for i := 0; i < yields; i++ {
					vyield()
				}
				x := vFoldDeep(in)
				log.add(k, x)
				return map[string]any{k: vsymUF("f_"+k, x)}, nil
			})
		}
		wf := NewWorkflow[map[string]any, map[string]any]()
		wf.AddLambdaNode("B", InvokableLambda(func(ctx context.Context, in map[string]any) (map[string]any, error) {
			vMu.Lock()
			*attempts++
			first := *attempts == 1
			vMu.Unlock()
			if interrupts && first {
				return nil, InterruptAndRerun
			}
			x := vFoldDeep(in0)
			log.add("B", x)
			return map[string]any{"B": vsymUF("f_B", x)}, nil
		})).AddInput(START)
		wf.AddLambdaNode("W", mk("W", 2)).AddInput(START)
		wf.AddLambdaNode("Y", mk("Y", 0)).AddInputWithOptions(START, nil, WithNoDirectDependency()).AddDependency("W")
		wf.End().AddInput("B", ToField("b")).AddInput("Y", ToField("y"))
		var opts []GraphCompileOption
		if interrupts {
			opts = append(opts, WithCheckPointStore(store))
		}
		return wf.Compile(ctx, opts...)
	}
	logI, logU := &vLog{}, &vLog{}
	store := &vStore{m: map[string][]byte{}}
	attI, attU := 0, 0
	ru, err := build(logU, false, nil, &attU)
	vassert(err == nil, "twin compiles")
	wantOut, wantErr := ru.Invoke(ctx, in0)
	vassert(wantErr == nil, "uninterrupted run succeeds")
	ri, err := build(logI, true, store, &attI)
	vassert(err == nil, "workflow compiles")
	var out map[string]any
	finished := false
	for call := 0; call < 4 && !finished; call++ {
		var rerr error
		out, rerr = ri.Invoke(ctx, in0, WithCheckPointID("ctl"))
		if rerr == nil {
			finished = true
			break
		}
		_, ok := ExtractInterruptInfo(rerr)
		vassert(ok, "rerun + control-only: the (resumed) run does not fail with a non-interrupt error")
		a6(ok, "rerun + control-only: only interrupt errors")
		if !ok {
			return
		}
	}
	vquiesce()
	a5(finished, "rerun + control-only: the run completes after resuming")
	a5(c02DeepEq(out, wantOut), "rerun + control-only: same output as the uninterrupted run")
	for _, n := range []string{"B", "W", "Y"} {
		a5(len(logI.of(n)) == len(logU.of(n)), "rerun + control-only: node "+n+" completes as often as in the uninterrupted run")
	}
}

func VerifC05RerunControlOnly() { c05RerunControlOnly() }
func VerifC06RerunControlOnly() { c05Mode = 6; c05RerunControlOnly() }

type c05V struct{ V int }
type c05J struct{ A, Z int }

var c05JRegistered = false

// a struct-typed join fed through field mappings by an early lane (a) and a late lane (b -> z): at the interrupt its
// channel holds a's mapped field only; every call picks its paradigm
func c05TypedJoin() {
	ctx := context.Background()
	vcfg("fifo", 1)
	vcfg("selectfirst", 1)
	_ = RegisterSerializableType[c05V]("c05_v")
	_ = RegisterSerializableType[c05J]("c05_j")
	if !c05JRegistered {
		RegisterStreamChunkConcatFunc(func(cs []c05J) (c05J, error) {
			var r c05J
			for _, c := range cs {
				if c.A != 0 {
					r.A = c.A
				}
				if c.Z != 0 {
					r.Z = c.Z
				}
			}
			return r, nil
		})
		c05JRegistered = true
	}
	x := vsymInt("x")
	vassume(x > 0 && x < 1000)
	counts := map[string]int{}
	node := func(key string, add int) *Lambda {
		return InvokableLambda(func(ctx context.Context, in c05V) (c05V, error) {
			vMu.Lock()
			counts[key]++
			vMu.Unlock()
			return c05V{V: in.V + add}, nil
		})
	}
	build := func(interrupts bool, store CheckPointStore, point int) (Runnable[c05V, int], error) {
		wf := NewWorkflow[c05V, int]()
		wf.AddLambdaNode("a", node("a", 1)).AddInput(START)
		wf.AddLambdaNode("b", node("b", 10)).AddInput(START)
		wf.AddLambdaNode("z", node("z", 100)).AddInput("b")
		wf.AddLambdaNode("c", InvokableLambda(func(ctx context.Context, in c05J) (int, error) {
			vMu.Lock()
			counts["c"]++
			vMu.Unlock()
			return in.A*10000 + in.Z, nil
		})).AddInput("a", MapFields("V", "A")).AddInput("z", MapFields("V", "Z"))
		wf.End().AddInput("c")
		var opts []GraphCompileOption
		if interrupts {
			opts = append(opts, WithCheckPointStore(store))
			switch point {
			case 0:
				opts = append(opts, WithInterruptAfterNodes([]string{"a"}))
			case 1:
				opts = append(opts, WithInterruptBeforeNodes([]string{"z"}))
			case 2:
				opts = append(opts, WithInterruptAfterNodes([]string{"b"}))
			case 3:
				opts = append(opts, WithInterruptBeforeNodes([]string{"c"}))
			}
		}
		return wf.Compile(ctx, opts...)
	}
	point := vchoose("point", 4)
	store := &vStore{m: map[string][]byte{}}
	ri, err := build(true, store, point)
	vassert(err == nil, "workflow with a struct-typed join compiles")
	want := (x+1)*10000 + (x + 110)
	var out int
	var rerr error
	finished := false
	for call := 0; call < 4 && !finished; call++ {
		if vchoose("paradigm", 2) == 1 {
			sr, e := ri.Stream(ctx, c05V{V: x}, WithCheckPointID("tj"))
			rerr = e
			if e == nil {
				out, rerr = sr.Recv()
				sr.Close()
			}
		} else {
			out, rerr = ri.Invoke(ctx, c05V{V: x}, WithCheckPointID("tj"))
		}
		if rerr == nil {
			finished = true
			break
		}
		_, ok := ExtractInterruptInfo(rerr)
		if !ok {
			vlog("error: " + rerr.Error())
		}
		vassert(ok, "typed join: the (resumed) run is only ever stopped by interrupts, not by a checkpoint conversion failure")
		a6(ok, "typed join: only interrupt errors")
		if !ok {
			return
		}
	}
	a5(finished && out == want, "typed join: the resumed run returns the uninterrupted result")
	for _, k := range []string{"a", "b", "z", "c"} {
		a5(counts[k] == 1, "typed join: node "+k+" executed exactly once over all calls")
	}
}

func VerifC05TypedJoin() { c05TypedJoin() }
func VerifC06TypedJoin() { c05Mode = 6; c05TypedJoin() }

// a nested graph added with an input key (and optionally an output key), interrupted inside and resumed
func c05SubGraphKeys() {
	ctx := context.Background()
	vcfg("fifo", 1)
	vcfg("selectfirst", 1)
	x := vsymInt("x")
	counts := map[string]int{}
	node := func(key string) *Lambda {
		return InvokableLambda(func(ctx context.Context, in map[string]any) (map[string]any, error) {
			counts[key]++
			return map[string]any{key: vsymUF("f_"+key, vFoldDeep(in))}, nil
		})
	}
	outKey := vchoose("outKey", 2) == 1
	build := func(interrupts bool, store CheckPointStore) (Runnable[map[string]any, map[string]any], error) {
		sub := NewGraph[map[string]any, map[string]any]()
		_ = sub.AddLambdaNode("p", node("p"))
		_ = sub.AddLambdaNode("q", node("q"))
		_ = sub.AddEdge(START, "p")
		_ = sub.AddEdge("p", "q")
		_ = sub.AddEdge("q", END)
		g := NewGraph[map[string]any, map[string]any]()
		opts := []GraphAddNodeOpt{WithInputKey("k")}
		if outKey {
			opts = append(opts, WithOutputKey("o"))
		}
		if interrupts {
			opts = append(opts, WithGraphCompileOptions(WithInterruptBeforeNodes([]string{"q"})))
		}
		_ = g.AddGraphNode("sub", sub, opts...)
		_ = g.AddEdge(START, "sub")
		_ = g.AddEdge("sub", END)
		var copts []GraphCompileOption
		if interrupts {
			copts = append(copts, WithCheckPointStore(store))
		}
		return g.Compile(ctx, copts...)
	}
	in := map[string]any{"k": map[string]any{"v": x}, "other": 1}
	ru, err := build(false, nil)
	vassert(err == nil, "twin compiles")
	want, werr := ru.Invoke(ctx, in)
	vassert(werr == nil, "uninterrupted run succeeds")
	for k := range counts {
		counts[k] = 0
	}
	store := &vStore{m: map[string][]byte{}}
	ri, err := build(true, store)
	vassert(err == nil, "graph compiles")
	var out map[string]any
	var rerr error
	finished := false
	for call := 0; call < 3 && !finished; call++ {
		if vchoose("paradigm", 2) == 1 {
			sr, e := ri.Stream(ctx, in, WithCheckPointID("sk"))
			rerr = e
			if e == nil {
				out, rerr = vDrainMap(sr)
			}
		} else {
			out, rerr = ri.Invoke(ctx, in, WithCheckPointID("sk"))
		}
		if rerr == nil {
			finished = true
			break
		}
		_, ok := ExtractInterruptInfo(rerr)
		vassert(ok, "nested graph with an input key: the (resumed) run does not fail with a non-interrupt error")
		a6(ok, "nested graph with an input key: only interrupt errors")
		if !ok {
			return
		}
	}
	a5(finished && c02DeepEq(out, want), "nested graph with an input key: the resumed run returns the uninterrupted result")
	a5(counts["p"] == 1 && counts["q"] == 1, "nested graph with an input key: every inner node executed exactly once")
}

func VerifC05SubGraphKeys() { c05SubGraphKeys() }
func VerifC06SubGraphKeys() { c05Mode = 6; c05SubGraphKeys() }

// a value of a type-changing node (string -> int) waits in its successor's channel while the successor's control
// dependency is interrupted: it survives the checkpoint in the value and in the stream form, whichever paradigm
// interrupts and whichever resumes
func c05WaitingValue() {
	ctx := context.Background()
	vcfg("fifo", 1)
	vcfg("selectfirst", 1)
	x := vsymStr("x")
	counts := map[string]int{}
	hit := func(k string) {
		vMu.Lock()
		counts[k]++
		vMu.Unlock()
	}
	wf := NewWorkflow[string, int]()
	wf.AddLambdaNode("A", InvokableLambda(func(ctx context.Context, in string) (int, error) { hit("A"); return len(in) + 1, nil })).AddInput(START)
	wf.AddLambdaNode("B", InvokableLambda(func(ctx context.Context, in string) (string, error) { hit("B"); return in, nil })).AddInput(START)
	wf.AddLambdaNode("C", InvokableLambda(func(ctx context.Context, in int) (int, error) { hit("C"); return in * 2, nil })).AddInput("A").AddDependency("B")
	wf.End().AddInput("C")
	store := &vStore{m: map[string][]byte{}}
	var opts []GraphCompileOption
	opts = append(opts, WithCheckPointStore(store))
	switch vchoose("point", 3) {
	case 0:
		opts = append(opts, WithInterruptBeforeNodes([]string{"B"}))
	case 1:
		opts = append(opts, WithInterruptAfterNodes([]string{"A"}))
	case 2:
		opts = append(opts, WithInterruptBeforeNodes([]string{"C"}))
	}
	r, err := wf.Compile(ctx, opts...)
	vassert(err == nil, "workflow compiles")
	var out int
	var rerr error
	finished := false
	for call := 0; call < 4 && !finished; call++ {
		if vchoose("paradigm", 2) == 1 {
			sr, e := r.Stream(ctx, x, WithCheckPointID("wv"))
			rerr = e
			if e == nil {
				out, rerr = sr.Recv()
				sr.Close()
			}
		} else {
			out, rerr = r.Invoke(ctx, x, WithCheckPointID("wv"))
		}
		if rerr == nil {
			finished = true
			break
		}
		_, ok := ExtractInterruptInfo(rerr)
		vassert(ok, "waiting value: the (resumed) run is only ever stopped by interrupts")
		a6(ok, "waiting value: only interrupt errors")
		if !ok {
			return
		}
	}
	a5(finished && out == (len(x)+1)*2, "waiting value: the resumed run returns the uninterrupted result")
	for _, k := range []string{"A", "B", "C"} {
		a5(counts[k] == 1, "waiting value: node "+k+" executed exactly once over all calls")
	}
}

func VerifC05WaitingValue() { c05WaitingValue() }
func VerifC06WaitingValue() { c05Mode = 6; c05WaitingValue() }

type c05TS struct{ Msg *schema.Message }

type c05AskTool struct {
	attempts *int
	ask      bool
}

func (t *c05AskTool) Info(ctx context.Context) (*schema.ToolInfo, error) {
	return &schema.ToolInfo{Name: "ask"}, nil
}
func (t *c05AskTool) InvokableRun(ctx context.Context, args string, opts ...tool.Option) (string, error) {
	*t.attempts++
	if t.ask && *t.attempts == 1 {
		return "", InterruptAndRerun
	}
	return "answer(" + args + ")", nil
}

// A tool of the bundled ToolsNode asks for interrupt-and-rerun (the tools node wraps the tool's error): in Invoke and
// in Stream alike the run is interrupted with the tools node in RerunNodes, a checkpoint is written, and the resumed
// run gives the tool messages of the uninterrupted run.
func c05ToolRerun() {
	ctx := context.Background()
	vcfg("fifo", 1)
	vcfg("selectfirst", 1)
	_ = RegisterSerializableType[c05TS]("c05_ts")
	first := vchoose("firstParadigm", 2)
	second := vchoose("secondParadigm", 2)
	ix := 0
	msg := &schema.Message{Role: schema.Assistant, ToolCalls: []schema.ToolCall{{Index: &ix, ID: "c1", Function: schema.FunctionCall{Name: "ask", Arguments: "x"}}}}
	build := func(ask bool, store CheckPointStore, attempts *int) (Runnable[*schema.Message, []*schema.Message], error) {
		tn, err := NewToolNode(ctx, &ToolsNodeConfig{Tools: []tool.BaseTool{&c05AskTool{attempts, ask}}})
		if err != nil {
			return nil, err
		}
		g := NewGraph[*schema.Message, []*schema.Message](WithGenLocalState(func(ctx context.Context) *c05TS { return &c05TS{} }))
		_ = g.AddToolsNode("tools", tn, WithStatePreHandler(func(ctx context.Context, in *schema.Message, s *c05TS) (*schema.Message, error) {
			if in != nil {
				s.Msg = in
			}
			return s.Msg, nil
		}))
		_ = g.AddEdge(START, "tools")
		_ = g.AddEdge("tools", END)
		var opts []GraphCompileOption
		if store != nil {
			opts = append(opts, WithCheckPointStore(store))
		}
		return g.Compile(ctx, opts...)
	}
	call := func(r Runnable[*schema.Message, []*schema.Message], paradigm int, opts ...Option) ([]*schema.Message, error) {
		if paradigm == 0 {
			return r.Invoke(ctx, msg, opts...)
		}
		sr, err := r.Stream(ctx, msg, opts...)
		if err != nil {
			return nil, err
		}
		defer sr.Close()
		res := &schema.Message{Role: schema.Tool}
		for i := 0; i < 8; i++ {
			c, err := sr.Recv()
			if err == io.EOF {
				break
			}
			if err != nil {
				return nil, err
			}
			if len(c) == 1 && c[0] != nil { // one call: every chunk carries a fragment of the one tool message
				res.Content += c[0].Content
				res.ToolCallID = c[0].ToolCallID
			}
		}
		return []*schema.Message{res}, nil
	}
	var at0 int
	ru, err := build(false, nil, &at0)
	vassert(err == nil, "twin compiles")
	want, werr := ru.Invoke(ctx, msg)
	vassert(werr == nil && len(want) == 1, "uninterrupted run succeeds")
	store := &vStore{m: map[string][]byte{}}
	var at int
	ri, err := build(true, store, &at)
	vassert(err == nil, "graph with an asking tool compiles")
	_, e1 := call(ri, first, WithCheckPointID("cp"))
	info, ok := ExtractInterruptInfo(e1)
	vassert(ok, "tool rerun: a tool asking for interrupt-and-rerun interrupts the run in every paradigm (extractable info)")
	if !ok {
		return
	}
	a6(len(info.RerunNodes) == 1 && info.RerunNodes[0] == "tools", "tool rerun: the interrupt names the tools node in RerunNodes")
	a6(store.sets == 1, "tool rerun: a checkpoint is written under the id when the interrupt is returned")
	out, e2 := call(ri, second, WithCheckPointID("cp"))
	a5(e2 == nil && len(out) == 1, "tool rerun: the resumed run completes")
	if e2 == nil && len(out) == 1 {
		a5(out[0].Content == want[0].Content && out[0].ToolCallID == "c1", "tool rerun: the resumed run returns the tool message of the uninterrupted run")
	}
	a5(at == 2, "tool rerun: the tool that asked runs once more after resume")
}

func VerifC05ToolRerun() { c05ToolRerun() }
func VerifC06ToolRerun() { c05Mode = 6; c05ToolRerun() }

// A stream-native chain filter -> count: the filter may emit no chunk at all, the counter reports how many chunks it
// saw. Interrupted before the counter in a streaming run and resumed, the counter sees what it sees uninterrupted:
// an empty pending stream stays empty, a stream of k chunks keeps its content.
func c05EmptyStream() {
	ctx := context.Background()
	vcfg("fifo", 1)
	vcfg("selectfirst", 1)
	keep := vchoose("keep", 3) // how many of the two input chunks the filter lets through
	x := vsymStr("x")
	build := func(store CheckPointStore) (Runnable[string, string], error) {
		g := NewGraph[string, string]()
		_ = g.AddLambdaNode("filter", TransformableLambda(func(ctx context.Context, in *schema.StreamReader[string]) (*schema.StreamReader[string], error) {
			var kept []string
			for i := 0; i < 4; i++ {
				c, err := in.Recv()
				if err != nil {
					break
				}
				if len(kept) < keep {
					kept = append(kept, c)
				}
			}
			in.Close()
			return schema.StreamReaderFromArray(kept), nil
		}))
		_ = g.AddLambdaNode("count", TransformableLambda(func(ctx context.Context, in *schema.StreamReader[string]) (*schema.StreamReader[string], error) {
			n := 0
			all := ""
			for i := 0; i < 4; i++ {
				c, err := in.Recv()
				if err != nil {
					break
				}
				n++
				all += c
			}
			in.Close()
			return schema.StreamReaderFromArray([]string{[]string{"zero:", "one:", "two:", "many:"}[n], all}), nil
		}))
		_ = g.AddEdge(START, "filter")
		_ = g.AddEdge("filter", "count")
		_ = g.AddEdge("count", END)
		if store != nil {
			return g.Compile(ctx, WithCheckPointStore(store), WithInterruptBeforeNodes([]string{"count"}))
		}
		return g.Compile(ctx)
	}
	call := func(r Runnable[string, string], opts ...Option) (string, error) {
		sr, err := r.Transform(ctx, schema.StreamReaderFromArray([]string{x, "b"}), opts...)
		if err != nil {
			return "", err
		}
		defer sr.Close()
		out := ""
		for i := 0; i < 8; i++ {
			c, err := sr.Recv()
			if err == io.EOF {
				break
			}
			if err != nil {
				return "", err
			}
			out += c
		}
		return out, nil
	}
	ru, err := build(nil)
	vassert(err == nil, "twin compiles")
	want, werr := call(ru)
	vassert(werr == nil, "uninterrupted streaming run succeeds")
	store := &vStore{m: map[string][]byte{}}
	ri, err := build(store)
	vassert(err == nil, "graph compiles")
	_, e1 := call(ri, WithCheckPointID("cp"))
	_, ok := ExtractInterruptInfo(e1)
	vassert(ok, "empty stream: the run is interrupted before the counter")
	if !ok {
		return
	}
	if vchoose("resumeByInvoke", 2) == 1 {
		// the checkpoint of a streaming run resumed by Invoke: the pending stream arrives as one value (no chunk: the
		// zero value); the run completes, with the content that was pending
		out, e2 := ri.Invoke(ctx, "unused", WithCheckPointID("cp"))
		a5(e2 == nil, "empty stream: a streaming checkpoint resumed by Invoke completes")
		if e2 == nil && keep > 0 {
			a5(out == "one:"+x || out == "one:"+x+"b", "empty stream: the pending content reaches the consumer as one value")
		}
		return
	}
	out, e2 := call(ri, WithCheckPointID("cp"))
	a5(e2 == nil, "empty stream: the resumed run completes")
	if keep == 1 {
		// one pending chunk: it may come back as one chunk; its content must be the same
		a5(out == want, "empty stream: a pending one-chunk stream survives the checkpoint")
	} else if keep == 0 {
		a5(out == want, "empty stream: a pending stream without any chunk is still without any chunk after the resume")
	} else {
		// two pending chunks are concatenated by the checkpoint: the content survives (the chunking is not claimed)
		a5(out == want || out == "one:"+x+"b", "empty stream: the content of a pending two-chunk stream survives the checkpoint")
	}
}

func VerifC05EmptyStream() { c05EmptyStream() }
func VerifC06EmptyStream() { c05Mode = 6; c05EmptyStream() }

// A pending input that is a nil interface value (an any-typed node answered "nothing"), interrupted before its
// consumer and resumed, in every mix of Invoke and Stream: the consumer receives nil, as in the uninterrupted run.
func c05NilPending() {
	ctx := context.Background()
	vcfg("fifo", 1)
	vcfg("selectfirst", 1)
	isNil := vchoose("nil", 2) == 1
	build := func(store CheckPointStore) (Runnable[string, string], error) {
		g := NewGraph[string, string]()
		_ = g.AddLambdaNode("a", InvokableLambda(func(ctx context.Context, in string) (any, error) {
			if isNil {
				return nil, nil
			}
			return in, nil
		}))
		_ = g.AddLambdaNode("b", InvokableLambda(func(ctx context.Context, in any) (string, error) {
			if in == nil {
				return "nil", nil
			}
			return "non-nil", nil
		}))
		_ = g.AddEdge(START, "a")
		_ = g.AddEdge("a", "b")
		_ = g.AddEdge("b", END)
		if store != nil {
			return g.Compile(ctx, WithCheckPointStore(store), WithInterruptBeforeNodes([]string{"b"}))
		}
		return g.Compile(ctx)
	}
	call := func(r Runnable[string, string], stream bool, opts ...Option) (string, error) {
		if !stream {
			return r.Invoke(ctx, "x", opts...)
		}
		sr, err := r.Stream(ctx, "x", opts...)
		if err != nil {
			return "", err
		}
		defer sr.Close()
		out := ""
		for i := 0; i < 8; i++ {
			c, err := sr.Recv()
			if err == io.EOF {
				break
			}
			if err != nil {
				return "", err
			}
			out += c
		}
		return out, nil
	}
	ru, err := build(nil)
	vassert(err == nil, "twin compiles")
	want, werr := call(ru, vchoose("twinStream", 2) == 1)
	vassert(werr == nil, "uninterrupted run succeeds")
	store := &vStore{m: map[string][]byte{}}
	ri, err := build(store)
	vassert(err == nil, "graph compiles")
	id := []string{"cp", ""}[vchoose("id", 2)] // the empty string is a checkpoint id like any other
	_, e1 := call(ri, vchoose("firstStream", 2) == 1, WithCheckPointID(id))
	_, ok := ExtractInterruptInfo(e1)
	vassert(ok, "nil pending: the run is interrupted before the consumer")
	if !ok {
		return
	}
	a6(store.sets == 1, "nil pending: a checkpoint is written under the supplied id (the empty id included) when the interrupt is returned")
	out, e2 := call(ri, vchoose("secondStream", 2) == 1, WithCheckPointID(id))
	a5(e2 == nil, "nil pending: the resumed run completes")
	a5(out == want, "nil pending: the consumer receives what it receives uninterrupted (nil stays nil)")
}

func VerifC05NilPending() { c05NilPending() }
func VerifC06NilPending() { c05Mode = 6; c05NilPending() }

// A node listed twice among the interrupt-before (or interrupt-after) nodes is one interrupt point and is reported once.
func VerifC06DuplicatePoints() {
	ctx := context.Background()
	vcfg("fifo", 1)
	g := NewGraph[map[string]any, map[string]any]()
	_ = g.AddLambdaNode("a", vNode("a", nil))
	_ = g.AddLambdaNode("b", vNode("b", nil))
	_ = g.AddEdge(START, "a")
	_ = g.AddEdge("a", "b")
	_ = g.AddEdge("b", END)
	before := vchoose("before", 2) == 1
	store := &vStore{m: map[string][]byte{}}
	var opt GraphCompileOption
	if before {
		opt = WithInterruptBeforeNodes([]string{"b", "b"})
	} else {
		opt = WithInterruptAfterNodes([]string{"a", "a"})
	}
	r, err := g.Compile(ctx, WithCheckPointStore(store), opt)
	vassert(err == nil, "graph compiles")
	_, e1 := r.Invoke(ctx, map[string]any{"in": 1}, WithCheckPointID("cp"))
	info, ok := ExtractInterruptInfo(e1)
	vassert(ok, "the run is interrupted")
	if !ok {
		return
	}
	if before {
		vassert(len(info.BeforeNodes) == 1 && info.BeforeNodes[0] == "b" && len(info.AfterNodes) == 0, "the interrupt-before node is reported exactly once")
	} else {
		vassert(len(info.AfterNodes) == 1 && info.AfterNodes[0] == "a" && len(info.BeforeNodes) == 0, "the interrupt-after node is reported exactly once")
	}
	_, e2 := r.Invoke(ctx, map[string]any{"in": 1}, WithCheckPointID("cp"))
	vassert(e2 == nil, "one resume completes the run")
}
