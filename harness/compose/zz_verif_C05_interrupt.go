package compose

import (
	"context"
)

// C05 / C06: interrupt + resume is equivalent to the uninterrupted run; interrupt points are honoured and reported.

type vStore struct {
	m    map[string][]byte
	sets int
	gets int
}

func (s *vStore) Get(ctx context.Context, id string) ([]byte, bool, error) {
	s.gets++
	b, ok := s.m[id]
	if !ok {
		return nil, false, nil
	}
	c := make([]byte, len(b))
	copy(c, b)
	return c, true, nil
}
func (s *vStore) Set(ctx context.Context, id string, b []byte) error {
	s.sets++
	c := make([]byte, len(b))
	copy(c, b)
	s.m[id] = c
	return nil
}

var c05Mode = 5

func a5(c bool, msg string) {
	if c05Mode == 5 {
		vassert(c, msg)
	}
}
func a6(c bool, msg string) {
	if c05Mode == 6 {
		vassert(c, msg)
	}
}

// monitors for C06
type c06Mon struct {
	g          *vG
	before     map[string]bool
	after      map[string]bool
	allowed    map[string]int  // interrupts reported for a before-node and not yet consumed by an execution
	pendingAft map[string]bool // after-node completed, interrupt not yet returned
	bad        string
}

func (m *c06Mon) succOf(n string) []string {
	var r []string
	for _, e := range m.g.edges {
		if e[0] == n {
			r = append(r, e[1])
		}
	}
	for _, b := range m.g.branches {
		if b.from == n {
			r = append(r, b.targets...)
		}
	}
	return r
}

func (m *c06Mon) onStart(n string) {
	if m.before[n] {
		if m.allowed[n] <= 0 && m.bad == "" {
			m.bad = "interrupt-before node " + n + " began executing without a preceding interrupt that reported it"
		}
		m.allowed[n]--
	}
	for p := range m.pendingAft {
		for _, s := range m.succOf(p) {
			if s == n && m.bad == "" {
				m.bad = "successor " + n + " of interrupt-after node " + p + " started before the run stopped"
			}
		}
	}
}

func (m *c06Mon) onEnd(n string) {
	if m.after[n] {
		m.pendingAft[n] = true
	}
}

func c05Node(key string, log *vLog, mon *c06Mon) *Lambda {
	return InvokableLambda(func(ctx context.Context, in map[string]any) (map[string]any, error) {
		if mon != nil {
			mon.onStart(key)
		}
		x := vFold(in)
		log.execs = append(log.execs, vExec{key, x})
		out := map[string]any{key: vsymUF("f_"+key, x)}
		if mon != nil {
			mon.onEnd(key)
		}
		return out, nil
	})
}

func (g *vG) buildMon(log *vLog, d *vDecider, mon *c06Mon) *Graph[map[string]any, map[string]any] {
	gr := NewGraph[map[string]any, map[string]any]()
	for _, n := range g.nodes {
		_ = gr.AddLambdaNode(n, c05Node(n, log, mon))
	}
	for _, e := range g.edges {
		_ = gr.AddEdge(e[0], e[1])
	}
	for bi, b := range g.branches {
		bi, b := bi, b
		ends := map[string]bool{}
		for _, t := range b.targets {
			ends[t] = true
		}
		_ = gr.AddBranch(b.from, NewGraphBranch(func(ctx context.Context, in map[string]any) (string, error) {
			k := d.cntR[bi]
			d.cntR[bi]++
			return b.targets[d.get(bi, k)], nil
		}, ends))
	}
	return gr
}

func c05Contains(l []string, s string) bool {
	for _, x := range l {
		if x == s {
			return true
		}
	}
	return false
}

// c05Check: interrupt sets are Booleans per node; resume until the run completes (<= maxCalls); compare with an
// identically built graph run without interrupts.
func c05Check(g *vG, dag bool, maxSteps int, maxCalls int, candidates []string) {
	c05CheckL(g, dag, maxSteps, maxCalls, candidates, 0)
}

func c05CheckL(g *vG, dag bool, maxSteps int, maxCalls int, candidates []string, loopLimit int) {
	ctx := context.Background()
	vcfg("fifo", 1)
	var before, after []string
	mon := &c06Mon{g: g, before: map[string]bool{}, after: map[string]bool{}, allowed: map[string]int{}, pendingAft: map[string]bool{}}
	desc := ""
	for _, n := range candidates {
		switch vchoose("int_"+n, 3) {
		case 1:
			before = append(before, n)
			mon.before[n] = true
			desc += "before:" + n + " "
		case 2:
			after = append(after, n)
			mon.after[n] = true
			desc += "after:" + n + " "
		}
	}
	d := &vDecider{g: g, limit: loopLimit, taken: map[int][]int{}, cntR: map[int]int{}, cntM: map[int]int{}}
	logI, logU := &vLog{}, &vLog{}
	store := &vStore{m: map[string][]byte{}}
	opts := []GraphCompileOption{WithCheckPointStore(store), WithInterruptBeforeNodes(before), WithInterruptAfterNodes(after)}
	if dag {
		opts = append(opts, WithNodeTriggerMode(AllPredecessor))
	} else if maxSteps > 0 {
		opts = append(opts, WithMaxRunSteps(maxSteps))
	}
	ri, err := g.buildMon(logI, d, mon).Compile(ctx, opts...)
	vassume(err == nil)
	// uninterrupted twin (same decisions: the k-th evaluation of a branch gives the same outcome)
	d2 := &vDecider{g: g, limit: loopLimit, taken: d.taken, cntR: map[int]int{}, cntM: map[int]int{}}
	var opts2 []GraphCompileOption
	if dag {
		opts2 = append(opts2, WithNodeTriggerMode(AllPredecessor))
	} else if maxSteps > 0 {
		opts2 = append(opts2, WithMaxRunSteps(maxSteps*maxCalls))
	}
	ru, err := g.buildMon(logU, d2, nil).Compile(ctx, opts2...)
	vassume(err == nil)
	in := map[string]any{"in": vsymInt("x")}
	wantOut, wantErr := ru.Invoke(ctx, in)
	vassume(wantErr == nil)

	var out map[string]any
	finished := false
	interrupts := 0
	for call := 0; call < maxCalls && !finished; call++ {
		setsBefore := store.sets
		var rerr error
		if vchoose("paradigm", 2) == 1 {
			sr, e := ri.Stream(ctx, in, WithCheckPointID("cp"))
			if e != nil {
				rerr = e
			} else {
				out, rerr = vDrainMap(sr)
			}
		} else {
			out, rerr = ri.Invoke(ctx, in, WithCheckPointID("cp"))
		}
		if rerr == nil {
			finished = true
			a6(store.sets == setsBefore, "no checkpoint is written when the call returns without an interrupt ("+desc+")")
			break
		}
		info, ok := ExtractInterruptInfo(rerr)
		a6(ok, "a run of interrupt-configured nodes fails only with an interrupt error from which the info can be extracted ("+desc+")")
		interrupts++
		a6(store.sets == setsBefore+1, "a checkpoint is written under the id exactly when an interrupt error is returned ("+desc+")")
		a6(len(info.BeforeNodes)+len(info.AfterNodes)+len(info.RerunNodes)+len(info.SubGraphs) > 0, "the interrupt names at least one node ("+desc+")")
		for _, n := range info.BeforeNodes {
			a6(mon.before[n], "reported before-node "+n+" is configured as interrupt-before")
			mon.allowed[n]++
		}
		for _, n := range info.AfterNodes {
			a6(mon.after[n], "reported after-node "+n+" is configured as interrupt-after")
			a6(mon.pendingAft[n], "reported after-node "+n+" has just completed")
			delete(mon.pendingAft, n)
		}
		a6(len(mon.pendingAft) == 0, "every interrupt-after node that completed is reported by the interrupt ("+desc+")")
	}
	a6(mon.bad == "", ""+mon.bad+" ("+desc+")")
	a5(finished, "the run completes after resuming at most "+string(rune('0'+maxCalls))+" times ("+desc+")")
	a5(vMapEq(out, wantOut), "interrupted and resumed run returns the output of the uninterrupted run ("+desc+")")
	for _, n := range g.nodes {
		a, b := logI.of(n), logU.of(n)
		a5(len(a) == len(b), "node "+n+" is executed as often as in the uninterrupted run: nothing re-executed or lost ("+desc+")")
		for i := range a {
			a5(a[i] == b[i], "node "+n+" sees the same input as in the uninterrupted run ("+desc+")")
		}
	}
	if len(before)+len(after) > 0 {
		vreach("interrupted")
	}
}

func c05Chain() *vG {
	return &vG{nodes: []string{"a", "b", "c"}, edges: [][2]string{{START, "a"}, {"a", "b"}, {"b", "c"}, {"c", END}}}
}
func c05Fan() *vG {
	return &vG{nodes: []string{"a", "b", "c"}, edges: [][2]string{{START, "a"}, {START, "b"}, {"a", "c"}, {"b", "c"}, {"c", END}}}
}
func c05Branch() *vG {
	return &vG{nodes: []string{"a", "b", "c", "d"}, edges: [][2]string{{START, "a"}, {"b", "d"}, {"c", "d"}, {"d", END}},
		branches: []vBranch{{"a", []string{"b", "c"}}}}
}
func c05Cycle() *vG {
	return &vG{nodes: []string{"a", "b"}, edges: [][2]string{{START, "a"}, {"a", "b"}}, branches: []vBranch{{"b", []string{"a", END}}}}
}

func VerifC05ChainPregel()  { c05Check(c05Chain(), false, 0, 5, []string{"a", "b", "c"}) }
func VerifC05ChainDAG()     { c05Check(c05Chain(), true, 0, 5, []string{"a", "b", "c"}) }
func VerifC05FanPregel()    { c05Check(c05Fan(), false, 0, 5, []string{"a", "b", "c"}) }
func VerifC05FanDAG()       { c05Check(c05Fan(), true, 0, 5, []string{"a", "b", "c"}) }
func VerifC05BranchPregel() { c05Check(c05Branch(), false, 0, 5, []string{"a", "b", "d"}) }
func VerifC05BranchDAG()    { c05Check(c05Branch(), true, 0, 5, []string{"a", "b", "d"}) }
func VerifC05Cycle()        { c05CheckL(c05Cycle(), false, 8, 8, []string{"a", "b"}, 2) }

func VerifC06ChainPregel()  { c05Mode = 6; c05Check(c05Chain(), false, 0, 5, []string{"a", "b", "c"}) }
func VerifC06ChainDAG()     { c05Mode = 6; c05Check(c05Chain(), true, 0, 5, []string{"a", "b", "c"}) }
func VerifC06FanPregel()    { c05Mode = 6; c05Check(c05Fan(), false, 0, 5, []string{"a", "b", "c"}) }
func VerifC06FanDAG()       { c05Mode = 6; c05Check(c05Fan(), true, 0, 5, []string{"a", "b", "c"}) }
func VerifC06BranchPregel() { c05Mode = 6; c05Check(c05Branch(), false, 0, 5, []string{"a", "b", "d"}) }
func VerifC06BranchDAG()    { c05Mode = 6; c05Check(c05Branch(), true, 0, 5, []string{"a", "b", "d"}) }
func VerifC06Cycle()        { c05Mode = 6; c05CheckL(c05Cycle(), false, 8, 8, []string{"a", "b"}, 2) }
