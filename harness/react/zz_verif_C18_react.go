package react

import (
	"context"
	"errors"
	"io"
	"sync"

	"github.com/cloudwego/eino/components/model"
	"github.com/cloudwego/eino/components/tool"
	"github.com/cloudwego/eino/compose"
	"github.com/cloudwego/eino/flow/agent"
	"github.com/cloudwego/eino/schema"
)

// C18: the ReAct agent alternates model and tools faithfully and stops.

type c18Msg struct {
	role    schema.RoleType
	content string
	tcID    string
	calls   []string // "id:name:args"
}

func c18Snap(m *schema.Message) c18Msg {
	s := c18Msg{role: m.Role, content: m.Content, tcID: m.ToolCallID}
	for _, tc := range m.ToolCalls {
		s.calls = append(s.calls, tc.ID+":"+tc.Function.Name+":"+tc.Function.Arguments)
	}
	return s
}

func c18Eq(a, b c18Msg) bool {
	if a.role != b.role || a.content != b.content || a.tcID != b.tcID || len(a.calls) != len(b.calls) {
		return false
	}
	for i := range a.calls {
		if a.calls[i] != b.calls[i] {
			return false
		}
	}
	return true
}

// scripted model: the k-th call answers script[k]; streams in a chosen chunking
type c18Model struct {
	script   []*schema.Message
	chunking []int
	calls    int
	seen     [][]c18Msg // history each call received
}

func (m *c18Model) WithTools(tools []*schema.ToolInfo) (model.ToolCallingChatModel, error) {
	return m, nil
}

var c18Mu sync.Mutex

func (m *c18Model) next(input []*schema.Message) (*schema.Message, int) {
	c18Mu.Lock()
	defer c18Mu.Unlock()
	var h []c18Msg
	for _, x := range input {
		h = append(h, c18Snap(x))
	}
	m.seen = append(m.seen, h)
	k := m.calls
	m.calls++
	if k < len(m.script) {
		return m.script[k], m.chunking[k]
	}
	return &schema.Message{Role: schema.Assistant, Content: "final"}, 0
}

func (m *c18Model) Generate(ctx context.Context, input []*schema.Message, opts ...model.Option) (*schema.Message, error) {
	msg, _ := m.next(input)
	return msg, nil
}

func (m *c18Model) Stream(ctx context.Context, input []*schema.Message, opts ...model.Option) (*schema.StreamReader[*schema.Message], error) {
	msg, chunking := m.next(input)
	var chunks []*schema.Message
	switch chunking {
	case 0:
		chunks = []*schema.Message{msg}
	case 1: // a leading empty chunk (role only), then the message
		chunks = []*schema.Message{{Role: schema.Assistant}, msg}
	case 2: // tool calls in the first chunk, content in a second one
		first := &schema.Message{Role: schema.Assistant, ToolCalls: msg.ToolCalls}
		second := &schema.Message{Role: schema.Assistant, Content: msg.Content}
		if len(msg.ToolCalls) == 0 {
			first = &schema.Message{Role: schema.Assistant, Content: msg.Content}
			second = &schema.Message{Role: schema.Assistant}
		}
		chunks = []*schema.Message{first, second}
	}
	return schema.StreamReaderFromArray(chunks), nil
}

type c18Tool struct {
	name string
	runs *[]string
}

func (t *c18Tool) Info(ctx context.Context) (*schema.ToolInfo, error) {
	return &schema.ToolInfo{Name: t.name}, nil
}
func (t *c18Tool) InvokableRun(ctx context.Context, args string, opts ...tool.Option) (string, error) {
	c18Mu.Lock()
	*t.runs = append(*t.runs, t.name+"("+args+")")
	c18Mu.Unlock()
	return c18Out(t.name, args), nil
}

// the result of a tool call: t0 answers in one piece; t1 (stream-only) answers args+args in two chunks, which is
// the empty string for empty arguments
func c18Out(name, args string) string {
	if name == "t1" {
		return args + args
	}
	return "r_" + name + "(" + args + ")"
}

type c18StreamTool struct {
	name string
	runs *[]string
}

func (t *c18StreamTool) Info(ctx context.Context) (*schema.ToolInfo, error) {
	return &schema.ToolInfo{Name: t.name}, nil
}
func (t *c18StreamTool) StreamableRun(ctx context.Context, args string, opts ...tool.Option) (*schema.StreamReader[string], error) {
	c18Mu.Lock()
	*t.runs = append(*t.runs, t.name+"("+args+")")
	c18Mu.Unlock()
	return schema.StreamReaderFromArray([]string{args, args}), nil
}

func c18Run(turns int) {
	ctx := context.Background()
	vcfg("fifo", 1)
	vcfg("selectfirst", 1)
	// script
	var script []*schema.Message
	var chunking []int
	idn := 0
	names := []string{"t0", "t1"}
	for k := 0; k < turns; k++ {
		m := &schema.Message{Role: schema.Assistant, Content: []string{"a0", "a1", "a2", "a3"}[k]}
		ntc := vrange("ntc", 0, 2)
		for j := 0; j < ntc; j++ {
			idn++
			ix := j
			m.ToolCalls = append(m.ToolCalls, schema.ToolCall{Index: &ix, ID: []string{"", "c1", "c2", "c3", "c4", "c5", "c6", "c7", "c8"}[idn],
				Function: schema.FunctionCall{Name: names[vrange("tool", 0, 1)], Arguments: []string{"x", ""}[j]}})
		}
		script = append(script, m)
		chunking = append(chunking, vchoose("chunking", 3))
	}
	direct := map[string]struct{}{}
	if vchoose("direct_t0", 2) == 1 {
		direct["t0"] = struct{}{}
	}
	if vchoose("direct_t1", 2) == 1 {
		direct["t1"] = struct{}{}
	}
	maxStep := vrange("maxStep", 1, 2*turns+2)
	useStream := vchoose("stream", 2) == 1

	var runs []string
	mdl := &c18Model{script: script, chunking: chunking}
	ag, err := NewAgent(ctx, &AgentConfig{ToolCallingModel: mdl, MaxStep: maxStep, ToolReturnDirectly: direct,
		ToolsConfig: compose.ToolsNodeConfig{Tools: []tool.BaseTool{&c18Tool{"t0", &runs}, &c18StreamTool{"t1", &runs}}}})
	vassert(err == nil, "agent is created")
	user := vsymStr("user")
	input := []*schema.Message{schema.UserMessage(user)}

	// ---- reference
	var refHist [][]c18Msg
	hist := []c18Msg{{role: schema.User, content: user}}
	var want c18Msg
	steps := 0
	exceeded := false
	var refRuns []string
	for k := 0; ; k++ {
		if steps >= maxStep {
			exceeded = true
			break
		}
		steps++ // model step
		refHist = append(refHist, append([]c18Msg{}, hist...))
		var m *schema.Message
		if k < len(script) {
			m = script[k]
		} else {
			m = &schema.Message{Role: schema.Assistant, Content: "final"}
		}
		hist = append(hist, c18Snap(m))
		if len(m.ToolCalls) == 0 {
			want = c18Snap(m)
			break
		}
		if steps >= maxStep {
			exceeded = true
			break
		}
		steps++ // tools step
		var results []c18Msg
		directID := ""
		for _, tc := range m.ToolCalls {
			refRuns = append(refRuns, tc.Function.Name+"("+tc.Function.Arguments+")")
			results = append(results, c18Msg{role: schema.Tool, content: c18Out(tc.Function.Name, tc.Function.Arguments), tcID: tc.ID})
			if _, ok := direct[tc.Function.Name]; ok && directID == "" {
				directID = tc.ID
			}
		}
		if directID != "" {
			if steps >= maxStep {
				exceeded = true
				break
			}
			steps++ // direct-return step
			for _, r := range results {
				if r.tcID == directID {
					want = r
				}
			}
			break
		}
		hist = append(hist, results...)
	}

	// ---- run
	var got *schema.Message
	var rerr error
	if useStream {
		sr, e := ag.Stream(ctx, input)
		rerr = e
		if e == nil {
			var chunks []*schema.Message
			for i := 0; i < 16; i++ {
				c, e := sr.Recv()
				if e == io.EOF {
					break
				}
				if e != nil {
					rerr = e
					break
				}
				chunks = append(chunks, c)
			}
			sr.Close()
			if rerr == nil {
				got, rerr = schema.ConcatMessages(chunks)
			}
		}
	} else {
		got, rerr = ag.Generate(ctx, input)
	}
	if exceeded {
		vassert(rerr != nil && errors.Is(rerr, compose.ErrExceedMaxSteps), "a script that needs more steps than the limit stops with the step-limit error")
		return
	}
	vassert(rerr == nil, "the agent answers when the script fits the step limit")
	vassert(c18Eq(c18Snap(got), want), "the answer is the first assistant message without tool calls, or the result of the return-directly tool")
	vassert(len(mdl.seen) == len(refHist), "the model is called exactly as often as the script requires")
	for k := range mdl.seen {
		if k >= len(refHist) {
			break
		}
		vassert(len(mdl.seen[k]) == len(refHist[k]), "model call sees the original messages plus every earlier assistant message and its tool results")
		for i := range mdl.seen[k] {
			if i < len(refHist[k]) {
				vassert(c18Eq(mdl.seen[k][i], refHist[k][i]), "model call sees the history in order")
			}
		}
	}
	vassert(len(runs) == len(refRuns), "every tool call of every assistant message is executed exactly once")
}

func VerifC18Turns1() { c18Run(1) }
func VerifC18Turns2() { c18Run(2) }
func VerifC18Turns3() { c18Run(3) }

// the agent embedded as a node of a parent graph (ExportGraph) keeps its configured step limit
func VerifC18Embedded() {
	ctx := context.Background()
	vcfg("fifo", 1)
	vcfg("selectfirst", 1)
	var runs []string
	// a runaway model: every answer asks for a tool again
	var script []*schema.Message
	var chunking []int
	for k := 0; k < 12; k++ {
		ix := 0
		script = append(script, &schema.Message{Role: schema.Assistant, Content: "again",
			ToolCalls: []schema.ToolCall{{Index: &ix, ID: "c", Function: schema.FunctionCall{Name: "t0", Arguments: "x"}}}})
		chunking = append(chunking, 0)
	}
	mdl := &c18Model{script: script, chunking: chunking}
	maxStep := vrange("maxStep", 2, 6)
	ag, err := NewAgent(ctx, &AgentConfig{ToolCallingModel: mdl, MaxStep: maxStep,
		ToolsConfig: compose.ToolsNodeConfig{Tools: []tool.BaseTool{&c18Tool{"t0", &runs}}}})
	vassert(err == nil, "agent is created")
	g, opts := ag.ExportGraph()
	parent := compose.NewGraph[[]*schema.Message, *schema.Message]()
	vassert(parent.AddGraphNode("agent", g, opts...) == nil, "agent graph added to a parent graph")
	_ = parent.AddEdge(compose.START, "agent")
	_ = parent.AddEdge("agent", compose.END)
	r, err := parent.Compile(ctx)
	vassert(err == nil, "parent graph compiles")
	embedded := vchoose("embedded", 2) == 1
	var rerr error
	if embedded {
		_, rerr = r.Invoke(ctx, []*schema.Message{schema.UserMessage("q")})
	} else {
		_, rerr = ag.Generate(ctx, []*schema.Message{schema.UserMessage("q")})
	}
	vassert(rerr != nil && errors.Is(rerr, compose.ErrExceedMaxSteps), "a runaway model is stopped by the step-limit error, also when the agent runs as a node of another graph")
	vassert(mdl.calls <= (maxStep+1)/2, "the configured step limit is the one enforced: no more model calls than it allows")
}

// return-directly also applies when the agent has no statically configured tool: the tool is answered by the
// unknown-tool handler (or supplied per call); after it ran the agent returns its result without another model call
func VerifC18DirectNoStaticTools() {
	ctx := context.Background()
	vcfg("fifo", 1)
	vcfg("selectfirst", 1)
	ix := 0
	script := []*schema.Message{
		{Role: schema.Assistant, Content: "call", ToolCalls: []schema.ToolCall{{Index: &ix, ID: "c1", Function: schema.FunctionCall{Name: "finish", Arguments: "x"}}}},
		{Role: schema.Assistant, Content: "should not be asked"},
	}
	mdl := &c18Model{script: script, chunking: []int{0, 0}}
	perCall := vchoose("perCall", 2) == 1
	var runs []string
	cfg := &AgentConfig{ToolCallingModel: mdl, MaxStep: 6, ToolReturnDirectly: map[string]struct{}{"finish": {}}}
	if !perCall {
		cfg.ToolsConfig = compose.ToolsNodeConfig{UnknownToolsHandler: func(ctx context.Context, name, input string) (string, error) {
			return "handled:" + name + "(" + input + ")", nil
		}}
	}
	ag, err := NewAgent(ctx, cfg)
	vassert(err == nil, "an agent without static tools is created")
	var opts []agent.AgentOption
	want := "handled:finish(x)"
	if perCall {
		opts = append(opts, agent.WithComposeOptions(compose.WithToolsNodeOption(compose.WithToolList(&c18Tool{"finish", &runs}))))
		want = "r_finish(x)"
	}
	var out *schema.Message
	var rerr error
	if vchoose("stream", 2) == 1 {
		sr, e := ag.Stream(ctx, []*schema.Message{schema.UserMessage("q")}, opts...)
		rerr = e
		if e == nil {
			var chunks []*schema.Message
			for i := 0; i < 8; i++ {
				c, e := sr.Recv()
				if e != nil {
					break
				}
				chunks = append(chunks, c)
			}
			sr.Close()
			out, rerr = schema.ConcatMessages(chunks)
		}
	} else {
		out, rerr = ag.Generate(ctx, []*schema.Message{schema.UserMessage("q")}, opts...)
	}
	vassert(rerr == nil && out != nil, "the run succeeds")
	vassert(out.Content == want && mdl.calls == 1, "the result of the return-directly tool is the answer, without another model call")
}

// Call ids are whatever the model produced: empty (some providers give none) or repeated. One assistant message with
// two calls, ids drawn from {"", "c1"} independently; the answer is the result of the first call whose tool is marked
// return-directly, and the model is not asked again.
func VerifC18CallIDs() {
	ctx := context.Background()
	vcfg("fifo", 1)
	vcfg("selectfirst", 1)
	ids := []string{"", "c1"}
	names := []string{"t0", "t1"}
	i0, i1 := 0, 1
	n0, n1 := names[vchoose("tool0", 2)], names[vchoose("tool1", 2)]
	id0, id1 := ids[vchoose("id0", 2)], ids[vchoose("id1", 2)]
	script := []*schema.Message{
		{Role: schema.Assistant, Content: "call", ToolCalls: []schema.ToolCall{
			{Index: &i0, ID: id0, Function: schema.FunctionCall{Name: n0, Arguments: "x"}},
			{Index: &i1, ID: id1, Function: schema.FunctionCall{Name: n1, Arguments: "y"}}}},
		{Role: schema.Assistant, Content: "final"},
	}
	mdl := &c18Model{script: script, chunking: []int{vchoose("chunking", 3), 0}}
	direct := map[string]struct{}{names[vchoose("direct", 2)]: {}}
	var runs []string
	ag, err := NewAgent(ctx, &AgentConfig{ToolCallingModel: mdl, MaxStep: 8, ToolReturnDirectly: direct,
		ToolsConfig: compose.ToolsNodeConfig{Tools: []tool.BaseTool{&c18Tool{"t0", &runs}, &c18StreamTool{"t1", &runs}}}})
	vassert(err == nil, "agent is created")
	want, wantCalls := "final", 2
	if _, ok := direct[n0]; ok {
		want, wantCalls = c18Out(n0, "x"), 1
	} else if _, ok := direct[n1]; ok {
		want, wantCalls = c18Out(n1, "y"), 1
	}
	var out *schema.Message
	var rerr error
	if vchoose("stream", 2) == 1 {
		sr, e := ag.Stream(ctx, []*schema.Message{schema.UserMessage("q")})
		rerr = e
		if e == nil {
			var chunks []*schema.Message
			for i := 0; i < 8; i++ {
				c, e := sr.Recv()
				if e != nil {
					break
				}
				chunks = append(chunks, c)
			}
			sr.Close()
			out, rerr = schema.ConcatMessages(chunks)
		}
	} else {
		out, rerr = ag.Generate(ctx, []*schema.Message{schema.UserMessage("q")})
	}
	vassert(rerr == nil && out != nil, "the run succeeds whatever the call ids are")
	vassert(mdl.calls == wantCalls, "a call to a return-directly tool ends the run without another model call, whatever its id")
	vassert(out.Content == want, "the answer is the result of the first return-directly call (or the final assistant message)")
}

// A MessageModifier that edits the slice it is given in place (replaces the first message by a prefixed copy, drops
// tool messages with empty content by compacting the slice): every model call sees modifier(history so far) - the
// edits of one round never leak into the history the next round starts from.
func VerifC18Modifier() {
	ctx := context.Background()
	vcfg("fifo", 1)
	vcfg("selectfirst", 1)
	i0 := 0
	script := []*schema.Message{
		{Role: schema.Assistant, Content: "call1", ToolCalls: []schema.ToolCall{{Index: &i0, ID: "c1", Function: schema.FunctionCall{Name: "t0", Arguments: "x"}}}},
		{Role: schema.Assistant, Content: "call2", ToolCalls: []schema.ToolCall{{Index: &i0, ID: "c2", Function: schema.FunctionCall{Name: "t0", Arguments: "y"}}}},
		{Role: schema.Assistant, Content: "done"},
	}
	mdl := &c18Model{script: script, chunking: []int{0, 0, 0}}
	style := vchoose("style", 2)
	modifier := func(ctx context.Context, in []*schema.Message) []*schema.Message {
		if style == 0 { // persona prefix written into the first slot
			in[0] = &schema.Message{Role: in[0].Role, Content: "P:" + in[0].Content}
			return in
		}
		out := in[:0] // filter idiom: keep everything but assistant messages, compacting in place
		for _, m := range in {
			if m.Role != schema.Assistant {
				out = append(out, m)
			}
		}
		return out
	}
	var runs []string
	ag, err := NewAgent(ctx, &AgentConfig{ToolCallingModel: mdl, MaxStep: 10, MessageModifier: modifier,
		ToolsConfig: compose.ToolsNodeConfig{Tools: []tool.BaseTool{&c18Tool{"t0", &runs}}}})
	vassert(err == nil, "agent is created")
	var out *schema.Message
	var rerr error
	if vchoose("stream", 2) == 1 {
		sr, e := ag.Stream(ctx, []*schema.Message{schema.UserMessage("q")})
		rerr = e
		if e == nil {
			var chunks []*schema.Message
			for i := 0; i < 8; i++ {
				c, e := sr.Recv()
				if e != nil {
					break
				}
				chunks = append(chunks, c)
			}
			sr.Close()
			out, rerr = schema.ConcatMessages(chunks)
		}
	} else {
		out, rerr = ag.Generate(ctx, []*schema.Message{schema.UserMessage("q")})
	}
	vassert(rerr == nil && out != nil && out.Content == "done", "the agent answers")
	vassert(len(mdl.seen) == 3, "the model is asked three times")
	if len(mdl.seen) != 3 {
		return
	}
	r1, r2 := c18Out("t0", "x"), c18Out("t0", "y")
	var want [][]c18Msg
	if style == 0 {
		u := c18Msg{role: schema.User, content: "P:q"}
		a1 := c18Snap(script[0])
		a2 := c18Snap(script[1])
		want = [][]c18Msg{{u}, {u, a1, {role: schema.Tool, content: r1, tcID: "c1"}},
			{u, a1, {role: schema.Tool, content: r1, tcID: "c1"}, a2, {role: schema.Tool, content: r2, tcID: "c2"}}}
	} else {
		u := c18Msg{role: schema.User, content: "q"}
		want = [][]c18Msg{{u}, {u, {role: schema.Tool, content: r1, tcID: "c1"}},
			{u, {role: schema.Tool, content: r1, tcID: "c1"}, {role: schema.Tool, content: r2, tcID: "c2"}}}
	}
	for k := range want {
		vassert(len(mdl.seen[k]) == len(want[k]), "every model call sees the modifier applied to the history so far, once (length)")
		for i := range want[k] {
			if i < len(mdl.seen[k]) {
				vassert(c18Eq(mdl.seen[k][i], want[k][i]), "every model call sees the modifier applied to the history so far, once (content)")
			}
		}
	}
}
