package react

import (
	"context"
	"io"

	"github.com/cloudwego/eino/components/tool"
	"github.com/cloudwego/eino/compose"
	"github.com/cloudwego/eino/schema"
)

// C05 / C06 for the bundled ReAct agent: embedded in a graph that has a checkpoint store, with an interrupt before
// (or after) its tools node. The run is interrupted with extractable information, a checkpoint is written, and the
// resumed run returns what the uninterrupted run returns, with every tool executed once.

type c05rStore struct {
	m    map[string][]byte
	sets int
}

func (s *c05rStore) Get(ctx context.Context, id string) ([]byte, bool, error) {
	b, ok := s.m[id]
	if !ok {
		return nil, false, nil
	}
	return append([]byte{}, b...), true, nil
}
func (s *c05rStore) Set(ctx context.Context, id string, b []byte) error {
	s.sets++
	s.m[id] = append([]byte{}, b...)
	return nil
}

func VerifC05ReactCheckpoint() {
	ctx := context.Background()
	vcfg("fifo", 1)
	vcfg("selectfirst", 1)
	before := vchoose("before", 2) == 1
	build := func(interrupt bool, store compose.CheckPointStore, runs *[]string) (compose.Runnable[[]*schema.Message, *schema.Message], *c18Model) {
		ix := 0
		mdl := &c18Model{script: []*schema.Message{
			{Role: schema.Assistant, Content: "call", ToolCalls: []schema.ToolCall{{Index: &ix, ID: "c1", Function: schema.FunctionCall{Name: "t0", Arguments: "x"}}}},
			{Role: schema.Assistant, Content: "done"},
		}, chunking: []int{0, 0}}
		ag, err := NewAgent(ctx, &AgentConfig{ToolCallingModel: mdl, MaxStep: 8,
			ToolsConfig: compose.ToolsNodeConfig{Tools: []tool.BaseTool{&c18Tool{"t0", runs}}}})
		vassert(err == nil, "agent is created")
		g, opts := ag.ExportGraph()
		if interrupt {
			if before {
				opts = append(opts, compose.WithGraphCompileOptions(compose.WithInterruptBeforeNodes([]string{"tools"})))
			} else {
				opts = append(opts, compose.WithGraphCompileOptions(compose.WithInterruptAfterNodes([]string{"tools"})))
			}
		}
		parent := compose.NewGraph[[]*schema.Message, *schema.Message]()
		vassert(parent.AddGraphNode("agent", g, opts...) == nil, "agent graph added")
		_ = parent.AddEdge(compose.START, "agent")
		_ = parent.AddEdge("agent", compose.END)
		var copts []compose.GraphCompileOption
		if store != nil {
			copts = append(copts, compose.WithCheckPointStore(store))
		}
		r, err := parent.Compile(ctx, copts...)
		vassert(err == nil, "parent graph compiles")
		return r, mdl
	}
	in := []*schema.Message{schema.UserMessage("q")}
	call := func(r compose.Runnable[[]*schema.Message, *schema.Message], stream bool, opts ...compose.Option) (string, error) {
		if !stream {
			m, err := r.Invoke(ctx, in, opts...)
			if err != nil {
				return "", err
			}
			return m.Content, nil
		}
		sr, err := r.Stream(ctx, in, opts...)
		if err != nil {
			return "", err
		}
		defer sr.Close()
		out := ""
		for i := 0; i < 8; i++ {
			c, err := sr.Recv()
			if err == io.EOF {
				break
			}
			if err != nil {
				return "", err
			}
			out += c.Content
		}
		return out, nil
	}
	var runsU []string
	ru, _ := build(false, nil, &runsU)
	want, werr := call(ru, false)
	vassert(werr == nil && want == "done", "the uninterrupted agent answers")
	store := &c05rStore{m: map[string][]byte{}}
	var runs []string
	ri, mdl := build(true, store, &runs)
	_, e1 := call(ri, vchoose("firstStream", 2) == 1, compose.WithCheckPointID("cp"))
	_, ok := compose.ExtractInterruptInfo(e1)
	vassert(ok, "the agent under a checkpoint store is interrupted at its tools node, with extractable information")
	if !ok {
		return
	}
	vassert(store.sets == 1, "a checkpoint is written under the id when the interrupt is returned")
	out, e2 := call(ri, vchoose("secondStream", 2) == 1, compose.WithCheckPointID("cp"))
	vassert(e2 == nil, "the resumed agent completes")
	vassert(out == want, "the resumed agent returns the answer of the uninterrupted run")
	vassert(len(runs) == 1 && mdl.calls == 2, "the tool ran once and the model was asked twice over both calls")
}

type c05rAskTool struct {
	attempts *int
}

func (t *c05rAskTool) Info(ctx context.Context) (*schema.ToolInfo, error) {
	return &schema.ToolInfo{Name: "t0"}, nil
}
func (t *c05rAskTool) InvokableRun(ctx context.Context, args string, opts ...tool.Option) (string, error) {
	*t.attempts++
	if *t.attempts == 1 {
		return "", compose.InterruptAndRerun
	}
	return c18Out("t0", args), nil
}

// A tool of the ReAct agent asks for interrupt-and-rerun (human approval): the run is interrupted with extractable
// information, and the resumed run - the tools node is given the assistant message again - answers like a run whose
// tool did not ask.
func VerifC05ReactToolRerun() {
	ctx := context.Background()
	vcfg("fifo", 1)
	vcfg("selectfirst", 1)
	ix := 0
	mdl := &c18Model{script: []*schema.Message{
		{Role: schema.Assistant, Content: "call", ToolCalls: []schema.ToolCall{{Index: &ix, ID: "c1", Function: schema.FunctionCall{Name: "t0", Arguments: "x"}}}},
		{Role: schema.Assistant, Content: "done"},
	}, chunking: []int{0, 0}}
	attempts := 0
	ag, err := NewAgent(ctx, &AgentConfig{ToolCallingModel: mdl, MaxStep: 8,
		ToolsConfig: compose.ToolsNodeConfig{Tools: []tool.BaseTool{&c05rAskTool{&attempts}}}})
	vassert(err == nil, "agent is created")
	g, opts := ag.ExportGraph()
	parent := compose.NewGraph[[]*schema.Message, *schema.Message]()
	vassert(parent.AddGraphNode("agent", g, opts...) == nil, "agent graph added")
	_ = parent.AddEdge(compose.START, "agent")
	_ = parent.AddEdge("agent", compose.END)
	store := &c05rStore{m: map[string][]byte{}}
	r, err := parent.Compile(ctx, compose.WithCheckPointStore(store))
	vassert(err == nil, "parent graph compiles")
	in := []*schema.Message{schema.UserMessage("q")}
	_, e1 := r.Invoke(ctx, in, compose.WithCheckPointID("cp"))
	_, ok := compose.ExtractInterruptInfo(e1)
	vassert(ok, "a tool asking for a rerun interrupts the agent with extractable information")
	if !ok {
		return
	}
	out, e2 := r.Invoke(ctx, in, compose.WithCheckPointID("cp"))
	vassert(e2 == nil && out != nil && out.Content == "done", "the resumed agent completes with the answer of the uninterrupted run")
	vassert(attempts == 2 && mdl.calls == 2, "the tool ran once more after the resume and the model was asked twice in all")
	if len(mdl.seen) == 2 {
		vassert(len(mdl.seen[1]) == 3 && mdl.seen[1][2].content == c18Out("t0", "x"), "the second model call sees the user message, the assistant message and the tool result, once each")
	}
}
