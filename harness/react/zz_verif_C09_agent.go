package react

import (
	"context"
	"sync"

	"github.com/cloudwego/eino/components/model"
	"github.com/cloudwego/eino/components/tool"
	"github.com/cloudwego/eino/compose"
	"github.com/cloudwego/eino/schema"
)

// C09 (agent part): one ReAct agent used by two callers at once: each conversation stays its own, no data race.

// a stateless scripted model: the answer depends only on the history it is given
type c09Model struct{ yield bool }

func (m *c09Model) WithTools(tools []*schema.ToolInfo) (model.ToolCallingChatModel, error) {
	return m, nil
}

func (m *c09Model) answer(input []*schema.Message) *schema.Message {
	if m.yield {
		vyield()
	}
	who := input[0].Content // the user message names the conversation
	if len(input) == 1 {
		ix := 0
		return &schema.Message{Role: schema.Assistant, Content: "think-" + who,
			ToolCalls: []schema.ToolCall{{Index: &ix, ID: "call-" + who, Function: schema.FunctionCall{Name: "t0", Arguments: who}}}}
	}
	// final answer: echoes every message of the history it saw
	all := ""
	for _, x := range input {
		all += x.Content + "|"
	}
	return &schema.Message{Role: schema.Assistant, Content: "final:" + all}
}

func (m *c09Model) Generate(ctx context.Context, input []*schema.Message, opts ...model.Option) (*schema.Message, error) {
	return m.answer(input), nil
}
func (m *c09Model) Stream(ctx context.Context, input []*schema.Message, opts ...model.Option) (*schema.StreamReader[*schema.Message], error) {
	return schema.StreamReaderFromArray([]*schema.Message{m.answer(input)}), nil
}

type c09Tool struct{ name string }

func (t *c09Tool) Info(ctx context.Context) (*schema.ToolInfo, error) {
	return &schema.ToolInfo{Name: t.name}, nil
}
func (t *c09Tool) InvokableRun(ctx context.Context, args string, opts ...tool.Option) (string, error) {
	vyield()
	return "r(" + args + ")", nil
}

func c09Agent(direct bool, spareInput bool) { c09AgentS(direct, spareInput, false) }

// shared: both callers pass the very same input slice (read-only for the framework)
func c09AgentS(direct bool, spareInput bool, shared bool) {
	ctx := context.Background()
	vcfg("delaybound", 1+vtier())
	vcfg("race", 1)
	vcfg("selectfirst", 1)
	cfg := &AgentConfig{ToolCallingModel: &c09Model{yield: true}, MaxStep: 6,
		ToolsConfig: compose.ToolsNodeConfig{Tools: []tool.BaseTool{&c09Tool{"t0"}}}}
	if direct {
		cfg.ToolReturnDirectly = map[string]struct{}{"t0": {}}
	}
	ag, err := NewAgent(ctx, cfg)
	vassert(err == nil, "agent is created")
	sharedIn := append(make([]*schema.Message, 0, 8), schema.UserMessage("A"))
	mkInput := func(who string) []*schema.Message {
		if shared {
			return sharedIn
		}
		if spareInput {
			in := make([]*schema.Message, 0, 8) // a conversation buffer with spare capacity
			return append(in, schema.UserMessage(who))
		}
		return []*schema.Message{schema.UserMessage(who)}
	}
	want := func(who string) string {
		if direct {
			return "r(" + who + ")"
		}
		return "final:" + who + "|think-" + who + "|r(" + who + ")|"
	}
	var o2 *schema.Message
	var e2 error
	useStream := vchoose("stream", 2) == 1
	call := func(who string) (*schema.Message, error) {
		if useStream {
			sr, e := ag.Stream(ctx, mkInput(who))
			if e != nil {
				return nil, e
			}
			var chunks []*schema.Message
			for i := 0; i < 8; i++ {
				c, e := sr.Recv()
				if e != nil {
					break
				}
				chunks = append(chunks, c)
			}
			sr.Close()
			return schema.ConcatMessages(chunks)
		}
		return ag.Generate(ctx, mkInput(who))
	}
	second := "B"
	if shared {
		second = "A"
	}
	go func() { o2, e2 = call(second) }()
	o1, e1 := call("A")
	vquiesce()
	vassert(e1 == nil && e2 == nil, "both concurrent agent runs succeed")
	vassert(o1 != nil && o1.Content == want("A"), "run A answers from its own conversation only")
	vassert(o2 != nil && o2.Content == want(second), "run B answers from its own conversation only")
	if shared {
		vassert(len(sharedIn) == 1 && sharedIn[0].Content == "A", "the caller's input slice is not modified")
	}
}

func VerifC09Agent()            { c09Agent(false, vchoose("spare", 2) == 1) }
func VerifC09AgentDirect()      { c09Agent(true, false) }
func VerifC09AgentSharedInput() { c09AgentS(false, true, true) }

type c09CtxKey struct{}

var c09Mu sync.Mutex

// the per-run context reaches every user-supplied hook: a custom StreamToolCallChecker sees the context of the run
// that calls it (two overlapping runs with different context values), not the one the agent was built with
func VerifC09AgentRunContext() {
	base := context.Background()
	vcfg("delaybound", 1)
	vcfg("race", 1)
	vcfg("selectfirst", 1)
	seen := map[string]string{}
	cfg := &AgentConfig{ToolCallingModel: &c09Model{yield: true}, MaxStep: 6,
		ToolsConfig: compose.ToolsNodeConfig{Tools: []tool.BaseTool{&c09Tool{"t0"}}},
		StreamToolCallChecker: func(ctx context.Context, sr *schema.StreamReader[*schema.Message]) (bool, error) {
			defer sr.Close()
			who, _ := ctx.Value(c09CtxKey{}).(string)
			msg, err := sr.Recv()
			if err != nil {
				return false, nil
			}
			c09Mu.Lock()
			seen[msg.Content] = who
			c09Mu.Unlock()
			return len(msg.ToolCalls) > 0, nil
		}}
	ag, err := NewAgent(context.WithValue(base, c09CtxKey{}, "constructor"), cfg)
	vassert(err == nil, "agent is created")
	call := func(who string) error {
		ctx := context.WithValue(base, c09CtxKey{}, who)
		sr, e := ag.Stream(ctx, []*schema.Message{schema.UserMessage(who)})
		if e != nil {
			return e
		}
		for i := 0; i < 8; i++ {
			if _, e := sr.Recv(); e != nil {
				break
			}
		}
		sr.Close()
		return nil
	}
	var e2 error
	go func() { e2 = call("B") }()
	e1 := call("A")
	vquiesce()
	vassert(e1 == nil && e2 == nil, "both runs succeed")
	vassert(seen["think-A"] == "A" && seen["think-B"] == "B", "the tool-call checker is called with the context of the run it serves")
}
