package react

import (
	"context"

	"github.com/cloudwego/eino/components/model"
	"github.com/cloudwego/eino/components/tool"
	"github.com/cloudwego/eino/compose"
	"github.com/cloudwego/eino/flow/agent"
	"github.com/cloudwego/eino/schema"
)

// C19 for the bundled ReAct agent: the chat model streams its final answer from its own producer goroutine; the caller
// reads the agent's answer stream to the end or closes it early, with or without react.WithMessageFuture (whose
// handler receives copies of the graph's input and output streams) and closes every stream the future hands out.
// Afterwards no producer is left blocked.

type c19Model struct{ k int }

func (m *c19Model) WithTools(tools []*schema.ToolInfo) (model.ToolCallingChatModel, error) {
	return m, nil
}
func (m *c19Model) Generate(ctx context.Context, in []*schema.Message, opts ...model.Option) (*schema.Message, error) {
	return &schema.Message{Role: schema.Assistant, Content: "a"}, nil
}
func (m *c19Model) Stream(ctx context.Context, in []*schema.Message, opts ...model.Option) (*schema.StreamReader[*schema.Message], error) {
	sr, sw := schema.Pipe[*schema.Message](0)
	go func() {
		defer sw.Close()
		for i := 0; i < m.k; i++ {
			if sw.Send(&schema.Message{Role: schema.Assistant, Content: "c"}, nil) {
				return
			}
		}
	}()
	return sr, nil
}

func VerifC19ReactFuture() {
	ctx := context.Background()
	vcfg("preempt", 0)
	vcfg("selectfirst", 1)
	K := 3
	var runs []string
	ag, err := NewAgent(ctx, &AgentConfig{ToolCallingModel: &c19Model{K}, MaxStep: 6,
		ToolsConfig: compose.ToolsNodeConfig{Tools: []tool.BaseTool{&c18Tool{"t0", &runs}}}})
	vassert(err == nil, "agent is created")
	var opts []agent.AgentOption
	var future MessageFuture
	if vchoose("future", 2) == 1 {
		var o agent.AgentOption
		o, future = WithMessageFuture()
		opts = append(opts, o)
	}
	sr, err := ag.Stream(ctx, []*schema.Message{schema.UserMessage("q")}, opts...)
	vassert(err == nil, "the streaming run starts")
	if future != nil { // close every message stream the future hands out
		iter := future.GetMessageStreams()
		for i := 0; i < 4; i++ {
			s, ok, _ := iter.Next()
			if !ok {
				break
			}
			if s != nil {
				s.Close()
			}
		}
	}
	readN := vchoose("readN", K+2)
	for i := 0; i < readN; i++ {
		if _, e := sr.Recv(); e != nil {
			break
		}
	}
	sr.Close()
	vquiesce()
}
