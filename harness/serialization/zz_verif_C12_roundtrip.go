package serialization

import "github.com/cloudwego/eino/schema"

// C12: checkpoint serialisation round-trips every supported value or fails loudly.

type c12Named int
type c12NamedStr string

type c12Inner struct {
	X int
	S string
}

type c12Struct struct {
	A     int
	B     string
	C     bool
	N     c12Named
	P     *int
	L     []int
	M     map[string]int
	I     any
	In    c12Inner
	PIn   *c12Inner
	LP    []*c12Inner
	MA    map[string]any
	unexp int
}

// a registered struct used as map key; its JSON form drops empty members
type c12Key struct {
	A string `json:"a,omitempty"`
	B int    `json:"b,omitempty"`
}

type c12PP struct {
	PP **int
	Q  *int
}

func c12Reg() {
	_ = GenericRegister[c12Named]("c12_named")
	_ = GenericRegister[c12NamedStr]("c12_named_str")
	_ = GenericRegister[c12Inner]("c12_inner")
	_ = GenericRegister[c12Struct]("c12_struct")
	_ = GenericRegister[c12PP]("c12_pp")
	_ = GenericRegister[c12Key]("c12_key")
}

func c12Round(v any) (any, error) {
	b, err := Marshal(v)
	if err != nil {
		return nil, err
	}
	// the store only keeps bytes
	c := make([]byte, len(b))
	copy(c, b)
	return Unmarshal(c)
}

func c12IntPtrEq(a, b *int) bool {
	if a == nil || b == nil {
		return a == b
	}
	return *a == *b
}

func c12InnerPtrEq(a, b *c12Inner) bool {
	if a == nil || b == nil {
		return a == b
	}
	return *a == *b
}

// equality on the universe, nil and empty containers being equal, dynamic types identical
func c12Eq(a, b any) bool {
	switch x := a.(type) {
	case nil:
		return b == nil
	case int:
		y, ok := b.(int)
		return ok && x == y
	case int8:
		y, ok := b.(int8)
		return ok && x == y
	case uint16:
		y, ok := b.(uint16)
		return ok && x == y
	case int64:
		y, ok := b.(int64)
		return ok && x == y
	case string:
		y, ok := b.(string)
		return ok && x == y
	case bool:
		y, ok := b.(bool)
		return ok && x == y
	case c12Named:
		y, ok := b.(c12Named)
		return ok && x == y
	case c12NamedStr:
		y, ok := b.(c12NamedStr)
		return ok && x == y
	case *int:
		y, ok := b.(*int)
		return ok && c12IntPtrEq(x, y)
	case **int:
		y, ok := b.(**int)
		if !ok {
			return false
		}
		if x == nil || y == nil {
			return x == nil && y == nil
		}
		return c12IntPtrEq(*x, *y)
	case []int:
		y, ok := b.([]int)
		if !ok || len(x) != len(y) {
			return false
		}
		for i := range x {
			if x[i] != y[i] {
				return false
			}
		}
		return true
	case []*int:
		y, ok := b.([]*int)
		if !ok || len(x) != len(y) {
			return false
		}
		for i := range x {
			if !c12IntPtrEq(x[i], y[i]) {
				return false
			}
		}
		return true
	case []any:
		y, ok := b.([]any)
		if !ok || len(x) != len(y) {
			return false
		}
		for i := range x {
			if !c12Eq(x[i], y[i]) {
				return false
			}
		}
		return true
	case map[string]int:
		y, ok := b.(map[string]int)
		if !ok || len(x) != len(y) {
			return false
		}
		for k, v := range x {
			w, ok := y[k]
			if !ok || v != w {
				return false
			}
		}
		return true
	case map[int]string:
		y, ok := b.(map[int]string)
		if !ok || len(x) != len(y) {
			return false
		}
		for k, v := range x {
			w, ok := y[k]
			if !ok || v != w {
				return false
			}
		}
		return true
	case map[c12Named]int:
		y, ok := b.(map[c12Named]int)
		if !ok || len(x) != len(y) {
			return false
		}
		for k, v := range x {
			w, ok := y[k]
			if !ok || v != w {
				return false
			}
		}
		return true
	case map[c12NamedStr]int:
		y, ok := b.(map[c12NamedStr]int)
		if !ok || len(x) != len(y) {
			return false
		}
		for k, v := range x {
			w, ok := y[k]
			if !ok || v != w {
				return false
			}
		}
		return true
	case map[string]*int:
		y, ok := b.(map[string]*int)
		if !ok || len(x) != len(y) {
			return false
		}
		for k, v := range x {
			w, ok := y[k]
			if !ok || !c12IntPtrEq(v, w) {
				return false
			}
		}
		return true
	case map[c12Key]int:
		y, ok := b.(map[c12Key]int)
		if !ok || len(x) != len(y) {
			return false
		}
		for k, v := range x {
			w, ok := y[k]
			if !ok || v != w {
				return false
			}
		}
		return true
	case map[string]any:
		y, ok := b.(map[string]any)
		if !ok || len(x) != len(y) {
			return false
		}
		for k, v := range x {
			w, ok := y[k]
			if !ok || !c12Eq(v, w) {
				return false
			}
		}
		return true
	case c12Inner:
		y, ok := b.(c12Inner)
		return ok && x == y
	case *c12Inner:
		y, ok := b.(*c12Inner)
		return ok && c12InnerPtrEq(x, y)
	case c12Struct:
		y, ok := b.(c12Struct)
		return ok && c12StructEq(&x, &y)
	case *c12Struct:
		y, ok := b.(*c12Struct)
		if !ok {
			return false
		}
		if x == nil || y == nil {
			return x == nil && y == nil
		}
		return c12StructEq(x, y)
	case c12PP:
		y, ok := b.(c12PP)
		return ok && c12Eq(x.PP, y.PP) && c12IntPtrEq(x.Q, y.Q)
	}
	return false
}

func c12StructEq(x, y *c12Struct) bool {
	if x.A != y.A || x.B != y.B || x.C != y.C || x.N != y.N {
		return false
	}
	if !c12IntPtrEq(x.P, y.P) || !c12Eq(x.L, y.L) || !c12Eq(x.M, y.M) || !c12Eq(x.I, y.I) {
		return false
	}
	if x.In != y.In || !c12InnerPtrEq(x.PIn, y.PIn) || len(x.LP) != len(y.LP) {
		return false
	}
	for i := range x.LP {
		if !c12InnerPtrEq(x.LP[i], y.LP[i]) {
			return false
		}
	}
	return c12Eq(x.MA, y.MA)
}

func c12Check(v any, what string) {
	r, err := c12Round(v)
	if err != nil {
		return // failing loudly is allowed
	}
	vassert(c12Eq(v, r), what+": deserialised value is deeply equal to the serialised one, with the identical dynamic type")
}

func c12IntP(name string) *int {
	if vchoose(name+"_nil", 2) == 1 {
		return nil
	}
	x := vsymInt(name)
	return &x
}

func VerifC12Basic() {
	c12Reg()
	switch vchoose("kind", 8) {
	case 0:
		c12Check(vsymInt("i"), "int")
	case 1:
		c12Check(int8(vsymInt("i")), "int8")
	case 2:
		c12Check(uint16(vsymInt("i")), "uint16")
	case 3:
		c12Check(int64(vsymInt("i")), "int64")
	case 4:
		c12Check(vsymStr("s"), "string")
	case 5:
		c12Check(vsymBool("b"), "bool")
	case 6:
		c12Check(c12Named(vsymInt("i")), "named int")
	case 7:
		c12Check(c12NamedStr(vsymStr("s")), "named string")
	}
}

func VerifC12Pointers() {
	c12Reg()
	switch vchoose("shape", 3) {
	case 0:
		c12Check(c12IntP("p"), "*int")
	case 1:
		var pp **int
		if vchoose("outer_nil", 2) == 0 {
			p := c12IntP("inner")
			pp = &p
		}
		c12Check(pp, "**int")
	case 2:
		var s c12PP
		if vchoose("outer_nil", 2) == 0 {
			p := c12IntP("inner")
			s.PP = &p
		}
		s.Q = c12IntP("q")
		c12Check(s, "struct with **int field")
	}
}

func VerifC12Slices() {
	c12Reg()
	n := vrange("n", 0, 2)
	switch vchoose("shape", 3) {
	case 0:
		var l []int
		if vchoose("nil", 2) == 0 {
			l = []int{}
		}
		for i := 0; i < n; i++ {
			l = append(l, vsymInt("e"))
		}
		c12Check(l, "[]int")
	case 1:
		var l []*int
		for i := 0; i < n; i++ {
			l = append(l, c12IntP("e"))
		}
		c12Check(l, "[]*int")
	case 2:
		var l []any
		for i := 0; i < n; i++ {
			switch vchoose("dyn", 4) {
			case 0:
				l = append(l, vsymInt("e"))
			case 1:
				l = append(l, vsymStr("s"))
			case 2:
				l = append(l, nil)
			case 3:
				l = append(l, c12Inner{X: vsymInt("x"), S: "in"})
			}
		}
		c12Check(l, "[]any")
	}
}

func VerifC12Maps() {
	c12Reg()
	n := vrange("n", 0, 2)
	keys := []string{"k1", "k2"}
	switch vchoose("shape", 6) {
	case 5: // keys of a named string type (schema.RoleType is one)
		m := map[c12NamedStr]int{}
		for i := 0; i < n; i++ {
			m[c12NamedStr(keys[i])] = vsymInt("v")
		}
		c12Check(m, "map[named string]int")
	case 0:
		var m map[string]int
		if vchoose("nil", 2) == 0 {
			m = map[string]int{}
		}
		for i := 0; i < n && m != nil; i++ {
			m[keys[i]] = vsymInt("v")
		}
		c12Check(m, "map[string]int")
	case 1:
		m := map[int]string{}
		for i := 0; i < n; i++ {
			m[i+1] = vsymStr("v")
		}
		c12Check(m, "map[int]string")
	case 2:
		m := map[c12Named]int{}
		for i := 0; i < n; i++ {
			m[c12Named(i+5)] = vsymInt("v")
		}
		c12Check(m, "map[named]int")
	case 3:
		m := map[string]*int{}
		for i := 0; i < n; i++ {
			m[keys[i]] = c12IntP("v")
		}
		c12Check(m, "map[string]*int")
	case 4:
		m := map[string]any{}
		for i := 0; i < n; i++ {
			switch vchoose("dyn", 4) {
			case 0:
				m[keys[i]] = vsymInt("v")
			case 1:
				m[keys[i]] = nil
			case 2:
				m[keys[i]] = map[string]any{"n": vsymStr("s")}
			case 3:
				m[keys[i]] = []int{vsymInt("e")}
			}
		}
		c12Check(m, "map[string]any")
	}
}

// maps keyed by a struct whose JSON form omits empty members
func VerifC12StructKeys() {
	c12Reg()
	vcfg("maporder", 1)
	m := map[c12Key]int{}
	m[c12Key{A: "x"}] = vsymInt("v1")
	m[c12Key{B: 7}] = vsymInt("v2")
	if vchoose("third", 2) == 1 {
		m[c12Key{A: "y", B: 8}] = vsymInt("v3")
	}
	c12Check(m, "map[struct]int")
}

func VerifC12Struct() {
	c12Reg()
	s := c12Struct{A: vsymInt("a"), B: vsymStr("b"), C: vsymBool("c"), N: c12Named(vsymInt("n")), unexp: 0}
	s.P = c12IntP("p")
	if vchoose("l", 2) == 1 {
		s.L = []int{vsymInt("l0")}
	}
	if vchoose("m", 2) == 1 {
		s.M = map[string]int{"k": vsymInt("m0")}
	}
	switch vchoose("i", 4) {
	case 1:
		s.I = vsymInt("i0")
	case 2:
		s.I = c12Inner{X: vsymInt("ix")}
	case 3:
		s.I = &c12Inner{X: vsymInt("ix")}
	}
	s.In = c12Inner{X: vsymInt("inx"), S: "s"}
	if vchoose("pin", 2) == 1 {
		s.PIn = &c12Inner{X: vsymInt("pinx")}
	}
	if vchoose("lp", 2) == 1 {
		s.LP = []*c12Inner{nil, {X: vsymInt("lpx")}}
	}
	if vchoose("ma", 2) == 1 {
		s.MA = map[string]any{"a": vsymInt("ma0"), "z": nil}
	}
	if vchoose("asptr", 2) == 1 {
		c12Check(&s, "*struct")
	} else {
		c12Check(s, "struct")
	}
}

// values the serialiser cannot represent must make Marshal fail, not come back different
type c12Unreg struct{ X int }

func VerifC12Unrepresentable() {
	c12Reg()
	var v any
	switch vchoose("where", 4) {
	case 0:
		v = c12Unreg{X: 1}
	case 1:
		v = map[string]any{"k": c12Unreg{X: 1}}
	case 2:
		v = []any{1, c12Unreg{X: 2}}
	case 3:
		v = c12Struct{I: c12Unreg{X: 3}}
	}
	_, err := c12Round(v)
	vassert(err != nil, "a value of an unregistered type makes the serialiser fail instead of being written silently")
}

// thorough tier: recursively built values in interface-typed positions, depth <= 2: leaves {symbolic int, symbolic
// string, named int, *int (nil / set), nil}; containers {[]any with 0-2 elements, map[string]any with one entry, a
// registered struct holding the child in an any field and in a map[string]any, a pointer to such a struct}
func c12Gen(d int) any {
	nk := 5
	if d > 0 {
		nk = 9
	}
	switch vchoose("kind", nk) {
	case 0:
		return vsymInt("i")
	case 1:
		return vsymStr("s")
	case 2:
		return c12Named(vsymInt("n"))
	case 3:
		if vchoose("nilp", 2) == 0 {
			return (*int)(nil)
		}
		x := vsymInt("p")
		return &x
	case 4:
		return nil
	case 5:
		n := vchoose("len", 3)
		l := make([]any, 0, n)
		for i := 0; i < n; i++ {
			l = append(l, c12Gen(d-1))
		}
		return l
	case 6:
		return map[string]any{"k": c12Gen(d - 1)}
	case 7:
		c := c12Gen(d - 1)
		return c12Struct{A: vsymInt("a"), I: c, MA: map[string]any{"m": c}}
	default:
		return &c12Struct{B: vsymStr("b"), I: c12Gen(d - 1)}
	}
}

func VerifC12Nested() {
	c12Reg()
	v := c12Gen(2)
	r, err := c12Round(v)
	if v == nil && err != nil {
		return // a bare nil at the top has no type to record: refusing it loudly is allowed
	}
	vassert(err == nil, "a value built from registered types only is serialised and read back without an error")
	vassert(c12Eq(v, r), "nested value in interface-typed positions: deserialised value is deeply equal to the serialised one, with the identical dynamic type")
}

var c12ClashDone = false

type c12V1 struct {
	ID string
	N  int
}
type c12V2 struct {
	ID string
	N  int
}

// two types registered under one name (the second registration is refused and its error ignored, as eino's own
// init code does): a value of the refused type either fails loudly or comes back as itself, never as the other type
func VerifC12NameClash() {
	c12Reg()
	if !c12ClashDone { // the registry is process-wide: register once per process
		e1 := GenericRegister[c12V1]("c12_order")
		e2 := GenericRegister[c12V2]("c12_order")
		vassert(e1 == nil && e2 != nil, "the second registration under a taken name is refused")
		c12ClashDone = true
	}
	n := vsymInt("n")
	var v any = c12V2{ID: "o", N: n}
	if vchoose("nested", 2) == 1 {
		v = map[string]any{"k": c12V2{ID: "o", N: n}}
	}
	r, err := c12Round(v)
	if err != nil {
		return // failing loudly is what the property asks for
	}
	if m, ok := r.(map[string]any); ok {
		r = m["k"]
	}
	got, ok := r.(c12V2)
	vassert(ok && got.N == n && got.ID == "o", "a value that is written comes back with the identical dynamic type")
}

type c12Names []string
type c12Tags map[string]int
type c12inner struct{ Y int }
type c12Emb struct {
	c12inner
	X int
}
type c12Arr struct{ A [2]int }

// shapes at the edge of the supported universe: pointers to slices and maps, named slice / map types, arrays, an
// embedded unexported struct: each either comes back deeply equal with the identical dynamic type, or Marshal /
// Unmarshal fails; a different value is never returned silently
func VerifC12EdgeShapes() {
	c12Reg()
	_ = GenericRegister[c12Names]("c12_names")
	_ = GenericRegister[c12Tags]("c12_tags")
	_ = GenericRegister[c12Emb]("c12_emb")
	_ = GenericRegister[c12Arr]("c12_arr")
	x := vsymInt("x")
	var v any
	var same func(r any) bool
	switch vchoose("shape", 8) {
	case 0:
		s := []int{x, 2}
		v = &s
		same = func(r any) bool { p, ok := r.(*[]int); return ok && p != nil && len(*p) == 2 && (*p)[0] == x }
	case 1:
		m := map[string]int{"k": x}
		v = &m
		same = func(r any) bool { p, ok := r.(*map[string]int); return ok && p != nil && (*p)["k"] == x }
	case 2:
		v = c12Names{"a", "b"}
		same = func(r any) bool { p, ok := r.(c12Names); return ok && len(p) == 2 && p[0] == "a" }
	case 3:
		v = c12Tags{"k": x}
		same = func(r any) bool { p, ok := r.(c12Tags); return ok && p["k"] == x }
	case 4:
		v = [2]int{x, 2}
		same = func(r any) bool { p, ok := r.([2]int); return ok && p[0] == x && p[1] == 2 }
	case 5:
		v = c12Arr{A: [2]int{x, 2}}
		same = func(r any) bool { p, ok := r.(c12Arr); return ok && p.A[0] == x }
	case 6:
		v = c12Emb{c12inner: c12inner{Y: x}, X: 1}
		same = func(r any) bool { p, ok := r.(c12Emb); return ok && p.Y == x && p.X == 1 }
	case 7:
		v = map[string]any{"names": c12Names{"a"}, "ptr": func() any { s := []int{x}; return &s }()}
		same = func(r any) bool {
			m, ok := r.(map[string]any)
			if !ok {
				return false
			}
			n, ok1 := m["names"].(c12Names)
			p, ok2 := m["ptr"].(*[]int)
			return ok1 && ok2 && len(n) == 1 && p != nil && len(*p) == 1 && (*p)[0] == x
		}
	}
	r, err := c12Round(v)
	if err != nil {
		return // failing loudly is allowed
	}
	vassert(same(r), "a value that is written and read back without an error is deeply equal to the original, with the identical dynamic type")
}

// named container types that are NOT registered, held in interface-typed positions, and a registered struct that
// embeds an unexported struct by pointer (its promoted fields are part of the value): the serialiser refuses them, or
// returns a value of the identical dynamic type with the same content - never a different value
type c12UnregTags []string
type c12RegTags []string
type c12UnregAttrs map[string]int
type c12UnregArr [2]int
type c12helper struct{ History []string }
type c12EmbP struct {
	*c12helper
	N int
}

func VerifC12UnregisteredShapes() {
	c12Reg()
	_ = GenericRegister[c12EmbP]("c12_embp")
	_ = GenericRegister[c12RegTags]("c12_reg_tags")
	kind := vchoose("shape", 5)
	where := vchoose("where", 3)
	var leaf any
	switch kind {
	case 4: // the registered counterpart: it has to round-trip (which also keeps this family from being vacuous)
		leaf = c12RegTags{"a", "b"}
	case 0:
		leaf = c12UnregTags{"a", "b"}
	case 1:
		leaf = c12UnregAttrs{"k": 1}
	case 2:
		leaf = c12UnregArr{1, 2}
	case 3:
		leaf = c12EmbP{&c12helper{History: []string{"h"}}, 3}
	}
	var v any
	switch where {
	case 0:
		v = leaf
	case 1:
		v = map[string]any{"k": leaf}
	case 2:
		v = c12Struct{I: leaf}
	}
	r, err := c12Round(v)
	if kind == 4 {
		vassert(err == nil, "a registered named slice type in an interface-typed position is serialised")
	}
	if err != nil {
		return // refused loudly
	}
	var got any
	switch where {
	case 0:
		got = r
	case 1:
		m, ok := r.(map[string]any)
		vassert(ok, "the container comes back as the same type")
		got = m["k"]
	case 2:
		s, ok := r.(c12Struct)
		vassert(ok, "the struct comes back as the same type")
		got = s.I
	}
	switch kind {
	case 0:
		g, ok := got.(c12UnregTags)
		vassert(ok && len(g) == 2 && g[0] == "a" && g[1] == "b", "a named slice that was accepted comes back as the same named type with the same items")
	case 1:
		g, ok := got.(c12UnregAttrs)
		vassert(ok && len(g) == 1 && g["k"] == 1, "a named map that was accepted comes back as the same named type with the same entries")
	case 2:
		g, ok := got.(c12UnregArr)
		vassert(ok && g[0] == 1 && g[1] == 2, "a named array that was accepted comes back as the same named type with the same items")
	case 4:
		g, ok := got.(c12RegTags)
		vassert(ok && len(g) == 2 && g[0] == "a" && g[1] == "b", "a registered named slice comes back as the same named type with the same items")
	case 3:
		g, ok := got.(c12EmbP)
		vassert(ok && g.N == 3 && g.c12helper != nil && len(g.History) == 1 && g.History[0] == "h", "a struct embedding an unexported struct by pointer that was accepted comes back with its promoted fields")
	}
}

// eino's own message type is "already registered": a message that uses its multi-modal parts or carries log
// probabilities round-trips like any other (every type reachable from schema.Message is known to the serialiser)
func VerifC12BuiltinMessage() {
	x := vsymStr("x")
	m := &schema.Message{Role: schema.Assistant, Content: x}
	switch vchoose("shape", 4) {
	case 0:
		m.MultiContent = []schema.ChatMessagePart{{Type: schema.ChatMessagePartTypeText, Text: x}}
	case 1:
		m.MultiContent = []schema.ChatMessagePart{{Type: schema.ChatMessagePartTypeImageURL, ImageURL: &schema.ChatMessageImageURL{URL: x, Detail: schema.ImageURLDetailHigh}}}
	case 2:
		m.ResponseMeta = &schema.ResponseMeta{FinishReason: "stop", LogProbs: &schema.LogProbs{Content: []schema.LogProb{{Token: x, LogProb: 0, TopLogProbs: []schema.TopLogProb{{Token: "t"}}}}}}
	case 3:
		m.ResponseMeta = &schema.ResponseMeta{LogProbs: &schema.LogProbs{}}
	}
	r, err := c12Round(m)
	vassert(err == nil, "a message built from eino's own types is serialised")
	if err != nil {
		return
	}
	g, ok := r.(*schema.Message)
	vassert(ok && g != nil && g.Content == x && g.Role == schema.Assistant, "and comes back as a message with its content")
	if !ok || g == nil {
		return
	}
	vassert(len(g.MultiContent) == len(m.MultiContent), "with its multi-modal parts")
	if len(m.MultiContent) == 1 && len(g.MultiContent) == 1 {
		vassert(g.MultiContent[0].Type == m.MultiContent[0].Type && g.MultiContent[0].Text == m.MultiContent[0].Text, "part type and text")
		if m.MultiContent[0].ImageURL != nil {
			vassert(g.MultiContent[0].ImageURL != nil && g.MultiContent[0].ImageURL.URL == x && g.MultiContent[0].ImageURL.Detail == schema.ImageURLDetailHigh, "image part")
		}
	}
	if m.ResponseMeta != nil && m.ResponseMeta.LogProbs != nil {
		vassert(g.ResponseMeta != nil && g.ResponseMeta.LogProbs != nil && len(g.ResponseMeta.LogProbs.Content) == len(m.ResponseMeta.LogProbs.Content), "with its log probabilities")
		if len(m.ResponseMeta.LogProbs.Content) == 1 && g.ResponseMeta != nil && g.ResponseMeta.LogProbs != nil && len(g.ResponseMeta.LogProbs.Content) == 1 {
			vassert(g.ResponseMeta.LogProbs.Content[0].Token == x && len(g.ResponseMeta.LogProbs.Content[0].TopLogProbs) == 1, "token and top alternatives")
		}
	}
}
