package host

import (
	"context"

	"github.com/cloudwego/eino/compose"
	"github.com/cloudwego/eino/flow/agent"
	"github.com/cloudwego/eino/schema"
)

// C05 / C06 for the host multi-agent flow: exported into a graph that has a checkpoint store, a specialist asks for
// interrupt-and-rerun once. The run is interrupted with extractable information and a checkpoint, and the resumed run
// hands the conversation to the specialist again and answers like a run whose specialist did not ask.

type c05hStore struct {
	m    map[string][]byte
	sets int
}

func (s *c05hStore) Get(ctx context.Context, id string) ([]byte, bool, error) {
	b, ok := s.m[id]
	if !ok {
		return nil, false, nil
	}
	return append([]byte{}, b...), true, nil
}
func (s *c05hStore) Set(ctx context.Context, id string, b []byte) error {
	s.sets++
	s.m[id] = append([]byte{}, b...)
	return nil
}

func VerifC05HostRerun() {
	ctx := context.Background()
	vcfg("fifo", 1)
	vcfg("selectfirst", 1)
	attempts := 0
	asking := &Specialist{AgentMeta: AgentMeta{Name: "s1", IntendedUse: "use s1"},
		Invokable: func(ctx context.Context, in []*schema.Message, opts ...agent.AgentOption) (*schema.Message, error) {
			attempts++
			if attempts == 1 {
				return nil, compose.InterruptAndRerun
			}
			all := ""
			for _, m := range in {
				all += m.Content + "|"
			}
			return &schema.Message{Role: schema.Assistant, Content: "s1:" + all}, nil
		}}
	ma, err := NewMultiAgent(ctx, &MultiAgentConfig{
		Host:        Host{ToolCallingModel: &c09Host{}, SystemPrompt: "sys"},
		Specialists: []*Specialist{asking, c09Specialist("s2")},
	})
	vassert(err == nil, "host multi-agent is created")
	g, opts := ma.ExportGraph()
	parent := compose.NewGraph[[]*schema.Message, *schema.Message]()
	vassert(parent.AddGraphNode("ma", g, opts...) == nil, "multi-agent graph added")
	_ = parent.AddEdge(compose.START, "ma")
	_ = parent.AddEdge("ma", compose.END)
	store := &c05hStore{m: map[string][]byte{}}
	r, err := parent.Compile(ctx, compose.WithCheckPointStore(store))
	vassert(err == nil, "parent graph compiles")
	p := vsymStr("p")
	in := []*schema.Message{schema.UserMessage(p), schema.UserMessage("A")}
	_, e1 := r.Invoke(ctx, in, compose.WithCheckPointID("cp"))
	_, ok := compose.ExtractInterruptInfo(e1)
	vassert(ok, "a specialist asking for a rerun interrupts the multi-agent with extractable information")
	if !ok {
		return
	}
	vassert(store.sets == 1, "a checkpoint is written under the id")
	out, e2 := r.Invoke(ctx, in, compose.WithCheckPointID("cp"))
	vassert(e2 == nil && out != nil, "the resumed multi-agent completes")
	if out != nil {
		vassert(out.Content == "s1:"+p+"|A|", "the specialist is handed the conversation again after the resume")
	}
}
