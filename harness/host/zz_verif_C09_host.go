package host

import (
	"context"
	"sync"

	"github.com/cloudwego/eino/components/model"
	"github.com/cloudwego/eino/flow/agent"
	"github.com/cloudwego/eino/schema"
)

// C09 (host multi-agent flow): one host multi-agent used by two callers at once. Each conversation is handed to the
// specialist its own host answer names, the specialist sees that conversation's messages only, each call's hand-off
// callback hears exactly its own hand-off, and there is no data race in framework code.

// a stateless host model: the decision depends only on the conversation it is shown
type c09Host struct{}

func (m *c09Host) WithTools(tools []*schema.ToolInfo) (model.ToolCallingChatModel, error) {
	return m, nil
}
func (m *c09Host) answer(input []*schema.Message) *schema.Message {
	vyield()
	who := input[len(input)-1].Content // the last (user) message names the conversation
	switch who {
	case "A", "A2":
		ix := 0
		return &schema.Message{Role: schema.Assistant, ToolCalls: []schema.ToolCall{{Index: &ix, ID: "h-" + who,
			Function: schema.FunctionCall{Name: "s1", Arguments: "arg-" + who}}}}
	case "B":
		ix := 0
		return &schema.Message{Role: schema.Assistant, ToolCalls: []schema.ToolCall{{Index: &ix, ID: "h-" + who,
			Function: schema.FunctionCall{Name: "s2", Arguments: "arg-" + who}}}}
	}
	return &schema.Message{Role: schema.Assistant, Content: "direct:" + who}
}
func (m *c09Host) Generate(ctx context.Context, input []*schema.Message, opts ...model.Option) (*schema.Message, error) {
	return m.answer(input), nil
}
func (m *c09Host) Stream(ctx context.Context, input []*schema.Message, opts ...model.Option) (*schema.StreamReader[*schema.Message], error) {
	return schema.StreamReaderFromArray([]*schema.Message{m.answer(input)}), nil
}

type c09HandOff struct {
	mu   sync.Mutex
	seen []string
}

func (h *c09HandOff) OnHandOff(ctx context.Context, info *HandOffInfo) context.Context {
	h.mu.Lock()
	h.seen = append(h.seen, info.ToAgentName+":"+info.Argument)
	h.mu.Unlock()
	return ctx
}

func c09Specialist(name string) *Specialist {
	echo := func(in []*schema.Message) *schema.Message {
		vyield()
		all := ""
		for _, m := range in {
			all += m.Content + "|"
		}
		return &schema.Message{Role: schema.Assistant, Content: name + ":" + all}
	}
	return &Specialist{AgentMeta: AgentMeta{Name: name, IntendedUse: "use " + name},
		Invokable: func(ctx context.Context, in []*schema.Message, opts ...agent.AgentOption) (*schema.Message, error) {
			return echo(in), nil
		},
		Streamable: func(ctx context.Context, in []*schema.Message, opts ...agent.AgentOption) (*schema.StreamReader[*schema.Message], error) {
			return schema.StreamReaderFromArray([]*schema.Message{echo(in)}), nil
		}}
}

// a ChatModel specialist (with a system prompt): stateless, echoes the conversation it is shown
type c09SpecModel struct{ name string }

func (m *c09SpecModel) echo(in []*schema.Message) *schema.Message {
	vyield()
	all := ""
	for _, x := range in {
		all += x.Content + "|"
	}
	return &schema.Message{Role: schema.Assistant, Content: m.name + ":" + all}
}
func (m *c09SpecModel) Generate(ctx context.Context, input []*schema.Message, opts ...model.Option) (*schema.Message, error) {
	return m.echo(input), nil
}
func (m *c09SpecModel) Stream(ctx context.Context, input []*schema.Message, opts ...model.Option) (*schema.StreamReader[*schema.Message], error) {
	return schema.StreamReaderFromArray([]*schema.Message{m.echo(input)}), nil
}

func c09ChatSpecialist(name string) *Specialist {
	return &Specialist{AgentMeta: AgentMeta{Name: name, IntendedUse: "use " + name}, ChatModel: &c09SpecModel{name: name}, SystemPrompt: "sp-" + name}
}

func c09HostRun(second string, withCallbacks bool) { c09HostRunK(second, withCallbacks, false) }

func c09HostRunK(second string, withCallbacks bool, chat bool) {
	ctx := context.Background()
	vcfg("delaybound", 1+vtier())
	vcfg("race", 1)
	vcfg("selectfirst", 1)
	mac := &MultiAgentConfig{
		Host:        Host{ToolCallingModel: &c09Host{}, SystemPrompt: "sys"},
		Specialists: []*Specialist{c09Specialist("s1"), c09Specialist("s2")},
	}
	sp := ""
	if chat {
		mac.Specialists = []*Specialist{c09ChatSpecialist("s1"), c09ChatSpecialist("s2")}
		sp = "sp-"
	}
	ma, err := NewMultiAgent(ctx, mac)
	vassert(err == nil, "host multi-agent is created")
	// every conversation starts with a symbolic payload message of its own
	payload := map[string]string{"A": vsymStr("pa"), second: vsymStr("pb")}
	if second == "A" {
		payload["A"] = vsymStr("pa")
	}
	want := func(who string) string {
		switch who {
		case "A", "A2":
			return "s1:" + c09Sys(sp, "s1") + payload[who] + "|" + who + "|"
		case "B":
			return "s2:" + c09Sys(sp, "s2") + payload[who] + "|" + who + "|"
		}
		return "direct:" + who
	}
	wantHand := func(who string) []string {
		switch who {
		case "A", "A2":
			return []string{"s1:arg-" + who}
		case "B":
			return []string{"s2:arg-" + who}
		}
		return nil
	}
	useStream := vchoose("stream", 2) == 1
	call := func(who string, h *c09HandOff) (*schema.Message, error) {
		in := []*schema.Message{schema.UserMessage(payload[who]), schema.UserMessage(who)}
		var opts []agent.AgentOption
		if withCallbacks {
			opts = append(opts, WithAgentCallbacks(h))
		}
		if useStream {
			sr, e := ma.Stream(ctx, in, opts...)
			if e != nil {
				return nil, e
			}
			var chunks []*schema.Message
			for i := 0; i < 8; i++ {
				c, e := sr.Recv()
				if e != nil {
					break
				}
				chunks = append(chunks, c)
			}
			sr.Close()
			return schema.ConcatMessages(chunks)
		}
		return ma.Generate(ctx, in, opts...)
	}
	h1, h2 := &c09HandOff{}, &c09HandOff{}
	var o2 *schema.Message
	var e2 error
	go func() { o2, e2 = call(second, h2) }()
	o1, e1 := call("A", h1)
	vquiesce()
	vassert(e1 == nil && e2 == nil, "both concurrent multi-agent runs succeed")
	vassert(o1 != nil && o1.Content == want("A"), "run A is answered by its specialist from its own conversation only")
	vassert(o2 != nil && o2.Content == want(second), "run B is answered by its specialist (or directly) from its own conversation only")
	if withCallbacks {
		eq := func(a, b []string) bool {
			if len(a) != len(b) {
				return false
			}
			for i := range a {
				if a[i] != b[i] {
					return false
				}
			}
			return true
		}
		vassert(eq(h1.seen, wantHand("A")), "call A's hand-off callback hears exactly its own hand-off")
		vassert(eq(h2.seen, wantHand(second)), "call B's hand-off callback hears exactly its own hand-off")
	}
}

func VerifC09Host()         { c09HostRun([]string{"B", "A2", "C"}[vchoose("second", 3)], false) }
func VerifC09HostCallback() { c09HostRun([]string{"B", "C"}[vchoose("second", 2)], true) }

func c09Sys(sp, name string) string {
	if sp == "" {
		return ""
	}
	return sp + name + "|"
}

// ChatModel specialists with a system prompt: the input each run's specialist sees is that run's conversation behind
// the system message, also when two runs are handed to the same specialist at once
func VerifC09HostChatModel() { c09HostRunK([]string{"A2", "B"}[vchoose("second", 2)], false, true) }
