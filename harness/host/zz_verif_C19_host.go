package host

import (
	"context"

	"github.com/cloudwego/eino/components/model"
	"github.com/cloudwego/eino/compose"
	"github.com/cloudwego/eino/flow/agent"
	"github.com/cloudwego/eino/schema"
)

// C19 for the host multi-agent flow: a specialist that is a chat model streaming from its own producer goroutine, the
// hand-off callbacks installed for the whole run (undesignated, as for an exported multi-agent graph) or through
// WithAgentCallbacks; the caller reads the answer to the end or closes it early. Afterwards no producer is left
// blocked: every stream copy the framework made (also those made for the callback handlers) was drained or closed.

type c19Spec struct{ k int }

func (m *c19Spec) Generate(ctx context.Context, in []*schema.Message, opts ...model.Option) (*schema.Message, error) {
	return &schema.Message{Role: schema.Assistant, Content: "s"}, nil
}
func (m *c19Spec) Stream(ctx context.Context, in []*schema.Message, opts ...model.Option) (*schema.StreamReader[*schema.Message], error) {
	sr, sw := schema.Pipe[*schema.Message](0)
	go func() {
		defer sw.Close()
		for i := 0; i < m.k; i++ {
			if sw.Send(&schema.Message{Role: schema.Assistant, Content: "c"}, nil) {
				return
			}
		}
	}()
	return sr, nil
}
func (m *c19Spec) BindTools(tools []*schema.ToolInfo) error { return nil }

func VerifC19HostCallbacks() {
	ctx := context.Background()
	vcfg("preempt", 0)
	vcfg("selectfirst", 1)
	K := 3
	ma, err := NewMultiAgent(ctx, &MultiAgentConfig{
		Host:        Host{ToolCallingModel: &c09Host{}, SystemPrompt: "sys"},
		Specialists: []*Specialist{{AgentMeta: AgentMeta{Name: "s1", IntendedUse: "use s1"}, ChatModel: &c19Spec{K}}, c09Specialist("s2")},
	})
	vassert(err == nil, "host multi-agent is created")
	h := &c09HandOff{}
	var opts []agent.AgentOption
	switch vchoose("callbacks", 3) {
	case 1:
		opts = append(opts, WithAgentCallbacks(h))
	case 2:
		opts = append(opts, agent.WithComposeOptions(compose.WithCallbacks(ConvertCallbackHandlers(h))))
	}
	sr, err := ma.Stream(ctx, []*schema.Message{schema.UserMessage("p"), schema.UserMessage("A")}, opts...)
	vassert(err == nil, "the streaming run starts")
	readN := vchoose("readN", K+2)
	for i := 0; i < readN; i++ {
		if _, e := sr.Recv(); e != nil {
			break
		}
	}
	sr.Close()
	vquiesce()
}
