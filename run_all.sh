#!/bin/bash
# run every check of the given tier sequentially; print one summary line per property
tier=${1:-quick}
for id in C01 C02 C03 C04 C05 C06 C07 C08 C09 C10 C11 C12 C13 C14 C15 C16 C17 C18 C19 C20; do
  /verif/check $id $tier 2>&1 | tail -1 | cut -c1-260
done
