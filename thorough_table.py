#!/usr/bin/env python3
# thorough_table.py: markdown table of the last complete thorough run, from /verif/evidence_thorough/*.json
# (copies of the evidence files the thorough commands wrote; evidence/<id>.json itself is rewritten by every run)
import json, glob, os

rows = []
for f in sorted(glob.glob(os.path.join(os.path.dirname(os.path.abspath(__file__)), "evidence_thorough", "C*.json"))):
    e = json.load(open(f))
    c = e["coverage"]
    cc = c.get("solver_crosscheck")
    if not cc:
        x = "off"
    else:
        ran = [h for h in cc["harnesses"] if "skipped" not in h]
        x = "%d agree, %d solver-free" % (sum(1 for h in ran if h.get("agree")), len(cc["harnesses"]) - len(ran))
        if not cc.get("agree", True):
            x += " (DISAGREE)"
    rows.append("| %s | %d | %d | %d | %d | %d | %.0f | %d | %s | %.0f |" % (
        e["property_id"], len(c["harnesses"]), c["states"], c["obligations"], c["solver_queries"], c["solver_unknown"], c["solver_s"],
        c["traces_validated_against_impl"], x, e["wall_s"]))
print("| property | harnesses | paths | assertions checked | solver queries | unknown | solver s (all workers) | native validations | cvc5 pass | wall s |")
print("|---|---:|---:|---:|---:|---:|---:|---:|---|---:|")
print("\n".join(rows))
