#!/bin/bash
# one.sh <harness> [only-prefixes] [pkg] [overlay]: run a single harness with the engine (development helper)
h=$1; only=${2:-zz_verif_common,zz_verif_C20_}; pkg=${3:-github.com/cloudwego/eino/compose}; ov=${4:-/verif/harness/compose}
export GOFLAGS=-mod=mod GOPROXY=off GOSUMDB=off GOTOOLCHAIN=local
/verif/bin/gosym -repo ${VERIF_REPO:-/repo} -pkg $pkg -overlay $ov -only $only -rt /verif/harness/rt_stub.go.tmpl -harness $h -out /tmp/one-$h.json -timeout ${T:-120} 2>&1 | tail -${N:-15}
python3 - <<PY
import json
d=json.load(open('/tmp/one-$h.json'))
for h in d.get('harnesses',[]):
    print(h.get('name'), 'paths',h.get('paths'), 'ended',h.get('ended'), 'viol',len(h.get('violations',[])))
    for v in h.get('violations',[])[:6]: print('  ', v.get('msg'), v.get('decisions'))
PY
