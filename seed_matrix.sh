#!/bin/bash
# seed_matrix.sh [tier]: run each seeded change against the check of its property (and extra checks listed in
# seeded/<id>/also.txt) in a scratch worktree of /repo; writes seeded/MATRIX.tsv
tier=${1:-quick}
pat=${2:-C*-*}   # optional: only the seeded changes matching this glob are (re-)run, other rows are kept
wt=/tmp/mut/matrix-wt
git -C /repo worktree remove --force $wt 2>/dev/null
git -C /repo worktree add --detach $wt HEAD >/dev/null 2>&1 || exit 1
out=/verif/seeded/MATRIX.tsv
if [ "$pat" = "C*-*" ] || [ ! -f $out ]; then
  echo -e "seeded\tcheck\ttier\texit\tfirst_violation" > $out
fi
for d in /verif/seeded/$pat/; do
  name=$(basename $d); prop=${name%-*}
  grep -v "^$name	" $out > $out.tmp; mv $out.tmp $out
  checks="$prop"; [ -f $d/also.txt ] && checks="$checks $(cat $d/also.txt)"
  ( cd $wt && git checkout -q -- . && git apply $d/patch.diff ) || { echo -e "$name\t-\t$tier\tPATCH-FAILS\t" >> $out; continue; }
  for c in $checks; do
    res=$(VERIF_REPO=$wt /verif/check $c $tier 2>&1); rc=$?
    first=$(echo "$res" | grep -m1 "harness=" | cut -c1-160 | tr '\t' ' ')
    echo -e "$name\t$c\t$tier\t$rc\t$first" >> $out
  done
  ( cd $wt && git checkout -q -- . )
done
git -C /repo worktree remove --force $wt
