#!/bin/bash
# seed_matrix_par.sh [tier] [shards]: like seed_matrix.sh for ALL seeded changes, split over <shards> scratch
# worktrees of /repo run side by side (each check then gets fewer cores; verdicts do not depend on that, timeouts do:
# an exit 3 row is re-run alone by seed_matrix.sh <tier> <name>). Rewrites seeded/MATRIX.tsv.
tier=${1:-quick}; K=${2:-3}
out=/verif/seeded/MATRIX.tsv
ls -d /verif/seeded/C*-*/ | sort -V > /tmp/mut/matrix-all.txt
for k in $(seq 0 $((K-1))); do
  (
    wt=/tmp/mut/matrix-wt-$k
    git -C /repo worktree remove --force $wt 2>/dev/null
    git -C /repo worktree add --detach $wt HEAD >/dev/null 2>&1 || exit 1
    : > /tmp/mut/matrix-part-$k.tsv
    awk -v k=$k -v K=$K 'NR%K==k' /tmp/mut/matrix-all.txt | while read d; do
      name=$(basename $d); prop=${name%-*}
      checks="$prop"; [ -f $d/also.txt ] && checks="$checks $(cat $d/also.txt)"
      ( cd $wt && git checkout -q -- . && git apply $d/patch.diff ) || { echo -e "$name\t-\t$tier\tPATCH-FAILS\t" >> /tmp/mut/matrix-part-$k.tsv; continue; }
      for c in $checks; do
        res=$(VERIF_REPO=$wt VERIF_SCRATCH_EVIDENCE=/tmp/mut/matrix-ev-$k /verif/check $c $tier 2>&1); rc=$?
        first=$(echo "$res" | grep -m1 "harness=" | cut -c1-160 | tr '\t' ' ')
        echo -e "$name\t$c\t$tier\t$rc\t$first" >> /tmp/mut/matrix-part-$k.tsv
      done
      ( cd $wt && git checkout -q -- . )
    done
    git -C /repo worktree remove --force $wt
    rm -rf /tmp/mut/matrix-ev-$k
  ) &
done
wait
echo -e "seeded\tcheck\ttier\texit\tfirst_violation" > $out
cat /tmp/mut/matrix-part-*.tsv | sort -V >> $out
rm -f /tmp/mut/matrix-part-*.tsv /tmp/mut/matrix-all.txt
