#!/bin/bash
# mutcheck_wt.sh <Cnn> <patch> [tier]: like mutcheck.sh, but applies the change to a scratch worktree of /repo
# (so /repo itself is never touched and other checks can run meanwhile); evidence of such runs goes to a tmp dir
id=$1; patch=$(readlink -f "$2"); tier=${3:-quick}
wt=/tmp/mut/mc-wt-$$
git -C /repo worktree add --detach $wt HEAD >/dev/null 2>&1 || { echo "worktree failed"; exit 9; }
if ! git -C $wt apply --check "$patch" 2>/dev/null; then echo "PATCH DOES NOT APPLY: $patch"; git -C /repo worktree remove --force $wt; exit 9; fi
git -C $wt apply "$patch"
VERIF_REPO=$wt /verif/check $id $tier 2>&1 | cut -c1-400 | head -${LINES_MAX:-14}
rc=${PIPESTATUS[0]}
git -C /repo worktree remove --force $wt
echo "== $id $(basename $patch) exit=$rc"
