#!/bin/bash
# seed_verify.sh <Cnn> <n>: confirm a seeded change in a scratch worktree and import it into /verif/seeded/<Cnn>-<n>/
# (suite passes with the change; demo fails with it and passes without it)
export GOFLAGS=-mod=mod GOPROXY=off GOSUMDB=off GOTOOLCHAIN=local
id=$1; n=$2; src=${3:-/tmp/mut/out-$id}; dn=${4:-$n}
wt=/tmp/mut/verify-$id-$n
dst=/verif/seeded/$id-$dn
git -C /repo worktree add --detach $wt HEAD >/dev/null 2>&1 || { echo "worktree failed"; exit 1; }
cd $wt
res="{}"
applies=true; git apply --check $src/patch$n.diff 2>/dev/null || applies=false
if $applies; then
  git apply $src/patch$n.diff
  build=true; go build ./... >/dev/null 2>&1 || build=false
  suite=true; go test -vet=off -count=1 ./... >/tmp/mut/verify-$id-$n.suite.log 2>&1 || suite=false
  place=$(head -1 $src/demo${n}_test.go | sed -n 's#.*place in: *\([A-Za-z0-9_/.-]*\).*#\1#p'); place=${place%/}
  [ -z "$place" ] && place=compose
  cp $src/demo${n}_test.go $wt/$place/zz_demo_${id}_${n}_test.go
  demo_with=pass; timeout 600 go test -vet=off -count=1 -run 'Demo|demo|ZZ' ./$place/ >/tmp/mut/verify-$id-$n.with.log 2>&1 || demo_with=fail
  git apply -R $src/patch$n.diff
  demo_without=pass; timeout 600 go test -vet=off -count=1 -run 'Demo|demo|ZZ' ./$place/ >/tmp/mut/verify-$id-$n.without.log 2>&1 || demo_without=fail
else
  build=false; suite=false; demo_with=na; demo_without=na; place=na
fi
cd /; git -C /repo worktree remove --force $wt
ok=false; if $applies && $build && $suite && [ $demo_with = fail ] && [ $demo_without = pass ]; then ok=true; fi
echo "$id-$dn applies=$applies build=$build suite=$suite demo_with=$demo_with demo_without=$demo_without place=$place ok=$ok"
if $ok; then
  mkdir -p $dst; cp $src/patch$n.diff $dst/patch.diff; cp $src/demo${n}_test.go $dst/demo_test.go
  python3 - <<PY
import json
m=json.load(open("$src/meta$n.json"))
out={"property":"$id","breaks":m.get("summary"),"needs":m.get("needs"),"files":m.get("files"),"demo_place":"$place",
 "confirmed":{"repo_commit":"$(git -C /repo rev-parse --short HEAD)","patch_applies":True,"builds":True,"suite_passes_with_change":True,"demo_fails_with_change":True,"demo_passes_without_change":True,
   "commands":["git apply patch.diff","go build ./...","go test -vet=off -count=1 ./...","go test -vet=off -count=1 -run 'Demo|demo|ZZ' ./$place/ (with and without the change)"]},
 "detected_by":None}
json.dump(out,open("$dst/meta.json","w"),indent=1)
PY
fi
