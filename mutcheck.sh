#!/bin/bash
# mutcheck.sh <Cnn> <patch> [tier]: apply a seeded change to /repo, run the check, undo the change
id=$1; patch=$2; tier=${3:-quick}
cd /repo || exit 9
if ! git apply --check "$patch" 2>/dev/null; then echo "PATCH DOES NOT APPLY: $patch"; exit 9; fi
git apply "$patch"
cd /verif && ./check $id $tier 2>&1 | cut -c1-400 | head -${LINES_MAX:-14}
rc=${PIPESTATUS[0]}
git -C /repo checkout -- . 
echo "== $id $(basename $patch) exit=$rc"
