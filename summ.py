#!/usr/bin/env python3
import json,sys
d=json.load(open(sys.argv[1]))
for r in d['results']:
    print(f"{r['harness']}: paths={r['paths']} dp={r['decision_points']} ended={r['ended']} ok_asrt={r['paths_ok_with_asserts']} asserts={r['asserts']}/{r['asserts_symbolic']} q={r['queries']} unk={r['unknown']} solver={r['solver_s']:.1f}s wall={r['wall_s']:.1f}s instr={r['instructions']} fns={len(r['functions'])}")
    for v in (r['violations'] or [])[:int(__import__('os').environ.get('NV','6'))]:
        print("   VIOL:",v['msg'][:300],"| model=",str(v['model'])[:200],"| dec=",(v['decisions'] or [])[:40], "x",v['count'])
        for l in (v.get('logs') or [])[:30]: print("       log:",l)
    for i in r['inconclusive'] or []:
        print("   INCONCL:",i[:1500])
