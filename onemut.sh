#!/bin/bash
# onemut.sh <patch> <harness> [only-prefixes] [pkg] [overlay]: run one harness against a seeded change (scratch worktree)
patch=$(readlink -f "$1"); shift
wt=/tmp/mut/onemut-$$
git -C /repo worktree add --detach $wt HEAD >/dev/null 2>&1 || { echo "worktree failed"; exit 9; }
git -C $wt apply "$patch" || { echo "PATCH DOES NOT APPLY"; git -C /repo worktree remove --force $wt; exit 9; }
VERIF_REPO=$wt /verif/one.sh "$@"
git -C /repo worktree remove --force $wt
